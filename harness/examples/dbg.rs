use anytls_verif::engine::{self, PairCfg};
use anytls_verif::mempipe::ReadFault;
use bytes::Bytes;
use std::time::Duration;
fn main() {
    tracing_subscriber::fmt().with_max_level(tracing::Level::DEBUG).init();
    anytls_verif::run::vt_block_on(async {
        let mut pair = engine::make_pair(PairCfg::plain()).await;
        pair.c2s.set_read_fault(79, ReadFault::Eof);
        for i in 0..2 {
            let r = engine::open_like_client(&pair.client, Bytes::from(vec![i as u8; 9])).await;
            println!("open {i}: {:?}", r.is_ok());
        }
        tokio::time::sleep(Duration::from_secs(200)).await;
        println!("server closed={} client closed={}", pair.server.is_closed(), pair.client.is_closed());
        for (i, t) in pair.server_tasks.iter().enumerate() {
            println!("server task {i} finished={}", t.is_finished());
        }
        println!("alive={}", anytls_verif::run::alive_tasks());
        println!("c2s accepted={} delivered={} s2c log shutdown={:?}", pair.c2s.accepted(), pair.c2s.delivered(), pair.s2c.log().shutdown_calls);

    });
}
