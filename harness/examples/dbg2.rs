use anytls_verif::engine::{self, PairCfg};
use bytes::Bytes;
use std::time::Duration;
fn main() {
    let variant: u32 = std::env::args().nth(1).and_then(|s| s.parse().ok()).unwrap_or(0);
    anytls_verif::run::vt_block_on(async move {
        let pair = engine::make_pair(PairCfg::plain()).await;
        if variant >= 1 {
            let r = engine::open_like_client(&pair.client, Bytes::from(vec![1u8; 9])).await;
            println!("open: {:?}", r.is_ok());
        }
        tokio::time::sleep(Duration::from_secs(1)).await;
        if variant == 2 {
            println!("client close -> {:?}", pair.client.close().await.is_ok());
        } else {
            println!("server close -> {:?}", pair.server.close().await.is_ok());
        }
        tokio::time::sleep(Duration::from_secs(10)).await;
        for (i, t) in pair.server_tasks.iter().enumerate() {
            println!("server task {i} finished={}", t.is_finished());
        }
        println!("alive={}", anytls_verif::run::alive_tasks());
    });
}
