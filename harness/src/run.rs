//! Execution helpers: sharding over OS threads, virtual-time runtimes, the
//! process-wide panic monitor and a wall-clock watchdog.

use crate::report::{Report, Tier};
use std::cell::Cell;
use std::future::Future;
use std::sync::atomic::{AtomicU64, Ordering};
use std::sync::{Arc, Mutex};
use std::time::{Duration, Instant};

#[derive(Clone, Copy, Debug)]
pub struct Ctx {
    pub tier: Tier,
    pub seed: u64,
    pub shards: usize,
}

pub static PANICS: AtomicU64 = AtomicU64::new(0);
static PANIC_LOG: Mutex<Vec<String>> = Mutex::new(Vec::new());

thread_local! {
    static THREAD_PANICS: Cell<u64> = const { Cell::new(0) };
    static THREAD_PANIC_LOG: std::cell::RefCell<Vec<String>> = const { std::cell::RefCell::new(Vec::new()) };
}

/// Install the process-wide panic monitor. Every panic in any task or thread
/// is counted (tokio catches task panics, the hook still fires).
pub fn install_panic_monitor() {
    let prev = std::panic::take_hook();
    std::panic::set_hook(Box::new(move |info| {
        PANICS.fetch_add(1, Ordering::SeqCst);
        THREAD_PANICS.with(|c| c.set(c.get() + 1));
        let loc = info.location().map(|l| format!("{}:{}", l.file(), l.line())).unwrap_or_default();
        let msg = if let Some(s) = info.payload().downcast_ref::<&str>() {
            s.to_string()
        } else if let Some(s) = info.payload().downcast_ref::<String>() {
            s.clone()
        } else {
            "<non-string panic>".to_string()
        };
        let mut short = msg.clone();
        short.truncate(300);
        let line = format!("{loc}: {short}");
        THREAD_PANIC_LOG.with(|l| {
            if let Ok(mut l) = l.try_borrow_mut() {
                l.push(line.clone());
            }
        });
        PANIC_LOG.lock().unwrap_or_else(|e| e.into_inner()).push(line);
        if std::env::var("VERIF_SHOW_PANICS").is_ok() {
            prev(info);
        }
    }));
}

/// panics raised on this thread since the last call (location: message)
pub fn take_thread_panics() -> Vec<String> {
    THREAD_PANIC_LOG.with(|l| std::mem::take(&mut *l.borrow_mut()))
}
/// true when the panic location is inside the harness crate itself (a harness bug, not a finding)
pub fn is_harness_panic(line: &str) -> bool {
    line.starts_with("src/") || line.contains("/verif/harness/")
}
pub fn thread_panics() -> u64 {
    THREAD_PANICS.with(|c| c.get())
}
pub fn total_panics() -> u64 {
    PANICS.load(Ordering::SeqCst)
}
pub fn last_panic() -> String {
    PANIC_LOG.lock().unwrap_or_else(|e| e.into_inner()).last().cloned().unwrap_or_default()
}
pub fn panic_log() -> Vec<String> {
    PANIC_LOG.lock().unwrap_or_else(|e| e.into_inner()).clone()
}

// ---- watchdog -------------------------------------------------------------

struct Slot {
    started: Option<Instant>,
    what: String,
    tid_path: String,
    cpu_at_start: u64,
}

static SLOTS: Mutex<Vec<Arc<Mutex<Slot>>>> = Mutex::new(Vec::new());
thread_local! {
    static MY_SLOT: std::cell::RefCell<Option<Arc<Mutex<Slot>>>> = const { std::cell::RefCell::new(None) };
}

fn thread_cpu_ticks(tid_path: &str) -> u64 {
    let Ok(s) = std::fs::read_to_string(format!("{tid_path}/stat")) else { return 0 };
    let Some(rp) = s.rfind(')') else { return 0 };
    let f: Vec<&str> = s[rp + 1..].split_whitespace().collect();
    // after the comm field: state is f[0]; utime = field 14 overall => f[11], stime => f[12]
    let u = f.get(11).and_then(|x| x.parse::<u64>().ok()).unwrap_or(0);
    let st = f.get(12).and_then(|x| x.parse::<u64>().ok()).unwrap_or(0);
    u + st
}

/// Mark the start of a case on this thread (for the wall-clock watchdog).
pub fn case_begin(what: &str) {
    MY_SLOT.with(|m| {
        let mut m = m.borrow_mut();
        if m.is_none() {
            let tid_path = std::fs::read_link("/proc/thread-self").map(|p| format!("/proc/{}", p.display())).unwrap_or_default();
            let slot = Arc::new(Mutex::new(Slot { started: None, what: String::new(), tid_path, cpu_at_start: 0 }));
            SLOTS.lock().unwrap_or_else(|e| e.into_inner()).push(slot.clone());
            *m = Some(slot);
        }
        let slot = m.as_ref().unwrap();
        let mut s = slot.lock().unwrap_or_else(|e| e.into_inner());
        s.started = Some(Instant::now());
        s.what = what.to_string();
        s.cpu_at_start = thread_cpu_ticks(&s.tid_path);
    });
}

pub fn case_end() {
    MY_SLOT.with(|m| {
        if let Some(slot) = m.borrow().as_ref() {
            slot.lock().unwrap_or_else(|e| e.into_inner()).started = None;
        }
    });
}

/// Start the watchdog thread. If a case exceeds `limit` wall seconds the run
/// cannot continue (the thread is stuck): with `spin_prop` set and the thread
/// having burned CPU for most of that time, this is reported as a violation
/// (spin) of that property; otherwise the run ends inconclusive (exit 3).
pub fn start_watchdog(limit: Duration, spin_prop: Option<&'static str>) {
    // instrumented builds (the ASan replay) run several times slower
    let limit = limit * std::env::var("VERIF_WATCHDOG_SCALE").ok().and_then(|s| s.parse::<u32>().ok()).unwrap_or(1).max(1);
    std::thread::spawn(move || {
        loop {
            std::thread::sleep(Duration::from_millis(500));
            let slots = SLOTS.lock().unwrap_or_else(|e| e.into_inner()).clone();
            for slot in slots {
                let (started, what, tid, cpu0) = {
                    let s = slot.lock().unwrap_or_else(|e| e.into_inner());
                    (s.started, s.what.clone(), s.tid_path.clone(), s.cpu_at_start)
                };
                if let Some(t0) = started
                    && t0.elapsed() > limit
                {
                    let cpu = thread_cpu_ticks(&tid).saturating_sub(cpu0) as f64 / 100.0;
                    let wall = t0.elapsed().as_secs_f64();
                    if let Some(p) = spin_prop
                        && cpu > 0.8 * wall
                    {
                        let root = crate::report::verif_root();
                        let path = root.join("replays").join(format!("{p}-spin-{}.json", std::process::id()));
                        let _ = std::fs::create_dir_all(root.join("replays"));
                        let _ = std::fs::write(&path, serde_json::json!({"property": p, "symptom": "spin", "case": what, "wall_s": wall, "cpu_s": cpu}).to_string());
                        println!("VIOLATION property={} replay={}", p, path.display());
                        println!("  detail: case burned {cpu:.0}s CPU in {wall:.0}s wall without finishing: {what}");
                        std::process::exit(1);
                    }
                    println!("INCONCLUSIVE: wall-clock watchdog ({wall:.0}s, cpu {cpu:.0}s) on case: {what}");
                    std::process::exit(3);
                }
            }
        }
    });
}

// ---- runtimes ---------------------------------------------------------------

/// Run `fut` on a fresh current-thread runtime with the clock paused (virtual
/// time: timers fire only when every task is idle). A global virtual deadline
/// guarantees a pending timer, so a case in which everything is blocked forever
/// ends (with None) instead of parking the thread.
pub fn vt_block_on_deadline<F: Future>(virtual_deadline: Duration, fut: F) -> Option<F::Output> {
    // a panic of the code under test inside the case's main future must not take the shard down:
    // it is recorded by the panic monitor (the case reports it as a violation) and the case ends
    let r = std::panic::catch_unwind(std::panic::AssertUnwindSafe(|| {
        let rt = tokio::runtime::Builder::new_current_thread().enable_all().start_paused(true).build().expect("runtime");
        let out = rt.block_on(async move { tokio::time::timeout(virtual_deadline, fut).await.ok() });
        drop(rt);
        out
    }));
    r.unwrap_or(None)
}

pub fn vt_block_on<F: Future>(fut: F) -> F::Output {
    vt_block_on_deadline(Duration::from_secs(30 * 86400), fut).expect("case still pending after 30 virtual days with every task idle")
}

/// Multi-thread real-time runtime for monitors that touch sockets.
pub fn rt_block_on<F: Future>(workers: usize, fut: F) -> F::Output {
    let rt = tokio::runtime::Builder::new_multi_thread().worker_threads(workers).enable_all().build().expect("runtime");
    let out = rt.block_on(fut);
    rt.shutdown_timeout(Duration::from_millis(200));
    out
}

pub fn alive_tasks() -> usize {
    tokio::runtime::Handle::current().metrics().num_alive_tasks()
}

/// Run `f(shard, nshards, &mut report)` on `n` OS threads and merge the reports.
pub fn run_sharded<F>(prop: &str, n: usize, f: F) -> Report
where
    F: Fn(usize, usize, &mut Report) + Send + Sync + 'static,
{
    let f = Arc::new(f);
    let mut handles = Vec::new();
    for shard in 0..n {
        let f = f.clone();
        let prop = prop.to_string();
        handles.push(
            std::thread::Builder::new()
                .name(format!("shard-{shard}"))
                .stack_size(16 << 20)
                .spawn(move || {
                    let mut rep = Report::new(&prop);
                    f(shard, n, &mut rep);
                    case_end();
                    rep
                })
                .expect("spawn shard"),
        );
    }
    let mut total = Report::new(prop);
    for h in handles {
        match h.join() {
            Ok(r) => total.merge(r),
            Err(_) => {
                let last = last_panic();
                if is_harness_panic(&last) {
                    total.inconclusive(format!("a shard thread of the harness itself panicked: {last}"));
                } else {
                    total.violate("panic", "escaped_to_monitor", "panic", format!("the code under test panicked on a monitor thread: {last}"), serde_json::json!({"panic": last}));
                }
            }
        }
    }
    total
}

/// Await `fut` for at most `d` of (virtual) time.
pub async fn within<F: Future>(d: Duration, fut: F) -> Option<F::Output> {
    tokio::time::timeout(d, fut).await.ok()
}
