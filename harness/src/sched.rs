//! Harness side of the `verif::sched_point` hook: decides per hit how many
//! `yield_now()` the task performs, and logs the global hit sequence (its hash
//! is the identity of an interleaving).

use crate::prng::Rng;
use std::cell::RefCell;
use std::collections::BTreeMap;
use std::rc::Rc;

#[derive(Clone, Debug)]
pub enum SchedMode {
    /// log hits, never yield
    Observe,
    /// yield with probability p at each hit, 1..=max yields
    Random { p: f64, max: u32 },
    /// yield exactly at these global hit indices
    Plan(BTreeMap<usize, u32>),
    /// yield at the n-th hit of a given named point
    Named(Vec<(&'static str, usize, u32)>),
}

#[derive(Default, Debug)]
pub struct SchedState {
    pub hits: Vec<&'static str>,
    pub yields: Vec<(usize, &'static str, u32)>,
    per_name: BTreeMap<&'static str, usize>,
}

impl SchedState {
    pub fn interleaving_id(&self) -> u64 {
        let mut h = 0xcbf2_9ce4_8422_2325u64;
        for (i, n, y) in &self.yields {
            for b in n.bytes() {
                h ^= b as u64;
                h = h.wrapping_mul(0x0000_0100_0000_01B3);
            }
            h ^= (*i as u64) << 8 | *y as u64;
            h = h.wrapping_mul(0x0000_0100_0000_01B3);
        }
        h
    }
}

pub struct SchedGuard {
    pub state: Rc<RefCell<SchedState>>,
}

impl Drop for SchedGuard {
    fn drop(&mut self) {
        anytls_rs::verif::set_sched_controller(None);
    }
}

/// Install a controller on the current thread; removed when the guard drops.
pub fn install(mode: SchedMode, seed: u64) -> SchedGuard {
    let state = Rc::new(RefCell::new(SchedState::default()));
    let st = state.clone();
    let mut rng = Rng::new(seed ^ 0x5C4E_D000);
    let ctrl: anytls_rs::verif::SchedController = Box::new(move |name: &'static str| {
        let mut s = st.borrow_mut();
        let idx = s.hits.len();
        s.hits.push(name);
        let nth = {
            let e = s.per_name.entry(name).or_insert(0);
            let v = *e;
            *e += 1;
            v
        };
        let y = match &mode {
            SchedMode::Observe => 0,
            SchedMode::Random { p, max } => {
                if rng.chance(*p) { rng.range(1, *max as u64) as u32 } else { 0 }
            }
            SchedMode::Plan(m) => m.get(&idx).copied().unwrap_or(0),
            SchedMode::Named(v) => v.iter().find(|(n, k, _)| *n == name && *k == nth).map(|x| x.2).unwrap_or(0),
        };
        if y > 0 {
            s.yields.push((idx, name, y));
        }
        y
    });
    anytls_rs::verif::set_sched_controller(Some(ctrl));
    SchedGuard { state }
}
