//! One module per property; `dispatch` runs a check and returns the exit code.

use crate::report::{Report, finish};
use crate::run::Ctx;
use std::time::Instant;

pub mod c01;
pub mod c02;
pub mod c03;
pub mod c04;
pub mod c05;
pub mod c06;
pub mod c07;
pub mod c08;
pub mod c09;
pub mod c10;
pub mod c11;
pub mod c12;
pub mod c13;
pub mod c14;
pub mod c15;
pub mod c16;
pub mod c17;
pub mod c18;
pub mod c19;
pub mod c20;
pub mod pad;
pub mod mux;

/// Run a check; a panic that escapes from the code under test on a harness thread is itself a
/// violation (with the panic as the witness), a panic of the harness is broken machinery.
pub fn dispatch(prop: &str, ctx: Ctx, replay: Option<&str>) -> i32 {
    let prop2 = prop.to_string();
    let replay2 = replay.map(|s| s.to_string());
    match std::panic::catch_unwind(move || dispatch_inner(&prop2, ctx, replay2.as_deref())) {
        Ok(code) => code,
        Err(_) => {
            let last = crate::run::last_panic();
            if crate::run::is_harness_panic(&last) {
                println!("BROKEN-MACHINERY property={prop} the harness itself panicked: {last}");
                2
            } else {
                let root = crate::report::verif_root();
                let _ = std::fs::create_dir_all(root.join("replays"));
                let path = root.join("replays").join(format!("{prop}-panic-{}.json", std::process::id()));
                let _ = std::fs::write(&path, serde_json::json!({"property": prop, "signature": "panic|escaped_to_monitor|panic", "detail": last, "tier": ctx.tier.name(), "seed": ctx.seed as i64}).to_string());
                println!("VIOLATION property={prop} replay={}", path.display());
                println!("  detail: the code under test panicked: {last}");
                1
            }
        }
    }
}

fn dispatch_inner(prop: &str, ctx: Ctx, replay: Option<&str>) -> i32 {
    let started = Instant::now();
    // a witness of a kind that has no single-case replay is replayed by running the check again with the tier
    // and seed recorded in the witness (case generation is a function of the seed)
    let mut ctx = ctx;
    if let Some(path) = replay {
        match replay_file(prop, path) {
            REPLAY_WHOLE_CHECK => {
                let v: serde_json::Value = std::fs::read_to_string(path).ok().and_then(|t| serde_json::from_str(&t).ok()).unwrap_or_default();
                if let Some(seed) = v.get("seed").and_then(|x| x.as_u64()) {
                    ctx.seed = seed;
                }
                if v.get("tier").and_then(|x| x.as_str()) == Some("thorough") {
                    ctx.tier = crate::report::Tier::Thorough;
                } else if v.get("tier").and_then(|x| x.as_str()) == Some("quick") {
                    ctx.tier = crate::report::Tier::Quick;
                }
                println!("replay: no single-case replay for this kind of witness; running {prop} {} with seed {} as recorded in {path}", ctx.tier.name(), ctx.seed);
            }
            code => return code,
        }
    }
    match prop {
        "C01" => {
            crate::run::start_watchdog(std::time::Duration::from_secs(ctx.tier.pick(180, 1800)), None);
            // replay aid: VERIF_C01_ONLY_E2E=1 skips the in-memory part
            let mut rep = if std::env::var("VERIF_C01_ONLY_E2E").is_ok() { Report::new("C01") } else { c01::run(ctx) };
            rep.merge(c01::run_e2e(ctx));
            if ctx.tier == crate::report::Tier::Thorough && std::env::var("VERIF_SKIP_MIRI").is_err() {
                miri_step(&mut rep, "c01");
            }
            finish(rep, c01::meta(), ctx.tier, ctx.seed, started)
        }
        "C04" => {
            crate::run::start_watchdog(std::time::Duration::from_secs(ctx.tier.pick(180, 1800)), None);
            let rep = c04::run(ctx);
            finish(rep, c04::meta(), ctx.tier, ctx.seed, started)
        }
        "C05" => {
            crate::run::start_watchdog(std::time::Duration::from_secs(ctx.tier.pick(180, 1800)), None);
            let mut rep = c05::run(ctx);
            rep.merge(c05::run_e2e(ctx));
            finish(rep, c05::meta(), ctx.tier, ctx.seed, started)
        }
        "C11" => {
            crate::run::start_watchdog(std::time::Duration::from_secs(ctx.tier.pick(180, 1800)), None);
            let mut rep = c11::run(ctx);
            rep.merge(c11::run_e2e(ctx));
            finish(rep, c11::meta(), ctx.tier, ctx.seed, started)
        }
        "C09" => {
            crate::run::start_watchdog(std::time::Duration::from_secs(ctx.tier.pick(180, 1800)), None);
            let rep = c09::run(ctx);
            finish(rep, c09::meta(), ctx.tier, ctx.seed, started)
        }
        "C14" => {
            crate::run::start_watchdog(std::time::Duration::from_secs(ctx.tier.pick(240, 1800)), None);
            let mut rep = c14::run(ctx);
            rep.merge(c14::run_client_level(ctx));
            finish(rep, c14::meta(), ctx.tier, ctx.seed, started)
        }
        "C12" => {
            crate::run::start_watchdog(std::time::Duration::from_secs(ctx.tier.pick(240, 1800)), None);
            let mut rep = c12::run_pool_level(ctx);
            rep.merge(c13::run_c12_client_level(ctx));
            rep.merge(c13::run_c12_fresh_process(ctx));
            finish(rep, c12::meta(), ctx.tier, ctx.seed, started)
        }
        "C06" => {
            crate::run::start_watchdog(std::time::Duration::from_secs(ctx.tier.pick(240, 1800)), None);
            let mut rep = c06::run(ctx);
            rep.merge(c06::run_e2e(ctx));
            finish(rep, c06::meta(), ctx.tier, ctx.seed, started)
        }
        "C19" => {
            crate::run::start_watchdog(std::time::Duration::from_secs(ctx.tier.pick(240, 1800)), None);
            let mut rep = c19::run_session_level(ctx);
            rep.merge(c19::run_client_level(ctx));
            finish(rep, c19::meta(), ctx.tier, ctx.seed, started)
        }
        "C02" => {
            crate::run::start_watchdog(std::time::Duration::from_secs(ctx.tier.pick(240, 1800)), None);
            let rep = c02::run(ctx);
            finish(rep, c02::meta(), ctx.tier, ctx.seed, started)
        }
        "C20" => {
            crate::run::start_watchdog(std::time::Duration::from_secs(120), Some("C20"));
            let mut rep = c20::run_frame_level(ctx);
            rep.merge(c20::run_loopback(ctx));
            crate::run::case_end();
            if ctx.tier == crate::report::Tier::Thorough && std::env::var("VERIF_SKIP_ASAN").is_err() {
                asan_step(&mut rep, "C20", ctx.seed);
            }
            finish(rep, c20::meta(), ctx.tier, ctx.seed, started)
        }
        "C07" => {
            crate::run::start_watchdog(std::time::Duration::from_secs(ctx.tier.pick(900, 5400)), None);
            let rep = c07::run(ctx);
            finish(rep, c07::meta(), ctx.tier, ctx.seed, started)
        }
        "C10" => {
            crate::run::start_watchdog(std::time::Duration::from_secs(ctx.tier.pick(900, 5400)), None);
            let rep = c10::run(ctx);
            finish(rep, c10::meta(), ctx.tier, ctx.seed, started)
        }
        "C16" => {
            crate::run::start_watchdog(std::time::Duration::from_secs(ctx.tier.pick(900, 5400)), None);
            let rep = c16::run(ctx);
            finish(rep, c16::meta(), ctx.tier, ctx.seed, started)
        }
        "C17" => {
            crate::run::start_watchdog(std::time::Duration::from_secs(ctx.tier.pick(900, 5400)), None);
            let rep = c17::run(ctx);
            finish(rep, c17::meta(), ctx.tier, ctx.seed, started)
        }
        "C18" => {
            crate::run::start_watchdog(std::time::Duration::from_secs(ctx.tier.pick(600, 3600)), None);
            let rep = c18::run(ctx);
            finish(rep, c18::meta(), ctx.tier, ctx.seed, started)
        }
        "C15" => {
            crate::run::start_watchdog(std::time::Duration::from_secs(ctx.tier.pick(900, 5400)), None);
            let rep = c15::run(ctx);
            finish(rep, c15::meta(), ctx.tier, ctx.seed, started)
        }
        "C08" => {
            crate::run::start_watchdog(std::time::Duration::from_secs(ctx.tier.pick(900, 5400)), None);
            let rep = c08::run(ctx);
            finish(rep, c08::meta(), ctx.tier, ctx.seed, started)
        }
        "C13" => {
            crate::run::start_watchdog(std::time::Duration::from_secs(ctx.tier.pick(900, 5400)), None);
            let rep = c13::run(ctx);
            finish(rep, c13::meta(), ctx.tier, ctx.seed, started)
        }
        "C03" => {
            let mut rep = Report::new("C03");
            c03::run(ctx, &mut rep);
            c03::run_in_session(ctx, &mut rep);
            if ctx.tier == crate::report::Tier::Thorough && std::env::var("VERIF_SKIP_MIRI").is_err() {
                miri_step(&mut rep, "c03");
            }
            finish(rep, c03::meta(), ctx.tier, ctx.seed, started)
        }
        _ => {
            eprintln!("no check registered for {prop}");
            2
        }
    }
}

/// Re-run a stored witness (the `case` object of a replay file, or a bare case object).
pub fn replay_file(prop: &str, path: &str) -> i32 {
    let Ok(text) = std::fs::read_to_string(path) else {
        eprintln!("cannot read {path}");
        return 2;
    };
    let Ok(v) = serde_json::from_str::<serde_json::Value>(&text) else {
        eprintln!("{path} is not JSON");
        return 2;
    };
    let case = v.get("case").cloned().unwrap_or(v.clone());
    let reps: usize = std::env::var("VERIF_REPLAY_TIMES").ok().and_then(|s| s.parse().ok()).unwrap_or(1);
    match case.get("kind").and_then(|k| k.as_str()) {
        Some("mux") => {
            let Some(c) = mux::MuxCase::from_json(&case) else {
                eprintln!("bad mux case");
                return 2;
            };
            let mut bad = 0;
            let vary = std::env::var("VERIF_REPLAY_VARY").is_ok();
            let mut c = c;
            for k in 0..reps {
                if vary {
                    c.seed = c.seed.wrapping_add(k as u64 * 7919);
                    c.c2s.seed = c.c2s.seed.wrapping_add(k as u64);
                    c.s2c.seed = c.s2c.seed.wrapping_add(k as u64 * 3);
                }
                let res = mux::run_case(&c);
                for (cause, sym, det) in &res.problems {
                    println!("VIOLATION property={prop} replay={path}");
                    println!("  signature: mux|{cause}|{sym}\n  detail: {det}");
                    bad += 1;
                }
            }
            println!("replayed {reps}x: {bad} problem(s)");
            if bad > 0 { 1 } else { 0 }
        }
        Some("c14") => {
            let Some(c) = c14::HbCase::from_json(&case) else {
                eprintln!("bad c14 case");
                return 2;
            };
            let mut o = c14::run_case(&c);
            c14::judge(&c, &mut o);
            println!("{:?}", o);
            if o.problems.is_empty() { 0 } else { 1 }
        }
        Some("c09") => {
            let Some(fc) = c09::FaultCase::from_json(&case) else {
                eprintln!("bad c09 case");
                return 2;
            };
            let o = c09::run_fault(&fc);
            println!("fired={} waiters={} hits={}", o.fired, o.waiters, o.hits);
            for (sym, det) in &o.problems {
                println!("VIOLATION property={prop} replay={path}\n  symptom: {sym}\n  detail: {det}");
            }
            if o.problems.is_empty() { 0 } else { 1 }
        }
        _ => REPLAY_WHOLE_CHECK,
    }
}

/// returned by `replay_file` when the witness has no single-case replay
const REPLAY_WHOLE_CHECK: i32 = -77;

/// Secondary oracle of the thorough tier: replay the reduced workload under Miri (undefined behaviour
/// in the bytes split/advance/reserve paths the decoder leans on). A Miri error report is a violation;
/// a missing toolchain or a timeout is recorded as a note, never as a verdict.
fn miri_step(rep: &mut Report, what: &str) {
    let harness = crate::report::verif_root().join("harness");
    let class = if what == "c01" { "mux" } else { "codec" };
    let started = Instant::now();
    let out = std::process::Command::new("timeout")
        .arg("2400")
        .args(["cargo", "+nightly", "miri", "run", "--offline", "--bin", "mon", "--", "miri", what])
        .current_dir(&harness)
        .env("MIRIFLAGS", "-Zmiri-disable-isolation")
        .env("CARGO_TARGET_DIR", harness.join("target").join("miri"))
        .env("CARGO_NET_OFFLINE", "true")
        .output();
    match out {
        Err(e) => rep.note(format!("miri step not run: {e}")),
        Ok(o) => {
            let stdout = String::from_utf8_lossy(&o.stdout).to_string();
            let stderr = String::from_utf8_lossy(&o.stderr).to_string();
            let result = stdout.lines().find(|l| l.starts_with("MIRI-RESULT")).map(|l| l.to_string());
            if stderr.contains("Undefined Behavior") || stderr.contains("error: unsupported operation") && result.is_none() && stderr.contains("Undefined") {
                let first = stderr.lines().find(|l| l.contains("Undefined Behavior")).unwrap_or("").to_string();
                rep.violate(class, "miri", "undefined_behaviour", format!("Miri reported: {first}"), serde_json::json!({"kind": "miri", "what": what, "stderr_tail": stderr.lines().rev().take(25).collect::<Vec<_>>()}));
            } else if let Some(r) = result {
                rep.add("miri_runs", 1);
                rep.note(format!("Miri replay ({:.0} s): {r} — no undefined behaviour reported on this reduced workload (not a memory-safety claim)", started.elapsed().as_secs_f64()));
                if stdout.lines().any(|l| l.starts_with("MIRI-VIOLATION")) {
                    for l in stdout.lines().filter(|l| l.starts_with("MIRI-VIOLATION")).take(3) {
                        rep.violate(class, "miri", "oracle_mismatch_under_miri", l.to_string(), serde_json::json!({"kind": "miri", "what": what}));
                    }
                }
            } else {
                rep.note(format!("miri step inconclusive (exit {:?}, {:.0} s): {}", o.status.code(), started.elapsed().as_secs_f64(), stderr.lines().last().unwrap_or("")));
            }
        }
    }
}


/// Secondary oracle of the thorough tier: the same monitor binary built with AddressSanitizer
/// (`-Zsanitizer=address` on the nightly toolchain, own target directory) runs the quick workload of the
/// property. What it adds: heap errors in the unsafe code of the dependencies (bytes, tokio, the TLS stack's
/// Rust side) as driven by this crate under hostile input. An ASan report is a violation; oracle alarms of the
/// slowed-down child are only noted (its real-time parts run ~8x slower); a build problem is a note.
fn asan_step(rep: &mut Report, prop: &str, seed: u64) {
    let root = crate::report::verif_root();
    let harness = root.join("harness");
    let started = Instant::now();
    let build = std::process::Command::new("timeout")
        .arg("1800")
        .args(["cargo", "+nightly", "build", "--profile", "mon", "--offline", "--bin", "mon", "--target", "x86_64-unknown-linux-gnu"])
        .current_dir(&harness)
        .env("RUSTFLAGS", "-Zsanitizer=address -Cforce-frame-pointers=yes")
        .env("CARGO_TARGET_DIR", harness.join("target").join("asan"))
        .env("CARGO_NET_OFFLINE", "true")
        .output();
    let exe = harness.join("target/asan/x86_64-unknown-linux-gnu/mon/mon");
    match build {
        Ok(o) if o.status.success() && exe.exists() => {}
        Ok(o) => {
            rep.note(format!("asan step not run: build failed (exit {:?}): {}", o.status.code(), String::from_utf8_lossy(&o.stderr).lines().rev().find(|l| l.starts_with("error")).unwrap_or("")));
            return;
        }
        Err(e) => {
            rep.note(format!("asan step not run: {e}"));
            return;
        }
    }
    // a root of its own so that the child's evidence and replays do not overwrite this run's
    let scratch = std::env::temp_dir().join(format!("verif-asan-{}-{prop}", std::process::id()));
    let _ = std::fs::remove_dir_all(&scratch);
    let _ = std::fs::create_dir_all(&scratch);
    for f in ["properties.jsonl", "known_findings.json"] {
        let _ = std::fs::copy(root.join(f), scratch.join(f));
    }
    let out = std::process::Command::new("timeout")
        .arg("2400")
        .arg(&exe)
        .args([prop, "quick", "--seed", &seed.to_string()])
        .current_dir(&scratch)
        .env("VERIF_ROOT", &scratch)
        .env("VERIF_SKIP_MIRI", "1")
        .env("VERIF_WATCHDOG_SCALE", "12")
        .env("ASAN_OPTIONS", "detect_leaks=0:halt_on_error=1:abort_on_error=0:symbolize=1")
        .output();
    let _ = std::fs::remove_dir_all(&scratch);
    match out {
        Err(e) => rep.note(format!("asan step not run: {e}")),
        Ok(o) => {
            let stdout = String::from_utf8_lossy(&o.stdout).to_string();
            let stderr = String::from_utf8_lossy(&o.stderr).to_string();
            let summary = stdout.lines().find(|l| l.starts_with(&format!("{prop} quick"))).unwrap_or("").to_string();
            if stderr.contains("ERROR: AddressSanitizer") {
                let first = stderr.lines().find(|l| l.contains("ERROR: AddressSanitizer")).unwrap_or("").to_string();
                let frames: Vec<&str> = stderr.lines().filter(|l| l.trim_start().starts_with('#')).take(12).collect();
                rep.violate("robustness", "asan", "memory_error", format!("AddressSanitizer report while running the quick workload: {first}"), serde_json::json!({"kind": "asan", "property": prop, "frames": frames}));
            } else if !summary.is_empty() {
                rep.add("asan_runs", 1);
                let alarms = stdout.lines().filter(|l| l.starts_with("VIOLATION")).count();
                rep.note(format!("AddressSanitizer replay of the quick workload ({:.0} s incl. build): {summary} — no ASan report{}", started.elapsed().as_secs_f64(), if alarms > 0 { format!("; {alarms} oracle alarm(s) of the slowed-down child were NOT taken over (real-time parts run several times slower under ASan; the uninstrumented run above is the verdict)") } else { String::new() }));
            } else {
                rep.note(format!("asan step inconclusive (exit {:?}, {:.0} s): {}", o.status.code(), started.elapsed().as_secs_f64(), stderr.lines().last().unwrap_or("")));
            }
        }
    }
}

/// Reduced workloads replayed under Miri (`cargo +nightly miri run --bin mon -- miri <what>`): the
/// same oracles, tiny sizes. Prints MIRI-RESULT lines; UB makes Miri itself abort with an error.
pub fn miri_main(what: &str) -> i32 {
    let ctx = Ctx { tier: crate::report::Tier::Quick, seed: 1, shards: 1 };
    match what {
        "c03" => {
            let mut rep = Report::new("C03");
            c03::run_scaled(ctx, &mut rep, true);
            println!("MIRI-RESULT c03 evaluations={} violations={} frames={}", rep.evaluations, rep.violations.len(), rep.get("frames_decoded_in_fragmentation_runs") + rep.get("frames_decoded_from_arbitrary_strings"));
            for v in rep.violations.iter().take(3) {
                println!("MIRI-VIOLATION {} {}", v.signature(), v.detail);
            }
            if rep.violations.is_empty() { 0 } else { 1 }
        }
        "c01" => {
            // a handful of small mux cases incl. a > 64 KiB chunk and an empty chunk
            use crate::mempipe::{Frag, PipeCfg};
            let mut bad = 0;
            let mut bytes = 0u64;
            let mut cases = 0;
            let frag = PipeCfg { capacity: 300, write_frag: Frag::Random(200), read_frag: Frag::Pool(vec![1, 7, 8, 100]), pending_prob: 0.1, seed: 3 };
            for (k, sizes) in [vec![10usize, 0, 300], vec![66000], vec![7, 8, 1]].into_iter().enumerate() {
                for pc in [PipeCfg::plain(), frag.clone()] {
                    if sizes[0] > 60_000 && pc.capacity == 300 {
                        // the interpreter needs minutes for 66 000 bytes in 200-byte writes; the large chunk runs on the plain pipe only
                        continue;
                    }
                    cases += 1;
                    let d = |w: u8, r: u8| mux::DirPlan { chunks: sizes.clone(), write_api: w, read_api: r, read_bufs: vec![50, 4096] };
                    let case = mux::MuxCase { seed: k as u64, streams: vec![(d(0, 0), d(1, 1)), (d(2, 2), d(0, 0))], c2s: pc.clone(), s2c: pc, scheme: None, sched_p: 0.3, inline_first: true, locator: (0, k), concurrent_opens: false, half_close: if k == 0 { vec![1, 0] } else { vec![] }, eager_server: k == 2, stall: None };
                    let res = mux::run_case(&case);
                    bytes += res.bytes_checked;
                    for (c, sym, det) in &res.problems {
                        println!("MIRI-VIOLATION mux|{c}|{sym} {det}");
                        bad += 1;
                    }
                }
            }
            println!("MIRI-RESULT c01 cases={cases} bytes_compared={bytes} violations={bad}");
            if bad == 0 { 0 } else { 1 }
        }
        _ => 2,
    }
}

/// entry point for helper sub-processes (`mon child <what> ...`)
pub fn child_main(args: &[String]) -> i32 {
    match args.first().map(|s| s.as_str()) {
        Some("c19") => c19::child(args.get(1).map(|s| s.as_str()).unwrap_or("")),
        Some("c12-fresh") => c13::child_fresh_burst(args.get(1).and_then(|s| s.parse().ok()).unwrap_or(2)),
        Some("pad-huge") => c04::child_huge(args.get(1).and_then(|s| s.parse().ok()).unwrap_or(1)),
        _ => {
            eprintln!("unknown child command");
            2
        }
    }
}
