//! C16 — the SOCKS5 front-end follows the protocol for every client byte stream.
//! Real start_socks5_server + Client + Server over loopback; a raw client
//! delivers generated greeting/request byte strings in chosen fragmentations;
//! replies, Dial events and target accepts are compared with a small
//! reference model of a SOCKS5 server.

use crate::engine;
use crate::netkit::{self, Target};
use crate::prng::Rng;
use crate::report::{CheckMeta, Report, hash_str, hex};
use crate::run::{self, Ctx};
use anytls_rs::verif::Event;
use serde_json::{Value, json};
use std::net::{IpAddr, Ipv4Addr, SocketAddr};
use std::sync::{Arc, Mutex};
use std::time::Duration;
use tokio::io::{AsyncReadExt, AsyncWriteExt};
use tokio::net::TcpStream;

#[derive(Clone, Debug)]
pub struct Case {
    pub greeting: Vec<u8>,
    pub request: Vec<u8>,
    /// 0 = each part in one write, 1 = everything in one write, 2 = byte at a time, 3 = split at `cut`
    pub frag: u8,
    pub cut: usize,
    pub label: &'static str,
    /// destination the request names when it is well formed (None when the model refuses before that)
    pub dest: Option<SocketAddr>,
    pub dest_accepts: bool,
}

#[derive(Clone, Debug, PartialEq)]
pub enum Model {
    /// refused at the greeting: no `05 00` may be sent
    RefuseGreeting,
    /// negotiation ok (`05 00`), then refused at the request: no tunnel
    RefuseRequest,
    /// tunnel to `dest`: reply 00 iff the target accepts
    Connect,
}

pub fn model(c: &Case) -> Model {
    let g = &c.greeting;
    if g.len() < 2 || g[0] != 5 || g[1] == 0 || g.len() < 2 + g[1] as usize || !g[2..2 + g[1] as usize].contains(&0) {
        return Model::RefuseGreeting;
    }
    let r = &c.request;
    if r.len() < 4 || r[0] != 5 || r[1] != 1 {
        return Model::RefuseRequest;
    }
    match r[3] {
        1 if r.len() >= 10 => Model::Connect,
        4 if r.len() >= 22 => Model::Connect,
        3 if r.len() >= 5 && r[4] > 0 && r.len() >= 7 + r[4] as usize && std::str::from_utf8(&r[5..5 + r[4] as usize]).is_ok() => Model::Connect,
        _ => Model::RefuseRequest,
    }
}

impl Case {
    fn describe(&self) -> Value {
        json!({"kind": "c16", "label": self.label, "greeting_hex": hex(&self.greeting), "request_hex": hex(&self.request[..self.request.len().min(80)]), "request_len": self.request.len(), "frag": self.frag, "cut": self.cut, "dest": self.dest.map(|d| d.to_string()), "dest_accepts": self.dest_accepts})
    }
}

struct World {
    socks: String,
    v6_port: u16,
    target_port: u16,
    refused_port: u16,
    accepts: Arc<Mutex<Vec<(SocketAddr, tokio::time::Instant)>>>,
    _keep: Vec<tokio::task::JoinHandle<()>>,
}

async fn build_world() -> Option<World> {
    let (server_addr, sh) = netkit::start_server(netkit::PASSWORD, engine::default_padding()).await?;
    let client = netkit::make_client(&server_addr, netkit::PASSWORD, engine::default_padding(), netkit::quiet_pool());
    let (socks, h1) = netkit::start_socks5(client.clone()).await?;
    let mut t = Target::bind_v4(0).await?;
    let target_port = t.port;
    let accepts = t.accepts.clone();
    let drain = tokio::spawn(async move {
        while let Some(a) = t.rx.recv().await {
            netkit::spawn_echo(a.stream);
        }
    });
    let mut t6 = Target::bind_v6_loopback(0).await?;
    let v6_port = t6.port;
    let acc6 = accepts.clone();
    let drain6 = tokio::spawn(async move {
        while let Some(a) = t6.rx.recv().await {
            acc6.lock().unwrap().push((a.dialled, a.at));
            netkit::spawn_echo(a.stream);
        }
    });
    Some(World { socks, v6_port, target_port, refused_port: netkit::free_port(), accepts, _keep: vec![sh, h1, drain, drain6] })
}

#[derive(Debug, Clone, Default)]
pub struct Seen {
    pub method_reply: Vec<u8>,
    pub reply: Vec<u8>,
    pub echoed: Option<bool>,
    pub io_note: String,
}

async fn deliver(w: &World, c: &Case) -> Result<Seen, String> {
    let mut s = TcpStream::connect(&w.socks).await.map_err(|e| e.to_string())?;
    let _ = s.set_nodelay(true);
    let mut seen = Seen::default();
    let all: Vec<u8> = c.greeting.iter().chain(c.request.iter()).copied().collect();
    async fn send(s: &mut TcpStream, b: Vec<u8>) {
        let _ = s.write_all(&b).await;
        let _ = s.flush().await;
    }
    match c.frag {
        0 => {
            send(&mut s, c.greeting.clone()).await;
        }
        1 => send(&mut s, all.clone()).await,
        2 => {
            for b in &all {
                send(&mut s, vec![*b]).await;
                tokio::task::yield_now().await;
            }
        }
        _ => {
            let cut = c.cut.min(all.len());
            send(&mut s, all[..cut].to_vec()).await;
            tokio::time::sleep(Duration::from_millis(3)).await;
            send(&mut s, all[cut..].to_vec()).await;
        }
    }
    // input that the model refuses may be incomplete: end it, so that the front-end is not left waiting for more
    if model(c) != Model::Connect && c.frag != 0 {
        let _ = s.shutdown().await;
    }
    // method reply (or close)
    let mut m = [0u8; 2];
    match tokio::time::timeout(Duration::from_secs(15), s.read_exact(&mut m)).await {
        Ok(Ok(_)) => seen.method_reply = m.to_vec(),
        Ok(Err(_)) => {
            seen.io_note = "closed before a method reply".into();
            return Ok(seen);
        }
        Err(_) => {
            seen.io_note = "no method reply within 15 s (waiting for more input)".into();
            return Ok(seen);
        }
    }
    if c.frag == 0 {
        send(&mut s, c.request.clone()).await;
        if model(c) != Model::Connect {
            let _ = s.shutdown().await;
        }
    }
    let mut rep = [0u8; 10];
    match tokio::time::timeout(Duration::from_secs(20), s.read_exact(&mut rep)).await {
        Ok(Ok(_)) => seen.reply = rep.to_vec(),
        Ok(Err(_)) => {
            seen.io_note = "closed without a connect reply".into();
            return Ok(seen);
        }
        Err(_) => {
            seen.io_note = "no connect reply within 20 s".into();
            return Ok(seen);
        }
    }
    if rep[1] == 0 {
        let probe = b"probe-through-tunnel";
        let _ = s.write_all(probe).await;
        let mut back = [0u8; 20];
        seen.echoed = Some(tokio::time::timeout(Duration::from_secs(5), s.read_exact(&mut back)).await.ok().and_then(|r| r.ok()).is_some() && &back == probe);
    }
    Ok(seen)
}

fn dest_bytes(ip: Ipv4Addr, port: u16) -> Vec<u8> {
    let mut v = vec![1u8];
    v.extend_from_slice(&ip.octets());
    v.extend_from_slice(&port.to_be_bytes());
    v
}

pub fn gen_cases(rng: &mut Rng, w_target: u16, w_refused: u16, w_v6: u16, quick: bool) -> Vec<Case> {
    let mut v: Vec<Case> = Vec::new();
    let mut uniq = 0u32;
    let mut next_ip = |accept: bool| {
        uniq += 1;
        (netkit::uniq_ip(88, uniq), if accept { w_target } else { w_refused })
    };
    let ok_greeting = vec![5u8, 1, 0];
    let mk_req = |cmd: u8, ver: u8, rsv: u8, dest: Vec<u8>| {
        let mut r = vec![ver, cmd, rsv];
        r.extend_from_slice(&dest);
        r
    };
    // every version byte in the greeting
    for ver in 0..=255u8 {
        if quick && ver % 4 != 1 && ver != 4 && ver != 6 && ver != 0 && ver != 255 {
            continue;
        }
        let (ip, p) = next_ip(true);
        v.push(Case { greeting: vec![ver, 1, 0], request: mk_req(1, 5, 0, dest_bytes(ip, p)), frag: (ver % 3), cut: 0, label: "greeting_version", dest: Some(SocketAddr::new(ip.into(), p)), dest_accepts: true });
    }
    // method lists of every length, with / without no-auth
    for n in 0..=255usize {
        if quick && n > 6 && n % 16 != 15 {
            continue;
        }
        for with in [true, false] {
            let (ip, p) = next_ip(true);
            let mut methods: Vec<u8> = (0..n).map(|_| rng.range(1, 254) as u8).collect();
            if with && n > 0 {
                let i = rng.usize(0, n - 1);
                methods[i] = 0;
            }
            let mut g = vec![5u8, n as u8];
            g.extend_from_slice(&methods);
            v.push(Case { greeting: g, request: mk_req(1, 5, 0, dest_bytes(ip, p)), frag: (n % 3) as u8, cut: 0, label: "method_list", dest: Some(SocketAddr::new(ip.into(), p)), dest_accepts: true });
        }
    }
    // every command code
    for cmd in 0..=255u8 {
        if quick && cmd > 8 && cmd % 16 != 3 {
            continue;
        }
        let (ip, p) = next_ip(true);
        v.push(Case { greeting: ok_greeting.clone(), request: mk_req(cmd, 5, 0, dest_bytes(ip, p)), frag: cmd % 3, cut: 0, label: "command_code", dest: Some(SocketAddr::new(ip.into(), p)), dest_accepts: true });
    }
    // request version byte, reserved byte
    for ver in [0u8, 1, 4, 6, 255] {
        let (ip, p) = next_ip(true);
        v.push(Case { greeting: ok_greeting.clone(), request: mk_req(1, ver, 0, dest_bytes(ip, p)), frag: 0, cut: 0, label: "request_version", dest: Some(SocketAddr::new(ip.into(), p)), dest_accepts: true });
    }
    // every address type byte
    for atyp in 0..=255u8 {
        if quick && atyp > 6 && atyp % 32 != 7 {
            continue;
        }
        let (ip, p) = next_ip(true);
        let mut d = dest_bytes(ip, p);
        d[0] = atyp;
        // pad so that fixed-size parsers have enough bytes (not for IPv4: trailing bytes would be tunnel data)
        if atyp != 1 {
            d.extend_from_slice(&[0u8; 16]);
        }
        let dest = if atyp == 1 { Some(SocketAddr::new(ip.into(), p)) } else { None };
        v.push(Case { greeting: ok_greeting.clone(), request: mk_req(1, 5, 0, d), frag: 1, cut: 0, label: "address_type", dest, dest_accepts: true });
    }
    // domain lengths 0..255 (valid names resolve through the fake DNS), invalid UTF-8
    for len in 0..=255usize {
        if quick && len > 4 && len % 17 != 3 && len < 250 {
            continue;
        }
        let name: String = if len == 0 { String::new() } else { format!("d{len}x{}", "a".repeat(len)).chars().take(len).collect() };
        // keep labels <= 63
        let name: String = name.as_bytes().chunks(60).map(|c| String::from_utf8_lossy(c).to_string()).collect::<Vec<_>>().join(".").chars().take(len).collect();
        let name = if name.ends_with('.') { format!("{}z", &name[..name.len() - 1]) } else { name };
        let mut d = vec![3u8, len as u8];
        d.extend_from_slice(name.as_bytes());
        d.extend_from_slice(&w_target.to_be_bytes());
        let dest = if len > 0 && len <= 253 { Some(SocketAddr::new(IpAddr::V4(netkit::name_to_v4(&name)), w_target)) } else { None };
        v.push(Case { greeting: ok_greeting.clone(), request: mk_req(1, 5, 0, d), frag: (len % 3) as u8, cut: 0, label: "domain_length", dest, dest_accepts: true });
    }
    for k in 0..4 {
        let mut d = vec![3u8, 6, b'a', 0xFF, 0xFE, b'b', 0xC0, b'c'];
        d[3] = 0xF0 + k;
        d.extend_from_slice(&w_target.to_be_bytes());
        v.push(Case { greeting: ok_greeting.clone(), request: mk_req(1, 5, 0, d), frag: 0, cut: 0, label: "domain_invalid_utf8", dest: None, dest_accepts: true });
    }
    // IPv6 requests: ::1 (accepting on its own port), a global address (unreachable), IPv4-mapped loopback
    // addresses (the request names an IPv6 address: that address, in that family, is what must be dialled)
    for k in 0..if quick { 6 } else { 1200 } {
        let (ip4, p) = next_ip(true);
        let addrs: Vec<(std::net::Ipv6Addr, u16, bool)> = vec![
            (std::net::Ipv6Addr::LOCALHOST, w_v6, true),
            (ip4.to_ipv6_mapped(), p, true),
            (std::net::Ipv6Addr::new(0x2001, 0xdb8, k as u16, 1, 2, 3, 4, 5), 443, false),
        ];
        let (ip6, port, acc) = addrs[k % 3];
        let mut d = vec![4u8];
        d.extend_from_slice(&ip6.octets());
        d.extend_from_slice(&port.to_be_bytes());
        v.push(Case { greeting: ok_greeting.clone(), request: mk_req(1, 5, 0, d), frag: (k % 3) as u8, cut: 0, label: "ipv6_request", dest: Some(SocketAddr::new(ip6.into(), port)), dest_accepts: acc });
    }
    // ports and refusing targets
    for port in [0u16, 1, 255, 256, 32767, 32768, 65535] {
        let (ip, _) = next_ip(false);
        v.push(Case { greeting: ok_greeting.clone(), request: mk_req(1, 5, 0, dest_bytes(ip, port)), frag: 0, cut: 0, label: "port_boundary", dest: Some(SocketAddr::new(ip.into(), port)), dest_accepts: false });
    }
    for _ in 0..if quick { 80 } else { 30000 } {
        let acc = rng.chance(0.5);
        let (ip, p) = next_ip(acc);
        v.push(Case { greeting: ok_greeting.clone(), request: mk_req(1, 5, rng.below(256) as u8, dest_bytes(ip, p)), frag: rng.below(3) as u8, cut: 0, label: "well_formed", dest: Some(SocketAddr::new(ip.into(), p)), dest_accepts: acc });
    }
    // a well-formed stream split at every position
    {
        let total = 3 + 10;
        for cut in 1..total {
            for acc in [true, false] {
                let (ip, p) = next_ip(acc);
                v.push(Case { greeting: ok_greeting.clone(), request: mk_req(1, 5, 0, dest_bytes(ip, p)), frag: 3, cut, label: "split_at_every_position", dest: Some(SocketAddr::new(ip.into(), p)), dest_accepts: acc });
            }
        }
        // a BIND request split at every position
        for cut in 1..total {
            let (ip, p) = next_ip(true);
            v.push(Case { greeting: ok_greeting.clone(), request: mk_req(2, 5, 0, dest_bytes(ip, p)), frag: 3, cut, label: "bind_split_at_every_position", dest: Some(SocketAddr::new(ip.into(), p)), dest_accepts: true });
        }
    }
    v
}

fn judge(rep: &mut Report, c: &Case, seen: &Seen, events: &[Event], accepts: &[(SocketAddr, tokio::time::Instant)]) {
    let m = model(c);
    rep.add(&format!("model_{:?}", m).to_lowercase(), 1);
    let case = c.describe();
    let dialled = c.dest.is_some_and(|d| events.iter().any(|e| matches!(e, Event::Dial { addr, .. } if *addr == d)));
    let canon = |a: &SocketAddr| SocketAddr::new(a.ip().to_canonical(), a.port());
    let accepted = c.dest.is_some_and(|d| accepts.iter().any(|(a, _)| canon(a) == canon(&d)));
    let said_noauth = seen.method_reply == [5, 0];
    let said_success = seen.reply.len() == 10 && seen.reply[1] == 0;
    let cause = c.label;
    match m {
        Model::RefuseGreeting => {
            if said_noauth {
                rep.violate("socks5", cause, "no_auth_selected_although_not_offered", format!("greeting {} got the method reply 05 00", hex(&c.greeting)), case.clone());
            }
            if dialled || accepted || said_success {
                rep.violate("socks5", cause, "tunnel_after_refused_negotiation", format!("greeting {}: dialled={dialled} accepted={accepted} success_reply={said_success}", hex(&c.greeting)), case);
            }
        }
        Model::RefuseRequest => {
            if !said_noauth {
                rep.violate("socks5", cause, "no_auth_not_selected_although_offered", format!("greeting {} got method reply {:?} ({})", hex(&c.greeting), seen.method_reply, seen.io_note), case.clone());
            }
            if dialled || accepted {
                rep.violate("socks5", cause, "tunnel_for_request_that_must_be_refused", format!("request {} (command {}, address type {}) must not open a tunnel, but the server dialled={dialled} and the target accepted={accepted}; reply {:?}", hex(&c.request[..c.request.len().min(12)]), c.request.get(1).copied().unwrap_or(0), c.request.get(3).copied().unwrap_or(0), seen.reply), case.clone());
            }
            if said_success {
                rep.violate("socks5", cause, "success_reply_for_request_that_must_be_refused", format!("request {} got reply 00", hex(&c.request[..c.request.len().min(12)])), case);
            }
        }
        Model::Connect => {
            if !said_noauth {
                rep.violate("socks5", cause, "no_auth_not_selected_although_offered", format!("greeting {} got method reply {:?} ({})", hex(&c.greeting), seen.method_reply, seen.io_note), case.clone());
                return;
            }
            let Some(d) = c.dest else { return };
            if !dialled {
                let others: Vec<String> = events.iter().filter_map(|e| if let Event::Dial { addr, .. } = e { if addr.ip() == d.ip() { Some(addr.to_string()) } else { None } } else { None }).collect();
                rep.violate("socks5", cause, "requested_destination_not_dialled", format!("CONNECT to {d}: no dial to that address was observed (reply {:?}, {}; dials to the same host: {:?})", seen.reply, seen.io_note, others), case.clone());
                return;
            }
            rep.add("connects_dialled_as_requested", 1);
            if c.dest_accepts {
                if !said_success {
                    rep.violate("socks5", cause, "failure_reply_although_tunnel_established", format!("target {d} accepted={accepted} but the reply was {:?} ({})", seen.reply, seen.io_note), case.clone());
                } else if !accepted {
                    rep.violate("socks5", cause, "success_reply_without_target_connection", format!("reply 00 for {d} but the target saw no connection"), case.clone());
                } else if seen.echoed == Some(false) {
                    rep.violate("socks5", cause, "tunnel_does_not_carry_data", format!("reply 00 for {d} but bytes did not echo"), case.clone());
                } else {
                    rep.add("success_replies_confirmed_by_accept_and_echo", 1);
                }
            } else if said_success {
                rep.violate("socks5", cause, "success_reply_although_target_refused", format!("{d} refuses connections, reply was 00"), case.clone());
            } else {
                rep.add("failure_replies_for_refusing_targets", 1);
            }
        }
    }
}

pub fn run(ctx: Ctx) -> Report {
    let quick = ctx.tier == crate::report::Tier::Quick;
    let mut rep = Report::new("C16");
    let seed = ctx.seed;
    run::case_begin("C16 e2e");
    let out = run::rt_block_on(8, async move {
        let mut rep = Report::new("C16");
        let Some(dns) = netkit::start_fake_dns().await else {
            rep.inconclusive("cannot start fake DNS");
            return rep;
        };
        if !netkit::use_fake_dns(&dns).await {
            rep.inconclusive("cannot install fake DNS");
            return rep;
        }
        let Some(w) = build_world().await else {
            rep.inconclusive("cannot build world");
            return rep;
        };
        let w = Arc::new(w);
        let mut rng = Rng::new(seed ^ 0xC16);
        let mut cases = gen_cases(&mut rng, w.target_port, w.refused_port, w.v6_port, quick);
        rng.shuffle(&mut cases);
        let results = Arc::new(Mutex::new(Vec::new()));
        {
            let w = w.clone();
            let results = results.clone();
            netkit::for_each_limited(cases, 32, move |c| {
                let w = w.clone();
                let results = results.clone();
                async move {
                    let r = deliver(&w, &c).await;
                    results.lock().unwrap().push((c, r));
                }
            })
            .await;
        }
        tokio::time::sleep(Duration::from_millis(400)).await;
        let events = anytls_rs::verif::events();
        let accepts = w.accepts.lock().unwrap().clone();
        rep.add("hook_events_seen", events.len() as u64);
        rep.add("target_accepts_seen", accepts.len() as u64);
        let results = results.lock().unwrap().clone();
        for (i, (c, r)) in results.iter().enumerate() {
            rep.case(Some(hash_str(&c.describe().to_string())));
            rep.add("connections", 1);
            rep.seen("input_classes", c.label);
            match r {
                Err(e) => rep.inconclusive(format!("{}: {e}", c.label)),
                Ok(seen) => {
                    judge(&mut rep, c, seen, &events, &accepts);
                    if i < 4 {
                        rep.sample(json!({"case": c.describe(), "model": format!("{:?}", model(c)), "method_reply": hex(&seen.method_reply), "reply": hex(&seen.reply), "note": seen.io_note}));
                    }
                }
            }
        }
        // stalled neighbours: local clients that have connected and sent nothing, or only a part of their greeting or
        // request, and stay that way ("ends that connection only"): everybody else is served as usual meanwhile
        {
            let mut held = Vec::new();
            let prefixes: Vec<Vec<u8>> = vec![vec![], vec![5], vec![5, 2, 0], vec![5, 1, 0, 5], vec![5, 1, 0, 5, 1, 0, 3, 200, b'a']];
            for round in 0..if quick { 2 } else { 10 } {
                for pre in &prefixes {
                    if let Ok(mut s) = TcpStream::connect(&w.socks).await {
                        let _ = s.set_nodelay(true);
                        let _ = s.write_all(pre).await;
                        held.push(s);
                    }
                }
                tokio::time::sleep(Duration::from_millis(60)).await;
                for k in 0..4u32 {
                    let ip = netkit::uniq_ip(96, round * 10 + k + 1);
                    let t0 = tokio::time::Instant::now();
                    let r = netkit::socks5_connect(&w.socks, &netkit::SocksDest::V4(ip, w.target_port), Duration::from_secs(6)).await;
                    let case = json!({"kind": "c16-stalled-neighbours", "held_connections": held.len(), "round": round});
                    rep.case(Some(hash_str(&format!("{case}{k}"))));
                    rep.add("requests_served_next_to_stalled_connections", 1);
                    match r {
                        Ok((_, 0)) => {}
                        Ok((_, code)) => rep.violate("socks5", "stalled_neighbours", "well_formed_request_refused", format!("with {} other local connections open that have sent nothing or only part of their greeting/request, a well-formed CONNECT to an accepting target got reply {code:#04x}", held.len()), case),
                        Err(e) => rep.violate("socks5", "stalled_neighbours", "well_formed_request_not_served", format!("with {} other local connections open that have sent nothing or only part of their greeting/request, a well-formed CONNECT got no answer within 6 s ({e}; waited {} ms)", held.len(), t0.elapsed().as_millis()), case),
                    }
                }
            }
            drop(held);
        }
        rep
    });
    rep.merge(out);
    for p in run::panic_log() {
        if !run::is_harness_panic(&p) {
            rep.violate("socks5", "any", "panic", p, json!({}));
        }
    }
    run::case_end();
    rep
}

pub fn meta() -> CheckMeta {
    CheckMeta {
        level: "exploration",
        rule: "raw loopback connections to the real start_socks5_server (real Client + Server + echo targets on unique 127.88.a.b addresses, fake DNS): all greeting version bytes, method lists of length 0..255 with/without 0x00, all 256 command codes, request version bytes, all 256 address-type bytes, domain lengths 0..255 and invalid UTF-8 names, IPv6 requests (::1, global, IPv4-mapped loopback: the Dial event must carry exactly that IPv6 address), port boundaries, accepting and refusing targets; delivered part by part, in one segment, byte at a time, and (for a CONNECT and a BIND request) split at every position (quick: a stratified subset of the byte ranges). Oracle = 30-line reference model: `05 00` exactly when no-auth was offered; no Dial event / target accept / success reply for refused negotiations, non-CONNECT commands, bad versions, bad address types, empty or non-UTF-8 names; for CONNECT a Dial to exactly the requested address, reply 00 iff the target accepted (confirmed by accept log and an echo through the tunnel), a failure code for refusing targets. Closing without a reply counts as refusing. distinct_nontrivial = distinct (byte strings, fragmentation). Stalled neighbours: while 5-50 other local connections sit there having sent nothing, one byte, part of the method list or part of the request, well-formed CONNECTs must be answered within 6 s as usual.".into(),
        assumptions: vec!["all cases share one Client/Server pair and run 32 at a time, so every malformed connection has well-formed neighbours whose verdicts would show collateral damage".into()],
        floors: vec![("connections", 250), ("model_refusegreeting", 40), ("model_refuserequest", 40), ("connects_dialled_as_requested", 80), ("success_replies_confirmed_by_accept_and_echo", 40), ("failure_replies_for_refusing_targets", 10), ("requests_served_next_to_stalled_connections", 8)],
        exhaustive: false,
    }
}
