//! C11 — concurrent writers cannot scramble the wire.
//! Tagged frames from several tasks on one fresh session; the recorded
//! client->server wire must be a merge of the per-task submission logs with
//! Settings first and SYN(id) before PSH(id). Pre-emptions at the named
//! scheduling points are enumerated systematically.

use crate::engine::{self, PairCfg};
use crate::mempipe::{Frag, PipeCfg};
use crate::prng::Rng;
use crate::refcodec::{self, RFrame};
use crate::report::{CheckMeta, Report, Tier, hash_str};
use crate::run::{self, Ctx};
use crate::sched::{self, SchedMode};
use anytls_rs::protocol::{Command, Frame};
use bytes::Bytes;
use serde_json::{Value, json};
use std::collections::{BTreeMap, HashMap};
use std::sync::{Arc, Mutex};
use std::time::Duration;

#[derive(Clone, Debug)]
pub struct Scenario {
    pub requests: usize,
    /// data frames per request after the destination frame
    pub data_frames: usize,
    /// 0 = write_data_frame, 1 = send_data (forwarding task), 2 = odd tasks use send_data, even ones write_data_frame
    pub api: u8,
    /// task j yields this many times before it starts (staggering)
    pub start_yields: Vec<u32>,
    pub heartbeats: usize,
    pub padded: bool,
    pub pipe: u8,
    pub payload: usize,
    /// the first data chunk of every request is larger than one frame
    pub big: bool,
    /// the session runs its own keep-alive task (as every session made by `Client` does); its first request
    /// goes out when the task starts, i.e. it races with the session start and the first requests
    pub keepalive: bool,
}

impl Scenario {
    fn describe(&self) -> Value {
        json!({"requests": self.requests, "data_frames": self.data_frames, "api": self.api, "start_yields": self.start_yields, "heartbeats": self.heartbeats, "padded": self.padded, "pipe": self.pipe, "payload": self.payload, "big": self.big, "keepalive": self.keepalive})
    }
    fn key(&self) -> String {
        format!("{:?}", self)
    }
}

#[derive(Clone, Debug)]
struct Sub {
    cmd: u8,
    sid: u32,
    data: Vec<u8>,
}

fn tagged(task: u8, seq: u32, len: usize) -> Vec<u8> {
    let mut v = vec![task, (seq >> 8) as u8, seq as u8];
    let mut x = (task as u32) * 131 + seq * 31 + 7;
    while v.len() < len.max(3) {
        x = x.wrapping_mul(1664525).wrapping_add(1013904223);
        v.push((x >> 16) as u8);
    }
    v
}

pub struct Outcome {
    pub problems: Vec<(String, String)>, // (symptom, detail)
    pub hits: Vec<&'static str>,
    pub yields: Vec<(usize, &'static str, u32)>,
    pub interleaving: u64,
    pub frames: usize,
    pub wire_order: String,
}

fn pipe_cfg(kind: u8, seed: u64) -> PipeCfg {
    match kind {
        0 => PipeCfg::plain(),
        1 => PipeCfg { capacity: 64, write_frag: Frag::Random(40), read_frag: Frag::All, pending_prob: 0.0, seed },
        _ => PipeCfg { capacity: usize::MAX, write_frag: Frag::Random(9), read_frag: Frag::Random(50), pending_prob: 0.2, seed },
    }
}

async fn run_async(sc: Scenario, seed: u64, quiesce: Duration) -> (Vec<(String, String)>, usize, String) {
    let mut problems = Vec::new();
    let padding = if sc.padded { engine::default_padding() } else { engine::no_padding() };
    let mut pair = engine::make_pair(PairCfg { c2s: pipe_cfg(sc.pipe, seed), s2c: PipeCfg::plain(), client_padding: padding.clone(), server_padding: padding, heartbeat: if sc.keepalive { Some(anytls_rs::session::SessionHeartbeatConfig { interval: Duration::from_secs(30), timeout: Duration::from_secs(60) }) } else { None } }).await;
    let logs: Arc<Mutex<BTreeMap<u8, Vec<Sub>>>> = Arc::new(Mutex::new(BTreeMap::new()));
    let mut handles = Vec::new();
    for j in 0..sc.requests {
        let client = pair.client.clone();
        let logs = logs.clone();
        let sc2 = sc.clone();
        handles.push(tokio::spawn(async move {
            for _ in 0..sc2.start_yields.get(j).copied().unwrap_or(0) {
                tokio::task::yield_now().await;
            }
            let task = j as u8 + 1;
            // what Client::create_proxy_stream does: open, disable buffering, write the destination
            let (st, _rx) = client.open_stream().await.map_err(|e| format!("task {task}: open_stream: {e}"))?;
            let sid = st.id();
            logs.lock().unwrap().entry(task).or_default().push(Sub { cmd: refcodec::SYN, sid, data: vec![] });
            client.disable_buffering();
            let dest = tagged(task, 0, sc2.payload);
            logs.lock().unwrap().entry(task).or_default().push(Sub { cmd: refcodec::PSH, sid, data: dest.clone() });
            client.write_data_frame(sid, Bytes::from(dest)).await.map_err(|e| format!("task {task}: destination write: {e}"))?;
            for k in 0..sc2.data_frames {
                // scenarios with `big` put one chunk above the frame limit first, followed at once by small ones
                let d = tagged(task, k as u32 + 1, if sc2.big && k == 0 { 70_000 + j } else { sc2.payload + k });
                logs.lock().unwrap().entry(task).or_default().push(Sub { cmd: refcodec::PSH, sid, data: d.clone() });
                // one task never mixes the two submission paths for data (the queue of the forwarding
                // task completes asynchronously, so mixing them promises no order); api 2 mixes across tasks
                let via_stream = sc2.api == 1 || (sc2.api == 2 && j % 2 == 1);
                if via_stream {
                    st.send_data(Bytes::from(d)).map_err(|e| format!("task {task}: send_data: {e}"))?;
                } else {
                    client.write_data_frame(sid, Bytes::from(d)).await.map_err(|e| format!("task {task}: write_data_frame: {e}"))?;
                }
            }
            Ok::<u32, String>(sid)
        }));
    }
    if sc.heartbeats > 0 {
        let client = pair.client.clone();
        let n = sc.heartbeats;
        handles.push(tokio::spawn(async move {
            for _ in 0..n {
                client.write_control_frame(Frame::control(Command::HeartRequest, 0)).await.map_err(|e| format!("heartbeat write: {e}"))?;
                tokio::task::yield_now().await;
            }
            Ok(0)
        }));
    }
    // server side: drain streams so that nothing back-pressures
    let received: Arc<Mutex<HashMap<u32, Vec<u8>>>> = Arc::new(Mutex::new(HashMap::new()));
    {
        let received = received.clone();
        let mut ns = std::mem::replace(&mut pair.new_streams, tokio::sync::mpsc::unbounded_channel().1);
        tokio::spawn(async move {
            while let Some(st) = ns.recv().await {
                let received = received.clone();
                tokio::spawn(async move {
                    let mut buf = vec![0u8; 4096];
                    loop {
                        let n = {
                            let mut g = st.reader().lock().await;
                            match g.read(&mut buf).await {
                                Ok(0) | Err(_) => break,
                                Ok(n) => n,
                            }
                        };
                        received.lock().unwrap().entry(st.id()).or_default().extend_from_slice(&buf[..n]);
                    }
                });
            }
        });
    }
    for h in handles {
        let ab = h.abort_handle();
        match tokio::time::timeout(Duration::from_secs(300), h).await {
            Ok(Ok(Ok(_))) => {}
            Ok(Ok(Err(e))) => problems.push(("writer_error".to_string(), e)),
            Ok(Err(e)) => problems.push(("writer_task_died".to_string(), e.to_string())),
            Err(_) => {
                ab.abort();
                problems.push(("writer_blocked".to_string(), "a writing task did not finish within 300 virtual seconds on a healthy transport".to_string()));
            }
        }
    }
    tokio::time::sleep(quiesce).await; // quiescence
    if quiesce < Duration::from_secs(1) {
        // real-time (multi-worker) runs have no quiescence to wait for: poll until the peer has received everything that
        // was submitted, or 5 s have passed (the wall clock only bounds the wait; the verdict is on bytes)
        let want_total: usize = logs.lock().unwrap().values().flat_map(|v| v.iter()).filter(|s| s.cmd == refcodec::PSH).map(|s| s.data.len()).sum();
        let t0 = std::time::Instant::now();
        while t0.elapsed() < Duration::from_secs(5) {
            let have_total: usize = received.lock().unwrap().values().map(|v| v.len()).sum();
            if have_total >= want_total {
                break;
            }
            tokio::time::sleep(Duration::from_millis(5)).await;
        }
    }
    let wire = pair.c2s.log().bytes;
    let (frames, consumed) = refcodec::parse_all(&wire);
    let order: String = frames.iter().filter(|f| !f.is_padding()).map(|f| format!("{}{}", refcodec::cmd_name(f.cmd), f.sid)).collect::<Vec<_>>().join(",");
    if consumed != wire.len() {
        problems.push(("frame_not_contiguous".into(), format!("the wire stops parsing as frames at offset {consumed} of {}", wire.len())));
        return (problems, frames.len(), order);
    }
    let got: Vec<&RFrame> = frames.iter().filter(|f| !f.is_padding()).collect();
    // rule: Settings first
    match got.first() {
        Some(f) if f.cmd == refcodec::SETTINGS => {}
        Some(f) => problems.push(("settings_not_first".into(), format!("first frame of the session on the wire is {} — wire order: {}", f.brief(), order))),
        None => problems.push(("nothing_on_wire".into(), "no frame reached the transport".into())),
    }
    if got.iter().filter(|f| f.cmd == refcodec::SETTINGS).count() > 1 {
        problems.push(("settings_duplicated".into(), order.clone()));
    }
    // rule: per task, wire order == submission order, each exactly once
    let logs = logs.lock().unwrap().clone();
    let mut syn_seen: HashMap<u32, usize> = HashMap::new();
    for (i, f) in got.iter().enumerate() {
        if f.cmd == refcodec::SYN {
            syn_seen.entry(f.sid).or_insert(i);
        }
        if f.cmd == refcodec::PSH && !syn_seen.contains_key(&f.sid) {
            problems.push(("data_before_open".into(), format!("PSH for stream {} is on the wire before its SYN — wire order: {}", f.sid, order)));
            break;
        }
    }
    for (task, subs) in &logs {
        let sid = subs[0].sid;
        let on_wire: Vec<&&RFrame> = got.iter().filter(|f| f.sid == sid && (f.cmd == refcodec::SYN || f.cmd == refcodec::PSH)).collect();
        if subs.iter().any(|x| x.data.len() > 65535) {
            // a chunk above one frame is legitimately split: judge the byte stream of the task in wire order
            let want: Vec<u8> = subs.iter().filter(|s| s.cmd == refcodec::PSH).flat_map(|s| s.data.clone()).collect();
            let have: Vec<u8> = on_wire.iter().filter(|f| f.cmd == refcodec::PSH).flat_map(|f| f.data.clone()).collect();
            if on_wire.first().map(|f| f.cmd) != Some(refcodec::SYN) {
                problems.push(("data_before_open".into(), format!("task {task} (stream {sid}): first frame on the wire is not its SYN — wire order: {}", order)));
            } else if have != want {
                let at = have.iter().zip(want.iter()).position(|(a, b)| a != b).unwrap_or(have.len().min(want.len()));
                problems.push((if have.len() == want.len() { "frames_of_one_task_reordered" } else if have.len() < want.len() { "frame_missing" } else { "frame_duplicated" }.into(), format!("task {task} (stream {sid}) submitted {} payload bytes in chunks {:?}; the wire carries {} bytes for it and differs from the submission order at byte {at} (frame sizes on the wire: {:?})", want.len(), subs.iter().filter(|s| s.cmd == refcodec::PSH).map(|s| s.data.len()).collect::<Vec<_>>(), have.len(), on_wire.iter().filter(|f| f.cmd == refcodec::PSH).map(|f| f.data.len()).collect::<Vec<_>>())));
            }
        } else if on_wire.len() != subs.len() {
            problems.push((if on_wire.len() < subs.len() { "frame_missing" } else { "frame_duplicated" }.into(), format!("task {task} (stream {sid}) submitted {} frames, {} are on the wire — wire order: {}", subs.len(), on_wire.len(), order)));
            continue;
        }
        for (k, (s, w)) in subs.iter().zip(on_wire.iter()).enumerate() {
            if subs.iter().any(|x| x.data.len() > 65535) {
                break;
            }
            if s.cmd != w.cmd || s.data != w.data {
                let sym = if subs.iter().any(|x| x.cmd == w.cmd && x.data == w.data) { "frames_of_one_task_reordered" } else { "frame_payload_spliced" };
                problems.push((sym.into(), format!("task {task} (stream {sid}): frame #{k} on the wire is {} but {}:{} was submitted at that position — wire order: {}", w.brief(), refcodec::cmd_name(s.cmd), s.data.len(), order)));
                break;
            }
        }
        // end-to-end: the server-side stream received exactly the concatenated payloads
        let want: Vec<u8> = subs.iter().filter(|s| s.cmd == refcodec::PSH).flat_map(|s| s.data.clone()).collect();
        let have = received.lock().unwrap().get(&sid).cloned().unwrap_or_default();
        if have != want && problems.is_empty() {
            problems.push(("stream_data_lost_at_peer".into(), format!("task {task} (stream {sid}): peer stream received {} bytes, {} were submitted — wire order: {}", have.len(), want.len(), order)));
        }
    }
    (problems, frames.len(), order)
}

pub fn run_one(sc: &Scenario, mode: SchedMode, seed: u64) -> Outcome {
    let guard = sched::install(mode, seed);
    let sc2 = sc.clone();
    let r = run::vt_block_on_deadline(Duration::from_secs(50_000), async move { run_async(sc2, seed, Duration::from_secs(1)).await });
    let st = guard.state.borrow();
    let (problems, frames, order) = r.unwrap_or_else(|| (vec![("case_stuck".into(), "case still pending after 50000 virtual seconds".into())], 0, String::new()));
    Outcome { problems, hits: st.hits.clone(), yields: st.yields.clone(), interleaving: st.interleaving_id(), frames, wire_order: order }
}

fn record(rep: &mut Report, sc: &Scenario, out: &Outcome, seed: u64) {
    rep.add("schedules_run", 1);
    rep.add("frames_parsed", out.frames as u64);
    rep.add("sched_point_hits", out.hits.len() as u64);
    rep.seen("interleavings", format!("{:016x}", out.interleaving ^ hash_str(&sc.key())));
    rep.seen("wire_orders", out.wire_order.chars().take(120).collect::<String>());
    for (_, name, _) in &out.yields {
        rep.seen("windows_preempted", *name);
    }
    for (sym, det) in &out.problems {
        let window = out.yields.first().map(|y| y.1).unwrap_or("no_forced_yield");
        rep.violate("wire_order", window, sym, format!("{det}; forced yields: {:?}", out.yields), json!({"kind": "c11", "scenario": sc.describe(), "yields": out.yields.iter().map(|(i, n, y)| json!([i, n, y])).collect::<Vec<_>>(), "seed": seed.to_string()}));
    }
    for p in run::take_thread_panics() {
        if run::is_harness_panic(&p) {
            rep.inconclusive(format!("harness panic: {p}"));
        } else {
            rep.violate("wire_order", "any", "panic", p, sc.describe());
        }
    }
}

fn scenarios(rng: &mut Rng, n: usize) -> Vec<Scenario> {
    let mut v = vec![
        // the canonical one: two requests racing on a fresh session
        Scenario { requests: 2, data_frames: 1, api: 0, start_yields: vec![0, 0], heartbeats: 0, padded: false, pipe: 0, payload: 12, big: false, keepalive: false },
        Scenario { requests: 2, data_frames: 2, api: 2, start_yields: vec![0, 1], heartbeats: 1, padded: true, pipe: 0, payload: 20, big: false, keepalive: true },
        Scenario { requests: 3, data_frames: 1, api: 1, start_yields: vec![0, 2, 1], heartbeats: 0, padded: true, pipe: 1, payload: 40, big: false, keepalive: false },
        Scenario { requests: 2, data_frames: 3, api: 1, start_yields: vec![0, 1], heartbeats: 0, padded: false, pipe: 0, payload: 30, big: true, keepalive: true },
    ];
    while v.len() < n {
        let requests = rng.usize(1, 5);
        v.push(Scenario {
            requests,
            data_frames: rng.usize(0, 4),
            api: rng.below(3) as u8,
            start_yields: (0..requests).map(|_| rng.below(6) as u32).collect(),
            heartbeats: if rng.chance(0.4) { rng.usize(1, 3) } else { 0 },
            padded: rng.chance(0.5),
            pipe: rng.below(3) as u8,
            payload: *rng.pick(&[3usize, 12, 100, 900, 5000]),
            big: rng.chance(0.15),
            keepalive: rng.chance(0.4),
        });
    }
    v
}

pub fn run(ctx: Ctx) -> Report {
    let n_scen = ctx.tier.pick(320, 2400);
    let mut total = run::run_sharded("C11", ctx.shards, move |shard, nshards, rep| {
        let mut rng0 = Rng::new(ctx.seed ^ 0xC11);
        let scen = scenarios(&mut rng0, n_scen);
        let mut rng = Rng::new(ctx.seed.wrapping_mul(31).wrapping_add(shard as u64) ^ 0xC11C11);
        // the session's own keep-alive task as a concurrent writer on a transport that stalls in mid-packet and
        // recovers (workload of C04, judged here for contiguity and order)
        {
            let mut r2 = Rng::new(ctx.seed.wrapping_mul(131).wrapping_add(shard as u64) ^ 0x57A11);
            super::c04::run_stalled_as(rep, &mut r2, ctx.tier.pick(480, 8000) / nshards, "wire_order");
        }
        for (si, sc) in scen.iter().enumerate() {
            if si % nshards != shard {
                continue;
            }
            run::case_begin(&format!("C11 scenario {si}"));
            let seed = ctx.seed ^ si as u64;
            // baseline: count the hits
            let base = run_one(sc, SchedMode::Observe, seed);
            let h = base.hits.len();
            record(rep, sc, &base, seed);
            rep.case(Some(hash_str(&sc.key())));
            if si < 2 {
                rep.sample(json!({"scenario": sc.describe(), "sched_points_hit": h, "wire_order_without_preemption": base.wire_order}));
            }
            // systematic: every single pre-emption position x yield length
            for idx in 0..h {
                for y in [1u32, 2, 4, 8] {
                    let out = run_one(sc, SchedMode::Plan(BTreeMap::from([(idx, y)])), seed);
                    rep.case(Some(hash_str(&format!("{}|{}:{}", sc.key(), idx, y))));
                    rep.add("single_preemptions", 1);
                    record(rep, sc, &out, seed);
                }
            }
            // all pairs for small scenarios (bounded)
            let pair_cap = ctx.tier.pick(28, 60);
            if h <= pair_cap {
                for a in 0..h {
                    for b in a + 1..h {
                        let y2 = if (a + b) % 2 == 0 { 1 } else { 3 };
                        let out = run_one(sc, SchedMode::Plan(BTreeMap::from([(a, 1), (b, y2)])), seed);
                        rep.case(Some(hash_str(&format!("{}|{}+{}", sc.key(), a, b))));
                        rep.add("pair_preemptions", 1);
                        record(rep, sc, &out, seed);
                    }
                }
            }
            // random schedules
            for r in 0..ctx.tier.pick(40, 400) {
                let s2 = rng.next();
                let out = run_one(sc, SchedMode::Random { p: *rng.pick(&[0.1, 0.3, 0.6]), max: 5 }, s2);
                rep.case(Some(hash_str(&format!("{}|rnd{}", sc.key(), out.interleaving))));
                rep.add("random_schedules", 1);
                record(rep, sc, &out, s2);
                let _ = r;
            }
        }
        run::case_end();
    });
    // real parallelism without injected yields (multi-worker runtimes, real time)
    if ctx.tier == Tier::Thorough {
        let par = run::run_sharded("C11", 8, move |shard, _n, rep| {
            let mut rng = Rng::new(ctx.seed ^ 0x4411);
            let scen = scenarios(&mut rng, 12);
            let rt = tokio::runtime::Builder::new_multi_thread().worker_threads(3).enable_all().build().expect("rt");
            for (si, sc) in scen.iter().enumerate() {
                for r in 0..150u64 {
                    run::case_begin(&format!("C11 parallel scenario {si} round {r}"));
                    let sc2 = sc.clone();
                    let res = rt.block_on(async move { tokio::time::timeout(Duration::from_secs(20), run_async(sc2, r * 8 + shard as u64, Duration::from_millis(15))).await });
                    rep.add("parallel_runtime_runs", 1);
                    rep.evaluations += 1;
                    match res {
                        Ok((problems, frames, order)) => {
                            rep.add("frames_parsed", frames as u64);
                            rep.seen("wire_orders", order.chars().take(120).collect::<String>());
                            for (sym, det) in problems {
                                rep.violate("wire_order", "parallel_runtime", &sym, det, json!({"kind": "c11-parallel", "scenario": sc.describe()}));
                            }
                        }
                        Err(_) => rep.inconclusive("parallel run exceeded 20 s wall"),
                    }
                }
            }
            run::case_end();
        });
        total.merge(par);
    }
    total
}

pub fn meta() -> CheckMeta {
    CheckMeta {
        level: "exploration",
        rule: "scenario = 1-5 tasks performing the client's request sequence (open_stream, disable_buffering, destination write, 0-4 data frames via write_data_frame / the forwarding task) plus optional keep-alive writers on ONE fresh client Session (real server Session as peer), every payload tagged (task, sequence, fill); per scenario: the unperturbed run, EVERY single pre-emption position x yield length {1,2,4,8} at the named scheduling points of write_frame / write_with_padding / open_stream, all pairs of positions for small scenarios, and random schedules; thorough adds a 4-worker runtime without injected yields. Oracle: the recorded client->server wire parses completely, Settings is the first frame, SYN(id) precedes PSH(id), each task's frames appear exactly once in submission order, and the peer stream received the concatenated payloads. distinct_nontrivial = distinct (scenario, pre-emption plan / interleaving id). 40% of the generated scenarios (and two of the fixed ones) run the session's own keep-alive task (interval 30 s), whose start-up request races the session start and the first requests under the enumerated pre-emptions. End to end: one application upload through the SOCKS5 / HTTP CONNECT front-end in write patterns that fill the front-end's 8 KiB read buffer exactly and then do not (8192,8192,1000; 16384,5; 65536,10; ...), back to back or with gaps, pipelined with the request or after the reply, half-closed at once or after a pause: the byte stream arriving at the target must be the upload, in order and complete. Stalled transports: the session's keep-alive task and a data writer on a 256-byte pipe that stops draining in mid-packet (0-200 bytes into the next packet) for up to timeout + 2 intervals and recovers: the wire must stay whole frames carrying the submitted payload in order (a prefix if the session closed).".into(),
        assumptions: vec!["a forced yield at a named scheduling point models a pre-emption by another worker thread there".into(), "at most two forced pre-emptions per run are enumerated systematically".into()],
        floors: vec![("schedules_run", 2000), ("single_preemptions", 1000), ("frames_parsed", 10_000), ("front_end_uploads_checked", 24), ("stalled_transport_cases", 200)],
        exhaustive: false,
    }
}

// ---------------------------------------------------------------------------
// end to end: one application upload through a front-end is one writer; if the front-end spreads it over two
// paths inside the session (the awaited write and the queue of the forwarding task) the frames of that one upload
// can overtake each other. Observed where it matters: the byte stream arriving at the target.

pub fn run_e2e(ctx: Ctx) -> Report {
    use crate::netkit::{self, SocksDest, Target};
    use crate::prng::Pattern;
    use tokio::io::{AsyncReadExt, AsyncWriteExt};
    let quick = ctx.tier == crate::report::Tier::Quick;
    let seed = ctx.seed;
    run::case_begin("C11 e2e");
    let mut rep = run::rt_block_on(8, async move {
        let mut rep = Report::new("C11");
        let Some((server_addr, _sh)) = netkit::start_server(netkit::PASSWORD, engine::default_padding()).await else {
            rep.inconclusive("cannot start server");
            return rep;
        };
        let client = netkit::make_client(&server_addr, netkit::PASSWORD, engine::default_padding(), netkit::quiet_pool());
        let (Some((socks, _h1)), Some((http, _h2))) = (netkit::start_socks5(client.clone()).await, netkit::start_http(client.clone()).await) else {
            rep.inconclusive("cannot start the front-ends");
            return rep;
        };
        let Some(mut target) = Target::bind_v4(0).await else {
            rep.inconclusive("cannot bind target");
            return rep;
        };
        let tport = target.port;
        let got: Arc<Mutex<HashMap<std::net::SocketAddr, (Vec<u8>, bool)>>> = Arc::new(Mutex::new(HashMap::new()));
        {
            let got = got.clone();
            tokio::spawn(async move {
                while let Some(a) = target.rx.recv().await {
                    let got = got.clone();
                    tokio::spawn(async move {
                        let mut s = a.stream;
                        let mut buf = vec![0u8; 65536];
                        let mut all = Vec::new();
                        let mut eof = false;
                        loop {
                            match tokio::time::timeout(Duration::from_secs(15), s.read(&mut buf)).await {
                                Ok(Ok(0)) => {
                                    eof = true;
                                    break;
                                }
                                Ok(Ok(n)) => all.extend_from_slice(&buf[..n]),
                                _ => break,
                            }
                        }
                        got.lock().unwrap().insert(a.dialled, (all, eof));
                    });
                }
            });
        }
        #[derive(Clone, Debug)]
        struct Up {
            uniq: u32,
            front: u8, // 1 = SOCKS5, 2 = HTTP CONNECT
            writes: Vec<usize>,
            gap_ms: u64,
            pipelined: bool, // the first bytes travel in the same segment as the request (SOCKS5 only)
            linger_ms: u64,  // time between the last write and the half-close
        }
        let mut rng = Rng::new(seed ^ 0xE11);
        let mut cases = Vec::new();
        let patterns: Vec<Vec<usize>> = vec![vec![8192, 8192, 1000], vec![16384, 5], vec![8192], vec![8192, 1], vec![24576, 100, 8192, 3], vec![65536, 10], vec![100_000], vec![3, 8192, 8192, 8192, 7]];
        let mut uniq = 0u32;
        for round in 0..if quick { 2 } else { 30 } {
            for (pi, pat) in patterns.iter().enumerate() {
                for front in [1u8, 2] {
                    uniq += 1;
                    let mut writes = pat.clone();
                    if round > 0 {
                        for w in writes.iter_mut() {
                            if rng.chance(0.3) {
                                *w = (*w + rng.usize(0, 16)).max(1);
                            }
                        }
                    }
                    cases.push(Up { uniq, front, writes, gap_ms: *rng.pick(&[0u64, 0, 2, 20]), pipelined: front == 1 && (pi + round) % 2 == 0, linger_ms: *rng.pick(&[0u64, 0, 50, 300]) });
                }
            }
        }
        let results: Arc<Mutex<Vec<(Up, Result<(), String>)>>> = Arc::new(Mutex::new(Vec::new()));
        {
            let results = results.clone();
            netkit::for_each_limited(cases, 8, move |c| {
                let results = results.clone();
                let (socks, http) = (socks.clone(), http.clone());
                async move {
                    let ip = netkit::uniq_ip(71, c.uniq);
                    let pat = Pattern::new(seed, c.uniq as u64, 0);
                    let r: Result<(), String> = async {
                        let total: usize = c.writes.iter().sum();
                        let all = pat.make(0, total);
                        let mut off = 0usize;
                        let mut s = if c.front == 1 {
                            if c.pipelined {
                                // greeting, request and the first write in one segment
                                let mut s = tokio::net::TcpStream::connect(&socks).await.map_err(|e| e.to_string())?;
                                let _ = s.set_nodelay(true);
                                let mut first = vec![5u8, 1, 0, 5, 1, 0];
                                first.extend_from_slice(&SocksDest::V4(ip, tport).encode());
                                first.extend_from_slice(&all[..c.writes[0]]);
                                off = c.writes[0];
                                s.write_all(&first).await.map_err(|e| e.to_string())?;
                                let mut reply = [0u8; 12];
                                tokio::time::timeout(Duration::from_secs(20), s.read_exact(&mut reply)).await.map_err(|_| "no SOCKS5 reply".to_string())?.map_err(|e| e.to_string())?;
                                if reply[3] != 0 {
                                    return Err(format!("SOCKS5 reply {}", reply[3]));
                                }
                                s
                            } else {
                                let (s, code) = netkit::socks5_connect(&socks, &SocksDest::V4(ip, tport), Duration::from_secs(20)).await?;
                                if code != 0 {
                                    return Err(format!("SOCKS5 reply {code}"));
                                }
                                s
                            }
                        } else {
                            let mut s = tokio::net::TcpStream::connect(&http).await.map_err(|e| e.to_string())?;
                            let _ = s.set_nodelay(true);
                            s.write_all(format!("CONNECT {ip}:{tport} HTTP/1.1\r\nHost: {ip}:{tport}\r\n\r\n").as_bytes()).await.map_err(|e| e.to_string())?;
                            let mut head = Vec::new();
                            let mut b = [0u8; 1];
                            while !head.ends_with(b"\r\n\r\n") {
                                match tokio::time::timeout(Duration::from_secs(20), s.read(&mut b)).await {
                                    Ok(Ok(1)) => head.push(b[0]),
                                    _ => return Err("no CONNECT reply".into()),
                                }
                            }
                            if !head.starts_with(b"HTTP/1.1 200") {
                                return Err(format!("CONNECT refused: {}", String::from_utf8_lossy(&head)));
                            }
                            s
                        };
                        let skip = if off > 0 { 1 } else { 0 };
                        for w in c.writes.iter().skip(skip) {
                            s.write_all(&all[off..off + w]).await.map_err(|e| e.to_string())?;
                            off += w;
                            if c.gap_ms > 0 {
                                tokio::time::sleep(Duration::from_millis(c.gap_ms)).await;
                            }
                        }
                        if c.linger_ms > 0 {
                            tokio::time::sleep(Duration::from_millis(c.linger_ms)).await;
                        }
                        let _ = s.shutdown().await;
                        // keep our side open until the tunnel has wound down
                        let mut rest = Vec::new();
                        let _ = tokio::time::timeout(Duration::from_secs(10), s.read_to_end(&mut rest)).await;
                        Ok(())
                    }
                    .await;
                    results.lock().unwrap().push((c, r));
                }
            })
            .await;
        }
        tokio::time::sleep(Duration::from_millis(400)).await;
        let results = std::mem::take(&mut *results.lock().unwrap());
        let got = got.lock().unwrap().clone();
        for (c, r) in results {
            let ip = netkit::uniq_ip(71, c.uniq);
            let fname = if c.front == 1 { "socks5" } else { "http_connect" };
            let case = json!({"kind": "c11-e2e-upload", "front": fname, "writes": c.writes, "gap_ms": c.gap_ms, "pipelined_with_request": c.pipelined, "linger_ms": c.linger_ms, "seed": seed.to_string()});
            rep.case(Some(hash_str(&case.to_string())));
            if let Err(e) = r {
                rep.inconclusive(format!("upload through {fname}: {e}"));
                continue;
            }
            rep.add("front_end_uploads_checked", 1);
            let total: usize = c.writes.iter().sum();
            let want = Pattern::new(seed, c.uniq as u64, 0).make(0, total);
            let (have, _eof) = got.iter().find(|(a, _)| a.ip() == std::net::IpAddr::V4(ip)).map(|(_, v)| v.clone()).unwrap_or_default();
            if have != want {
                let at = have.iter().zip(want.iter()).position(|(a, b)| a != b).unwrap_or(have.len().min(want.len()));
                // where do the bytes found at the point of divergence come from in the upload?
                let from = if at < have.len() { (0..want.len().saturating_sub(8)).find(|i| want[*i..*i + 8.min(want.len() - *i)] == have[at..(at + 8).min(have.len())]) } else { None };
                let sym = if at == have.len() { "tail_of_the_upload_missing_at_the_target" } else { "upload_reordered_at_the_target" };
                rep.violate("wire_order", &format!("e2e+{fname}+one_upload"), sym, format!("one application uploaded {total} bytes through the {fname} front-end in writes of {:?}{}; the target received {} bytes, identical up to offset {at}{}", c.writes, if c.pipelined { " (the first write in the same segment as the request)" } else { "" }, have.len(), match from { Some(f) => format!(", where it continues with the bytes of upload offset {f}"), None => String::new() }), case);
            }
        }
        rep
    });
    for p in run::panic_log() {
        if !run::is_harness_panic(&p) {
            rep.violate("wire_order", "e2e", "panic", p, json!({}));
        }
    }
    run::case_end();
    rep
}
