//! C19 — a padding scheme pushed by the server takes effect on the client.
//! Session level: real client `Session` against a raw scripted server on
//! MemPipes; each history runs in a fresh sub-process because the default
//! scheme is process-global. The client level (real `Client` against a
//! scripted TLS peer) is in `e2e`.

use crate::engine;
use crate::mempipe::PipeCfg;
use crate::prng::{Pattern, Rng};
use crate::refcodec;
use crate::refscheme::{self, GenCfg, Scheme};
use crate::report::{CheckMeta, Report, hash_str};
use crate::run::{self, Ctx};
use bytes::Bytes;
use serde_json::{Value, json};
use std::time::Duration;

#[derive(Clone, Debug)]
pub enum Step {
    /// the client sends one data packet with this many payload bytes
    Packet(usize),
    /// the server pushes the n-th scheme of the history (0 = initial scheme again)
    Push(usize),
    /// the server pushes something the client cannot parse
    PushGarbage(u8),
    /// the server pushes the n-th scheme while a client packet with this many payload bytes is parked on a
    /// transport that does not accept bytes for a moment (back-pressure); the transport recovers afterwards
    PushDuringWrite(usize, usize),
}

#[derive(Clone, Debug)]
pub struct History {
    pub seed: u64,
    /// true: PaddingFactory::default() is called before anything else (as the client binary does)
    pub default_used_before: bool,
    pub sessions: Vec<Vec<Step>>,
}

fn schemes(seed: u64) -> Vec<Scheme> {
    let mut rng = Rng::new(seed ^ 0x5C4E);
    let cfg = GenCfg { max_size: 2500, boundary_heavy: false, allow_junk: false, sane_line0: true };
    let mut v = vec![Scheme::default_scheme()];
    while v.len() < 4 {
        let mut s = refscheme::gen_scheme(&mut rng, &cfg);
        s.stop = s.stop.max(6) + v.len() as u32; // long enough that the switch is visible
        for k in 0..s.stop {
            s.lines.entry(k).or_insert_with(|| vec![refscheme::Entry::Range { lo: 200 + 10 * k as u64 + v.len() as u64 * 300, hi: 260 + 10 * k as u64 + v.len() as u64 * 300, reversed: false }]);
        }
        if v.iter().all(|o| o.text() != s.text()) {
            v.push(s);
        }
    }
    v
}

/// the bytes the server actually pushes for scheme i: some servers' scheme text ends in a newline or is
/// surrounded by blank space (a file read verbatim); the md5 identity is over exactly these bytes
fn raw(sch: &[Scheme], i: usize) -> String {
    let t = sch[i].text();
    match i % 4 {
        1 => format!("{t}\n"),
        2 => format!("\n{t}\n\n"),
        3 => format!("{t}  "),
        _ => t,
    }
}

pub fn gen_history(rng: &mut Rng) -> History {
    let nsess = rng.usize(1, 3);
    let mut sessions = Vec::new();
    for _ in 0..nsess {
        let mut steps = vec![Step::Packet(rng.usize(0, 60))];
        let n = rng.usize(3, 10);
        let mut pushes = 0;
        for _ in 0..n {
            steps.push(match rng.below(10) {
                0..=1 if pushes < 3 => {
                    pushes += 1;
                    Step::Push(rng.usize(0, 3))
                }
                2 => Step::PushGarbage(rng.below(64) as u8),
                _ => Step::Packet(*rng.pick(&[0usize, 10, 100, 230, 300, 700, 1500, 4000])),
            });
        }
        // always at least one push followed by packets
        let at = rng.usize(1, steps.len().min(3));
        steps.insert(at, if rng.chance(0.35) { Step::PushDuringWrite(rng.usize(1, 3), *rng.pick(&[0usize, 40, 700, 4000, 20000])) } else { Step::Push(rng.usize(1, 3)) });
        steps.push(Step::Packet(50));
        steps.push(Step::Packet(400));
        sessions.push(steps);
    }
    History { seed: rng.next(), default_used_before: rng.chance(0.5), sessions }
}

fn garbage(kind: u8) -> Vec<u8> {
    match kind {
        0 => b"no stop line here\n1=10-20".to_vec(),
        1 => vec![0xFF, 0xFE, 0x00, 0x80, 0x81],
        2 => b"stop=abc\n0=1-2".to_vec(),
        3 => b"stop=-4".to_vec(),
        // long texts that cannot be parsed, with multi-byte characters starting at every offset (whoever quotes,
        // truncates or logs a rejected scheme must cope with any byte position)
        k if k % 4 == 0 => format!("# {}{}\n1=10-20", "a".repeat(k as usize), "\u{4f1a}\u{8bdd}".repeat(30)).into_bytes(),
        k if k % 4 == 1 => vec![0xFF; 20 + k as usize],
        k if k % 4 == 2 => format!("stop={}{}", "x".repeat(k as usize / 2), "\u{e9}".repeat(60)).into_bytes(),
        k => format!("{}\u{1f600}{}\nstop=\u{20ac}", "b".repeat(k as usize), "\u{1f600}".repeat(20)).into_bytes(),
    }
}

/// runs inside the sub-process; returns a JSON report
async fn run_history(h: &History) -> Value {
    let sch = schemes(h.seed);
    if h.default_used_before {
        let _ = anytls_rs::padding::PaddingFactory::default();
    }
    let mut problems: Vec<Value> = Vec::new();
    let mut packets_checked = 0u64;
    let mut packets_after_push = 0u64;
    let mut pushes = 0u64;
    let mut pushes_during_write = 0u64;
    // what a well-behaved client process would use for the next session: starts with scheme 0
    for (si, steps) in h.sessions.iter().enumerate() {
        let initial = engine::padding_from(&sch[0].text()).expect("scheme");
        let mut cv = engine::client_vs_raw(PipeCfg::plain(), PipeCfg::plain(), initial, None).await;
        // drain what the client writes (the raw peer does not need to parse it here)
        let mut current = 0usize; // index of the scheme in force for this session
        let (stream, _rx) = match cv.client.open_stream().await {
            Ok(x) => x,
            Err(e) => {
                problems.push(json!({"symptom": "open_failed", "detail": e.to_string()}));
                break;
            }
        };
        cv.client.disable_buffering();
        let mut mark = 0usize;
        let mut k: u32 = 0; // session packet counter (first session write is packet 1)
        let mut first = true;
        let pat = Pattern::new(h.seed, si as u64, 0);
        let mut off = 0u64;
        for (sti, st) in steps.iter().enumerate() {
            match st {
                Step::Packet(n) => {
                    let data = pat.make(off, *n);
                    off += *n as u64;
                    let r = tokio::time::timeout(Duration::from_secs(600), cv.client.write_data_frame(stream.id(), Bytes::from(data))).await;
                    match r {
                        Ok(Ok(())) => {}
                        Ok(Err(e)) => {
                            problems.push(json!({"symptom": "session_disturbed", "detail": format!("session {si} step {sti}: write failed after a push: {e}")}));
                            break;
                        }
                        Err(_) => {
                            problems.push(json!({"symptom": "session_disturbed", "detail": format!("session {si} step {sti}: write blocked")}));
                            break;
                        }
                    }
                    k += 1;
                    let writes: Vec<usize> = cv.c2s.with_log(|l| l.writes[mark..].iter().map(|w| w.accepted).collect());
                    mark += writes.len();
                    let mut payload = 7 + *n;
                    if first {
                        // Settings + SYN ride in the first packet
                        let md5 = format!("{:x}", md5::compute(sch[0].text().as_bytes()));
                        payload += 7 + "v=2".len() + 1 + "client=anytls-rs/0.1.0".len() + 1 + "padding-md5=".len() + md5.len() + 7;
                        first = false;
                    }
                    let s = &sch[current];
                    let res = if k < s.stop {
                        match s.items(k) {
                            Some(items) => refscheme::accept_packet(&items, payload, &writes).map(|_| ()),
                            None => refscheme::accept_unpadded(payload, &writes),
                        }
                    } else {
                        refscheme::accept_unpadded(payload, &writes)
                    };
                    packets_checked += 1;
                    if current != 0 {
                        packets_after_push += 1;
                    }
                    if let Err(rej) = res {
                        // which scheme would explain it? (diagnostic)
                        let explains: Vec<usize> = (0..sch.len())
                            .filter(|&i| {
                                let s2 = &sch[i];
                                if k < s2.stop { s2.items(k).map(|it| refscheme::accept_packet(&it, payload, &writes).is_ok()).unwrap_or_else(|| refscheme::accept_unpadded(payload, &writes).is_ok()) } else { refscheme::accept_unpadded(payload, &writes).is_ok() }
                            })
                            .collect();
                        problems.push(json!({"symptom": "packet_not_shaped_by_pushed_scheme", "cause": if h.default_used_before { "default_scheme_used_before" } else { "default_scheme_not_used_before" },
                            "detail": format!("session {si} packet k={k} (payload {payload}) after scheme #{current} was pushed: writes {:?} are not explained by line {k} of scheme #{current} ({}); schemes that would explain it: {:?} (0 = the client's initial scheme)", writes, rej.reason, explains)}));
                        break;
                    }
                }
                Step::Push(i) => {
                    let raw = raw(&sch, *i);
                    if cv.peer.send(refcodec::UPDATE_PADDING, 0, raw.as_bytes()).await.is_err() {
                        problems.push(json!({"symptom": "session_disturbed", "detail": "client side of the transport is gone"}));
                        break;
                    }
                    tokio::time::sleep(Duration::from_secs(1)).await; // let the client process it
                    current = *i;
                    pushes += 1;
                }
                Step::PushDuringWrite(i, n) => {
                    // the transport stops taking bytes; a packet is submitted and parks; the push arrives and is
                    // processed; the transport recovers (well inside every write timeout of the session)
                    cv.c2s.set_cfg(|c| c.capacity = 0);
                    let data = pat.make(off, *n);
                    off += *n as u64;
                    let (cl, sid) = (cv.client.clone(), stream.id());
                    let parked = tokio::spawn(async move { cl.write_data_frame(sid, Bytes::from(data)).await });
                    tokio::time::sleep(Duration::from_millis(100)).await;
                    let raw = raw(&sch, *i);
                    if cv.peer.send(refcodec::UPDATE_PADDING, 0, raw.as_bytes()).await.is_err() {
                        problems.push(json!({"symptom": "session_disturbed", "detail": "client side of the transport is gone"}));
                        break;
                    }
                    tokio::time::sleep(Duration::from_secs(1)).await;
                    cv.c2s.set_cfg(|c| c.capacity = usize::MAX);
                    match tokio::time::timeout(Duration::from_secs(600), parked).await {
                        Ok(Ok(Ok(()))) => {}
                        other => {
                            problems.push(json!({"symptom": "session_disturbed", "detail": format!("session {si} step {sti}: the packet parked behind a 1.1 s transport stall while a scheme was pushed did not complete: {:?}", other.map(|r| r.map(|x| x.map_err(|e| e.to_string()))))}));
                            break;
                        }
                    }
                    k += 1;
                    let writes: Vec<usize> = cv.c2s.with_log(|l| l.writes[mark..].iter().map(|w| w.accepted).collect());
                    mark += writes.len();
                    let mut payload = 7 + *n;
                    if first {
                        let md5 = format!("{:x}", md5::compute(sch[0].text().as_bytes()));
                        payload += 7 + "v=2".len() + 1 + "client=anytls-rs/0.1.0".len() + 1 + "padding-md5=".len() + md5.len() + 7;
                        first = false;
                    }
                    // the parked packet was begun under the scheme in force before the push: either scheme may shape it
                    let ok_under = |s: &Scheme| {
                        if k < s.stop {
                            match s.items(k) {
                                Some(items) => refscheme::accept_packet(&items, payload, &writes).is_ok(),
                                None => refscheme::accept_unpadded(payload, &writes).is_ok(),
                            }
                        } else {
                            refscheme::accept_unpadded(payload, &writes).is_ok()
                        }
                    };
                    packets_checked += 1;
                    if !ok_under(&sch[current]) && !ok_under(&sch[*i]) {
                        problems.push(json!({"symptom": "packet_not_shaped_by_pushed_scheme", "cause": "push_while_a_write_was_parked",
                            "detail": format!("session {si} packet k={k} (payload {payload}), parked while scheme #{i} was pushed over scheme #{current}: writes {:?} are explained by neither", writes)}));
                        break;
                    }
                    current = *i;
                    pushes += 1;
                    pushes_during_write += 1;
                }
                Step::PushGarbage(g) => {
                    if cv.peer.send(refcodec::UPDATE_PADDING, 0, &garbage(*g)).await.is_err() {
                        problems.push(json!({"symptom": "session_disturbed", "detail": "client side of the transport is gone"}));
                        break;
                    }
                    tokio::time::sleep(Duration::from_secs(1)).await;
                    if cv.client.is_closed() {
                        problems.push(json!({"symptom": "unparsable_push_ended_session", "detail": format!("session {si}: closed after an unparsable scheme push")}));
                        break;
                    }
                }
            }
        }
        // at the end of the session (packet accounting is over): does it still process what the server sends?
        if problems.is_empty() && steps.iter().any(|st| matches!(st, Step::PushGarbage(_))) && !cv.client.is_closed() {
            let _ = cv.peer.send(refcodec::HEART_REQ, 0, &[]).await;
            let answered = tokio::time::timeout(Duration::from_secs(5), async {
                loop {
                    match cv.peer.recv().await {
                        Some(f) if f.cmd == refcodec::HEART_RESP => return true,
                        Some(_) => {}
                        None => return false,
                    }
                }
            })
            .await
            .unwrap_or(false);
            if !answered {
                problems.push(json!({"symptom": "unparsable_push_stopped_frame_processing", "detail": format!("session {si}: after unparsable scheme pushes the session no longer answers a keep-alive request")}));
            }
        }
        let _ = tokio::time::timeout(Duration::from_secs(5), cv.client.close()).await;
        if !problems.is_empty() {
            break;
        }
    }
    json!({"problems": problems, "packets_checked": packets_checked, "packets_after_push": packets_after_push, "pushes": pushes, "pushes_during_write": pushes_during_write, "panics": run::panic_log()})
}

pub fn history_to_json(h: &History) -> Value {
    json!({"kind": "c19", "seed": h.seed.to_string(), "default_used_before": h.default_used_before,
        "sessions": h.sessions.iter().map(|s| s.iter().map(|st| match st { Step::Packet(n) => json!({"packet": n}), Step::Push(i) => json!({"push": i}), Step::PushGarbage(g) => json!({"garbage": g}), Step::PushDuringWrite(i, n) => json!({"push_during_write": [i, n]}) }).collect::<Vec<_>>()).collect::<Vec<_>>()})
}

pub fn history_from_json(v: &Value) -> Option<History> {
    let mut sessions = Vec::new();
    for s in v.get("sessions")?.as_array()? {
        let mut steps = Vec::new();
        for st in s.as_array()? {
            if let Some(n) = st.get("packet").and_then(|x| x.as_u64()) {
                steps.push(Step::Packet(n as usize));
            } else if let Some(i) = st.get("push").and_then(|x| x.as_u64()) {
                steps.push(Step::Push(i as usize));
            } else if let Some(g) = st.get("garbage").and_then(|x| x.as_u64()) {
                steps.push(Step::PushGarbage(g as u8));
            } else if let Some(a) = st.get("push_during_write").and_then(|x| x.as_array()) {
                steps.push(Step::PushDuringWrite(a.first()?.as_u64()? as usize, a.get(1)?.as_u64()? as usize));
            }
        }
        sessions.push(steps);
    }
    Some(History { seed: v.get("seed")?.as_str()?.parse().ok()?, default_used_before: v.get("default_used_before")?.as_bool()?, sessions })
}

/// sub-process entry: `mon child c19 '<json>'`
pub fn child(arg: &str) -> i32 {
    run::install_panic_monitor();
    let Some(h) = serde_json::from_str::<Value>(arg).ok().and_then(|v| history_from_json(&v)) else {
        eprintln!("bad history");
        return 2;
    };
    let out = run::vt_block_on_deadline(Duration::from_secs(1_000_000), async move { run_history(&h).await });
    println!("CHILD-RESULT {}", out.unwrap_or(json!({"problems": [{"symptom": "case_stuck", "detail": "history did not finish"}]})));
    0
}

pub fn run_in_subprocess(h: &History) -> Option<Value> {
    let exe = std::env::current_exe().ok()?;
    let out = std::process::Command::new(exe).arg("child").arg("c19").arg(history_to_json(h).to_string()).output().ok()?;
    let text = String::from_utf8_lossy(&out.stdout);
    text.lines().find_map(|l| l.strip_prefix("CHILD-RESULT ")).and_then(|l| serde_json::from_str(l).ok())
}

pub fn record(rep: &mut Report, h: &History, v: Option<Value>) {
    let Some(v) = v else {
        rep.inconclusive("sub-process produced no result");
        return;
    };
    rep.add("packets_checked", v.get("packets_checked").and_then(|x| x.as_u64()).unwrap_or(0));
    rep.add("packets_checked_after_a_push", v.get("packets_after_push").and_then(|x| x.as_u64()).unwrap_or(0));
    rep.add("pushes", v.get("pushes").and_then(|x| x.as_u64()).unwrap_or(0));
    rep.add("pushes_while_a_client_write_was_parked", v.get("pushes_during_write").and_then(|x| x.as_u64()).unwrap_or(0));
    if let Some(ps) = v.get("problems").and_then(|x| x.as_array()) {
        for p in ps {
            let sym = p.get("symptom").and_then(|x| x.as_str()).unwrap_or("?");
            let cause = p.get("cause").and_then(|x| x.as_str()).unwrap_or(if h.default_used_before { "default_scheme_used_before" } else { "default_scheme_not_used_before" });
            rep.violate("scheme_push", cause, sym, p.get("detail").and_then(|x| x.as_str()).unwrap_or("").to_string(), history_to_json(h));
        }
    }
    if let Some(pl) = v.get("panics").and_then(|x| x.as_array()) {
        for p in pl.iter().filter_map(|x| x.as_str()) {
            if !run::is_harness_panic(p) {
                rep.violate("scheme_push", "any", "panic", p.to_string(), history_to_json(h));
            }
        }
    }
}

pub fn run_session_level(ctx: Ctx) -> Report {
    let n = ctx.tier.pick(16_000, 600_000);
    run::run_sharded("C19", ctx.shards, move |shard, nshards, rep| {
        let mut rng = Rng::new(ctx.seed.wrapping_mul(97).wrapping_add(shard as u64) ^ 0xC19);
        for i in 0..n / nshards {
            let mut h = gen_history(&mut rng);
            if i < 2 {
                h.default_used_before = i == 0; // both variants always present
            }
            run::case_begin(&format!("C19 history {i}"));
            let v = run_in_subprocess(&h);
            rep.case(Some(hash_str(&history_to_json(&h).to_string())));
            rep.add(if h.default_used_before { "histories_default_used_before" } else { "histories_default_not_used_before" }, 1);
            record(rep, &h, v);
            if shard == 0 && i < 2 {
                rep.sample(history_to_json(&h));
            }
        }
        run::case_end();
    })
}

pub fn meta() -> CheckMeta {
    CheckMeta {
        level: "exploration",
        rule: "history = 1-3 sessions in ONE fresh sub-process (the default scheme is process-global), each a real client Session (initial scheme = the built-in default) against a raw scripted server on a write-recording MemPipe; steps: data packets of sizes placed around the schemes' sizes, pushes of one of 4 generated schemes (1-4 per session, incl. re-pushing the initial one), unparsable pushes (no stop, invalid UTF-8, non-numeric / negative stop); variant 'PaddingFactory::default() already used' / 'not used'. Oracle: every packet k after a processed push is accepted by the reference acceptor for line k of the pushed scheme (unpadded at/after its stop); unparsable pushes change nothing and do not end the session. Client level: real Client against a scripted TLS peer that pushes scheme B on the first session; later sessions must announce md5(B). distinct_nontrivial = distinct histories. Client level, concurrent: the peer holds back the TLS handshake of session 2, pushes a scheme on session 1, lets the handshake continue: both requests must complete and session 3 must announce the pushed scheme. Unparsable pushes also come long (60-400 bytes) with 2-, 3- and 4-byte characters starting at every byte offset and as runs of 0xFF; at the end of a session that saw one, the session must still answer a keep-alive request.".into(),
        assumptions: vec!["pushes are processed at quiescent points (1 virtual second after the frame was written)".into()],
        floors: vec![("packets_checked_after_a_push", 500), ("pushes", 300), ("histories_default_used_before", 20), ("histories_default_not_used_before", 20), ("client_level_sessions", 6), ("client_level_md5_announcements_checked", 4), ("client_level_pushes_during_a_dial", 2), ("pushes_while_a_client_write_was_parked", 100)],
        exhaustive: false,
    }
}

// ---------------------------------------------------------------------------
// client level: the real Client against a scripted TLS peer that pushes schemes


/// Client level, concurrent: a scheme is pushed on session 1 while the client is in the middle of dialling
/// session 2 (its TLS handshake is held back by the peer). Both must go on: the push is processed, session 2
/// comes up, and the session dialled after that announces the pushed scheme.
async fn push_during_dial(rep: &mut Report, seed: u64, hi: usize) {
    use crate::netkit;
    use std::sync::atomic::Ordering;
    let sch = schemes(seed.wrapping_add(hi as u64 * 104729));
    let Some(mut peer) = netkit::start_tls_peer().await else {
        rep.inconclusive("cannot start TLS peer");
        return;
    };
    let client = netkit::make_client(&peer.addr, netkit::PASSWORD, engine::padding_from(&sch[0].text()).expect("scheme"), netkit::quiet_pool());
    let case = json!({"kind": "c19-client-push-during-dial", "history": hi});
    rep.case(Some(hash_str(&case.to_string())));
    let md5_of = |i: usize| format!("{:x}", md5::compute(raw(&sch, i).as_bytes()));
    // serve one connection up to the destination frame; returns (announced md5, stream id)
    async fn serve_open(conn: &mut netkit::TlsPeerConn) -> (String, u32) {
        let mut md5 = String::new();
        let mut sid = 1;
        while let Some(f) = conn.recv_non_padding(Duration::from_secs(10)).await {
            if f.cmd == refcodec::SETTINGS {
                md5 = refcodec::parse_settings(&f.data).get("padding-md5").cloned().unwrap_or_default();
            }
            if f.cmd == refcodec::SYN {
                sid = f.sid;
            }
            if f.cmd == refcodec::PSH {
                break;
            }
        }
        let _ = conn.send(refcodec::SERVER_SETTINGS, 0, b"v=2").await;
        (md5, sid)
    }
    let mut held = Vec::new();
    // session 1
    let c1 = client.clone();
    let req1 = tokio::spawn(async move { c1.create_proxy_stream(("192.0.2.9".to_string(), 80)).await });
    let Some(mut conn1) = tokio::time::timeout(Duration::from_secs(10), peer.conns.recv()).await.ok().flatten() else {
        rep.inconclusive("client did not connect");
        return;
    };
    let (_, sid1) = serve_open(&mut conn1).await;
    let _ = conn1.send(refcodec::SYNACK, sid1, &[]).await;
    match tokio::time::timeout(Duration::from_secs(10), req1).await {
        Ok(Ok(Ok(pair))) => held.push(pair),
        _ => {
            rep.inconclusive("request #1 did not complete");
            return;
        }
    }
    // session 2 is being dialled: TCP connected, TLS handshake held back
    let accepts_before = peer.tcp_accepts.load(Ordering::SeqCst);
    peer.hold_handshakes.store(true, Ordering::SeqCst);
    let c2 = client.clone();
    let req2 = tokio::spawn(async move { c2.create_proxy_stream(("192.0.2.10".to_string(), 80)).await });
    let t0 = tokio::time::Instant::now();
    while peer.tcp_accepts.load(Ordering::SeqCst) == accepts_before && t0.elapsed() < Duration::from_secs(5) {
        tokio::time::sleep(Duration::from_millis(5)).await;
    }
    tokio::time::sleep(Duration::from_millis(40)).await;
    // the push arrives on session 1 right now
    let pushed = 1 + hi % 3;
    let _ = conn1.send(refcodec::UPDATE_PADDING, 0, raw(&sch, pushed).as_bytes()).await;
    rep.add("client_level_pushes", 1);
    tokio::time::sleep(Duration::from_millis(80)).await;
    peer.hold_handshakes.store(false, Ordering::SeqCst);
    let conn2 = tokio::time::timeout(Duration::from_secs(10), peer.conns.recv()).await.ok().flatten();
    let mut ok2 = false;
    if let Some(mut conn2) = conn2 {
        let (md5_2, sid2) = serve_open(&mut conn2).await;
        let _ = conn2.send(refcodec::SYNACK, sid2, &[]).await;
        // dialled while the push was in flight: either scheme may be announced, nothing else
        if !md5_2.is_empty() && md5_2 != md5_of(0) && md5_2 != md5_of(pushed) {
            rep.violate("scheme_push", "client_level+push_during_dial", "session_announces_unknown_scheme", format!("session dialled while a push was being processed announces padding-md5 {md5_2:?}, neither the old nor the pushed scheme"), case.clone());
        }
        if let Ok(Ok(Ok(pair))) = tokio::time::timeout(Duration::from_secs(10), req2).await {
            held.push(pair);
            ok2 = true;
        }
        held_conns_keepalive(conn2);
    }
    rep.add("client_level_pushes_during_a_dial", 1);
    if !ok2 {
        rep.violate("scheme_push", "client_level+push_during_dial", "session_being_dialled_never_came_up", "a scheme was pushed on session 1 while the client was dialling session 2 (TLS handshake in progress): the second request did not complete within 10 s after the handshake was allowed to continue".to_string(), case.clone());
        client.stop_session_pool_cleanup().await;
        return;
    }
    // session 3, dialled afterwards: must announce the pushed scheme (the push on session 1 was processed)
    let c3 = client.clone();
    let req3 = tokio::spawn(async move { c3.create_proxy_stream(("192.0.2.11".to_string(), 80)).await });
    match tokio::time::timeout(Duration::from_secs(10), peer.conns.recv()).await.ok().flatten() {
        None => rep.violate("scheme_push", "client_level+push_during_dial", "later_request_never_dialled", "after a push that arrived during a dial, the next request did not reach the server within 10 s".to_string(), case.clone()),
        Some(mut conn3) => {
            let (md5_3, sid3) = serve_open(&mut conn3).await;
            let _ = conn3.send(refcodec::SYNACK, sid3, &[]).await;
            let _ = tokio::time::timeout(Duration::from_secs(10), req3).await;
            rep.add("client_level_sessions", 3);
            if md5_3 != md5_of(pushed) {
                rep.violate("scheme_push", "client_level+push_during_dial", "later_session_announces_old_scheme", format!("a scheme pushed on session 1 while session 2 was being dialled was never adopted: session 3 announces padding-md5 {md5_3:?}, the pushed scheme has {:?}", md5_of(pushed)), case.clone());
            } else {
                rep.add("client_level_md5_announcements_checked", 1);
            }
        }
    }
    drop(conn1);
    client.stop_session_pool_cleanup().await;
}

/// keep a scripted connection open (and drained) in the background
fn held_conns_keepalive(mut c: crate::netkit::TlsPeerConn) {
    tokio::spawn(async move {
        let _ = tokio::time::timeout(Duration::from_secs(30), async { while c.recv().await.is_some() {} }).await;
    });
}

pub fn run_client_level(ctx: Ctx) -> Report {
    use crate::netkit;
    let quick = ctx.tier == crate::report::Tier::Quick;
    let seed = ctx.seed;
    run::case_begin("C19 client level");
    let mut rep = run::rt_block_on(4, async move {
        let mut rep = Report::new("C19");
        let n_hist = if quick { 4 } else { 40 };
        for hi in 0..n_hist {
            let sch = schemes(seed.wrapping_add(hi as u64 * 7919));
            // pushes[k] = scheme the peer pushes on session k (None = no push)
            let mut rng = Rng::new(seed ^ (hi as u64 + 1) * 0x9E37);
            let n_sessions = rng.usize(2, 4);
            let pushes: Vec<Option<usize>> = (0..n_sessions).map(|k| if k == 0 || rng.chance(0.4) { Some(rng.usize(1, 3)) } else { None }).collect();
            let Some(mut peer) = netkit::start_tls_peer().await else {
                rep.inconclusive("cannot start TLS peer");
                continue;
            };
            let client = netkit::make_client(&peer.addr, netkit::PASSWORD, engine::padding_from(&sch[0].text()).expect("scheme"), netkit::quiet_pool());
            let mut current = 0usize; // scheme a well-behaved client uses for the NEXT session
            let mut held = Vec::new();
            let case = json!({"kind": "c19-client", "history": hi, "pushes": pushes});
            rep.case(Some(hash_str(&case.to_string())));
            'sessions: for (k, push) in pushes.iter().enumerate() {
                // every request needs a new session because the earlier streams are still held
                let c2 = client.clone();
                let req = tokio::spawn(async move { c2.create_proxy_stream(("192.0.2.9".to_string(), 80)).await });
                let Some(mut conn) = tokio::time::timeout(Duration::from_secs(10), peer.conns.recv()).await.ok().flatten() else {
                    rep.inconclusive("client did not connect");
                    break 'sessions;
                };
                // (1) the preamble's padding0 comes from line 0 of the scheme in force
                let l = ((conn.preamble[32] as u64) << 8) | conn.preamble[33] as u64;
                let (lo, hi_) = match sch[current].items(0).unwrap_or_default().first() {
                    Some(refscheme::Item::Range(a, b)) => (*a, *b),
                    _ => (0, 0),
                };
                rep.add("client_level_sessions", 1);
                if l < lo || l > hi_ {
                    rep.violate("scheme_push", "client_level", "later_session_preamble_not_from_pushed_scheme", format!("session #{k}: preamble announces {l} padding bytes, line 0 of scheme #{current} (in force after the pushes so far) allows {lo}..{hi_}"), case.clone());
                }
                // (2) the Settings frame announces the md5 of the scheme in force
                let mut settings = None;
                let mut sid = None;
                while let Some(f) = conn.recv_non_padding(Duration::from_secs(10)).await {
                    if f.cmd == refcodec::SETTINGS {
                        settings = Some(refcodec::parse_settings(&f.data));
                    }
                    if f.cmd == refcodec::SYN {
                        sid = Some(f.sid);
                    }
                    if f.cmd == refcodec::PSH {
                        break;
                    }
                }
                let want_md5 = format!("{:x}", md5::compute(raw(&sch, current).as_bytes()));
                let got_md5 = settings.as_ref().and_then(|m| m.get("padding-md5").cloned()).unwrap_or_default();
                if got_md5 != want_md5 {
                    let which: Vec<usize> = (0..sch.len()).filter(|i| format!("{:x}", md5::compute(raw(&sch, *i).as_bytes())) == got_md5).collect();
                    rep.violate("scheme_push", "client_level", "later_session_announces_old_scheme", format!("session #{k}: announces padding-md5 {got_md5} (scheme {:?}); scheme #{current} was pushed before and must be announced so that it is not pushed again", which), case.clone());
                } else {
                    rep.add("client_level_md5_announcements_checked", 1);
                }
                // the server side: push when told to, then accept the open
                let _ = conn.send(refcodec::SERVER_SETTINGS, 0, b"v=2").await;
                if let Some(p) = push {
                    let _ = conn.send(refcodec::UPDATE_PADDING, 0, raw(&sch, *p).as_bytes()).await;
                    current = *p;
                    rep.add("client_level_pushes", 1);
                }
                let _ = conn.send(refcodec::SYNACK, sid.unwrap_or(1), &[]).await;
                match tokio::time::timeout(Duration::from_secs(10), req).await {
                    Ok(Ok(Ok(pair))) => held.push((pair, conn)),
                    other => {
                        rep.inconclusive(format!("request #{k} did not complete: {:?}", other.map(|r| r.map(|x| x.map(|_| ()).map_err(|e| e.to_string())))));
                        break 'sessions;
                    }
                }
                tokio::time::sleep(Duration::from_millis(50)).await; // let the client process the push
            }
            client.stop_session_pool_cleanup().await;
            if hi == 0 {
                rep.sample(case);
            }
        }
        for hi in 0..if quick { 3 } else { 24 } {
            push_during_dial(&mut rep, seed, hi).await;
        }
        rep
    });
    for p in run::panic_log() {
        if !run::is_harness_panic(&p) {
            rep.violate("scheme_push", "client_level", "panic", p, json!({}));
        }
    }
    run::case_end();
    rep
}
