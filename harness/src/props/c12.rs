//! C12 (pool level) — the session pool never hands out or destroys the wrong
//! session. Real `SessionPool` holding real client `Session`s on MemPipes,
//! driven in lock-step with the property's rules under virtual time.
//! The client-level part (real Client/Server over loopback) lives in `e2e_pool`.

use crate::engine;
use crate::mempipe::{PipeCfg, pipe};
use crate::prng::Rng;
use crate::report::{CheckMeta, Report, hash_str};
use crate::run::{self, Ctx};
use anytls_rs::client::{SessionPool, SessionPoolConfig};
use anytls_rs::session::Session;
use serde_json::{Value, json};
use std::collections::BTreeMap;
use std::sync::Arc;
use std::time::Duration;
use tokio::time::Instant;

#[derive(Clone, Debug)]
pub enum Op {
    Add,
    Get,
    /// k concurrent gets
    GetMany(usize),
    /// the n-th known session dies (peer closes / owner closes)
    Die(usize),
    Advance(u64),
    Tick,
    /// put an in-use session back
    Return(usize),
    /// a reaper pass and k gets at the same time
    TickWithGets(usize),
}

#[derive(Clone, Debug)]
pub struct PoolCase {
    pub check_interval_s: u64,
    pub idle_timeout_s: u64,
    pub min_idle: usize,
    pub ops: Vec<Op>,
}

impl PoolCase {
    fn describe(&self) -> Value {
        json!({"kind": "c12-pool", "check_interval_s": self.check_interval_s, "idle_timeout_s": self.idle_timeout_s, "min_idle": self.min_idle, "ops": self.ops.iter().map(|o| format!("{:?}", o)).collect::<Vec<_>>()})
    }
}

struct Known {
    session: Arc<Session>,
    /// Some(t) while the harness believes it is in the idle map (since t)
    idle_since: Option<Instant>,
    in_use: bool,
    _keep: (crate::mempipe::PipeWriter, crate::mempipe::PipeReader),
}

async fn new_session(seq: u64) -> Known {
    let (c2s_w, c2s_r, _h1) = pipe(PipeCfg::plain());
    let (s2c_w, s2c_r, _h2) = pipe(PipeCfg::plain());
    let s = engine::start_client(s2c_r, c2s_w, engine::no_padding(), None).await.expect("start");
    s.set_seq(seq);
    Known { session: s, idle_since: None, in_use: false, _keep: (s2c_w, c2s_r) }
}

async fn run_async(c: PoolCase) -> (Vec<(String, String)>, BTreeMap<&'static str, u64>) {
    let mut problems: Vec<(String, String)> = Vec::new();
    let mut seen: BTreeMap<&'static str, u64> = BTreeMap::new();
    let timeout = Duration::from_secs(c.idle_timeout_s);
    let interval = Duration::from_secs(c.check_interval_s.max(1));
    let pool = Arc::new(SessionPool::with_config(SessionPoolConfig { check_interval: interval, idle_timeout: timeout, min_idle_sessions: c.min_idle }));
    let mut known: Vec<Known> = Vec::new();
    let mut next_seq = 1u64;

    // snapshot helpers -------------------------------------------------------
    fn idle_open(known: &[Known]) -> Vec<usize> {
        known.iter().enumerate().filter(|(_, k)| k.idle_since.is_some() && !k.session.is_closed()).map(|(i, _)| i).collect()
    }

    // after any step in which the reaper may have run: apply the property's rules
    async fn after_reaper(known: &mut [Known], before_open_idle: &[usize], before_times: &[(usize, Instant)], c: &PoolCase, problems: &mut Vec<(String, String)>, what: &str, taken: usize) -> u64 {
        let now = Instant::now();
        let timeout = Duration::from_secs(c.idle_timeout_s);
        // R5: in-use sessions are never touched
        for (i, k) in known.iter().enumerate() {
            if k.in_use && k.session.is_closed() && !before_open_idle.contains(&i) && k.idle_since.is_none() {
                // closed while in use: only a violation when WE did not kill it (kill clears in_use)
                problems.push(("in_use_session_closed_by_housekeeping".into(), format!("{what}: session #{i} was handed out and is in use, yet it is closed now")));
            }
        }
        // R3: whatever the reaper closed had been idle for at least the timeout
        let mut closed_now = Vec::new();
        for &(i, since) in before_times {
            if known[i].session.is_closed() {
                closed_now.push(i);
                // idle duration at the moment of the (latest possible) reaper run <= now - since
                if now.duration_since(since) < timeout {
                    problems.push(("unexpired_idle_session_closed".into(), format!("{what}: idle session #{i} closed after only {:?} idle (timeout {:?})", now.duration_since(since), timeout)));
                }
                known[i].idle_since = None;
            }
        }
        // R2: never fewer than min(min_idle, before) open idle sessions
        // sessions that concurrent gets took out after the pass had left them count as "left by the reaper"
        let after = idle_open(known).len() + taken;
        let floor = c.min_idle.min(before_open_idle.len());
        if after < floor {
            problems.push(("fewer_than_min_idle_left".into(), format!("{what}: {} open idle sessions before, min_idle {}, only {after} left (closed: {:?})", before_open_idle.len(), c.min_idle, closed_now)));
        }
        closed_now.len() as u64
    }

    for (step, op) in c.ops.iter().enumerate() {
        let what = format!("step {step} {:?}", op);
        match op {
            Op::Add => {
                let mut k = new_session(next_seq).await;
                next_seq += 1;
                pool.add_idle_session(k.session.clone()).await;
                k.idle_since = Some(Instant::now());
                known.push(k);
                *seen.entry("adds").or_insert(0) += 1;
            }
            Op::Return(n) => {
                let idxs: Vec<usize> = known.iter().enumerate().filter(|(_, k)| k.in_use && !k.session.is_closed()).map(|(i, _)| i).collect();
                if let Some(&i) = idxs.get(n % idxs.len().max(1)) {
                    pool.add_idle_session(known[i].session.clone()).await;
                    known[i].in_use = false;
                    known[i].idle_since = Some(Instant::now());
                    *seen.entry("returns").or_insert(0) += 1;
                }
            }
            Op::Get | Op::GetMany(_) => {
                let k = if let Op::GetMany(k) = op { *k } else { 1 };
                let open_before = idle_open(&known).len();
                let mut handles = Vec::new();
                for _ in 0..k {
                    let p = pool.clone();
                    handles.push(tokio::spawn(async move { p.get_idle_session().await }));
                }
                let mut got: Vec<Arc<Session>> = Vec::new();
                for h in handles {
                    match tokio::time::timeout(Duration::from_secs(60), h).await {
                        Ok(Ok(Some(s))) => got.push(s),
                        Ok(Ok(None)) => {}
                        _ => problems.push(("get_blocked".into(), format!("{what}: get_idle_session did not return"))),
                    }
                }
                *seen.entry("gets").or_insert(0) += k as u64;
                *seen.entry("sessions_handed_out").or_insert(0) += got.len() as u64;
                // R1: never a closed session, never the same session twice, only sessions that were idle
                for (a, s) in got.iter().enumerate() {
                    if s.is_closed() {
                        problems.push(("closed_session_returned".into(), format!("{what}: get_idle_session returned session id {} which is closed", s.id())));
                    }
                    if got.iter().skip(a + 1).any(|o| Arc::ptr_eq(o, s)) {
                        problems.push(("same_session_returned_twice".into(), format!("{what}: two concurrent gets received session id {}", s.id())));
                    }
                    match known.iter_mut().find(|k| Arc::ptr_eq(&k.session, s)) {
                        Some(k) => {
                            if k.idle_since.is_none() {
                                problems.push(("non_idle_session_returned".into(), format!("{what}: session id {} was not in the idle set", s.id())));
                            }
                            k.idle_since = None;
                            k.in_use = true;
                        }
                        None => problems.push(("unknown_session_returned".into(), what.clone())),
                    }
                }
                // a get must not come back empty while an open session is still sitting idle in the pool
                // (sessions the reaper closed concurrently do not count: judged on what is left afterwards)
                let still_idle_open = idle_open(&known).len();
                if got.len() < k && still_idle_open > 0 {
                    problems.push(("idle_session_not_handed_out".into(), format!("{what}: {k} gets, {} served, yet {still_idle_open} open idle session(s) remain in the pool ({open_before} before)", got.len())));
                }
                // closed ones found on the way are purged: they are no longer idle
                for kn in known.iter_mut() {
                    if kn.session.is_closed() {
                        kn.idle_since = None;
                    }
                }
            }
            Op::Die(n) => {
                if !known.is_empty() {
                    let i = n % known.len();
                    let _ = tokio::time::timeout(Duration::from_secs(30), known[i].session.close()).await;
                    known[i].in_use = false;
                    *seen.entry("external_deaths").or_insert(0) += 1;
                }
            }
            Op::Advance(s) => {
                let before = idle_open(&known);
                let times: Vec<(usize, Instant)> = known.iter().enumerate().filter_map(|(i, k)| k.idle_since.filter(|_| !k.session.is_closed()).map(|t| (i, t))).collect();
                tokio::time::sleep(Duration::from_secs(*s)).await;
                let n = after_reaper(&mut known, &before, &times, &c, &mut problems, &what, 0).await;
                *seen.entry("reaper_closes_observed").or_insert(0) += n;
                *seen.entry("clock_advances").or_insert(0) += 1;
            }
            Op::TickWithGets(k) => {
                let before = idle_open(&known);
                let times: Vec<(usize, Instant)> = known.iter().enumerate().filter_map(|(i, kn)| kn.idle_since.filter(|_| !kn.session.is_closed()).map(|t| (i, t))).collect();
                let p0 = pool.clone();
                let reaper = tokio::spawn(async move { p0.cleanup_expired().await });
                let mut handles = Vec::new();
                for _ in 0..*k {
                    let p = pool.clone();
                    handles.push(tokio::spawn(async move { p.get_idle_session().await }));
                }
                let _ = tokio::time::timeout(Duration::from_secs(60), reaper).await;
                let mut got: Vec<Arc<Session>> = Vec::new();
                for h in handles {
                    if let Ok(Ok(Some(s))) = tokio::time::timeout(Duration::from_secs(60), h).await {
                        got.push(s);
                    }
                }
                *seen.entry("gets").or_insert(0) += *k as u64;
                *seen.entry("gets_racing_a_reaper_pass").or_insert(0) += *k as u64;
                *seen.entry("sessions_handed_out").or_insert(0) += got.len() as u64;
                for (a, s) in got.iter().enumerate() {
                    if got.iter().skip(a + 1).any(|o| Arc::ptr_eq(o, s)) {
                        problems.push(("same_session_returned_twice".into(), format!("{what}: two gets that overlapped a reaper pass received session id {}", s.id())));
                    }
                    if let Some(kn) = known.iter_mut().find(|kn| Arc::ptr_eq(&kn.session, s)) {
                        if kn.idle_since.is_none() {
                            problems.push(("non_idle_session_returned".into(), format!("{what}: session id {} was not in the idle set", s.id())));
                        }
                        kn.idle_since = None;
                        kn.in_use = true;
                    }
                }
                // a session handed out in this step may have been closed by the concurrent pass only if the pass took it
                // first; then the get must not have returned it
                for s in &got {
                    if s.is_closed() {
                        problems.push(("closed_session_returned".into(), format!("{what}: a get racing the reaper returned session id {} which the reaper closed", s.id())));
                    }
                }
                let taken = got.len();
                let n = after_reaper(&mut known, &before, &times, &c, &mut problems, &what, taken).await;
                *seen.entry("reaper_closes_observed").or_insert(0) += n;
            }
            Op::Tick => {
                let before = idle_open(&known);
                let times: Vec<(usize, Instant)> = known.iter().enumerate().filter_map(|(i, k)| k.idle_since.filter(|_| !k.session.is_closed()).map(|t| (i, t))).collect();
                if tokio::time::timeout(Duration::from_secs(60), pool.cleanup_expired()).await.is_err() {
                    problems.push(("reaper_blocked".into(), format!("{what}: cleanup_expired did not return within 60 virtual seconds")));
                }
                let n = after_reaper(&mut known, &before, &times, &c, &mut problems, &what, 0).await;
                *seen.entry("reaper_closes_observed").or_insert(0) += n;
                *seen.entry("manual_ticks").or_insert(0) += 1;
            }
        }
        // idle_count never under-reports the open idle sessions the harness knows about
        let ic = pool.idle_count().await;
        let open_idle = idle_open(&known).len();
        if ic < open_idle {
            problems.push(("idle_count_too_small".into(), format!("{what}: idle_count()={ic} but {open_idle} open sessions are idle")));
        }
    }
    // R4 (bounded eventuality): only ticks for idle_timeout + check_interval (+1 s): surplus expired sessions are gone
    {
        let before = idle_open(&known);
        let times: Vec<(usize, Instant)> = known.iter().enumerate().filter_map(|(i, k)| k.idle_since.filter(|_| !k.session.is_closed()).map(|t| (i, t))).collect();
        // (a timeout that cannot be added to anything never expires: a few ticks must change nothing)
        tokio::time::sleep(timeout.checked_add(interval + Duration::from_secs(1)).unwrap_or(interval * 3 + Duration::from_secs(1))).await;
        let n = after_reaper(&mut known, &before, &times, &c, &mut problems, "final quiet period", 0).await;
        *seen.entry("reaper_closes_observed").or_insert(0) += n;
        let left = idle_open(&known).len();
        if left > c.min_idle && !before.is_empty() && c.idle_timeout_s != u64::MAX {
            problems.push(("surplus_idle_sessions_never_closed".into(), format!("after idle_timeout + check_interval with nothing but reaper ticks, {left} idle sessions are still open (min_idle {})", c.min_idle)));
        }
        *seen.entry("quiet_periods").or_insert(0) += 1;
    }
    pool.stop_cleanup_task().await;
    (problems, seen)
}

fn gen_case(rng: &mut Rng) -> PoolCase {
    let vals = [0u64, 1, 2, 5];
    let check_interval_s = *rng.pick(&[1u64, 2, 5]);
    // now and then the largest timeout there is ("never expire")
    let idle_timeout_s = if rng.chance(0.08) { u64::MAX } else { *rng.pick(&vals) };
    let min_idle = *rng.pick(&vals) as usize;
    let n = rng.usize(2, 24);
    let mut ops = Vec::new();
    for _ in 0..n {
        ops.push(match rng.below(12) {
            0..=3 => Op::Add,
            4..=5 => Op::Get,
            6 => Op::GetMany(rng.usize(2, 5)),
            7 => Op::Die(rng.usize(0, 8)),
            8..=9 => Op::Advance(*rng.pick(&[1u64, 1, 2, 3, 6])),
            10 => Op::Return(rng.usize(0, 4)),
            11 if rng.chance(0.5) => Op::TickWithGets(rng.usize(1, 4)),
            _ => Op::Tick,
        });
    }
    PoolCase { check_interval_s, idle_timeout_s, min_idle, ops }
}

/// all sequences of length <= 4 over a small alphabet (exhaustive-short)
fn short_cases() -> Vec<PoolCase> {
    let alphabet = [Op::Add, Op::Get, Op::Die(0), Op::Advance(2), Op::Tick, Op::Return(0)];
    let mut out = Vec::new();
    for (timeout, min_idle) in [(0u64, 0usize), (1, 0), (1, 1), (5, 2)] {
        let mut stack: Vec<Vec<Op>> = vec![vec![]];
        while let Some(p) = stack.pop() {
            if !p.is_empty() {
                out.push(PoolCase { check_interval_s: 1, idle_timeout_s: timeout, min_idle, ops: p.clone() });
            }
            if p.len() < 4 {
                for a in &alphabet {
                    let mut q = p.clone();
                    q.push(a.clone());
                    stack.push(q);
                }
            }
        }
    }
    out
}

pub fn run_pool_level(ctx: Ctx) -> Report {
    let n_random = ctx.tier.pick(200_000, 9_000_000);
    run::run_sharded("C12", ctx.shards, move |shard, nshards, rep| {
        let mut rng = Rng::new(ctx.seed.wrapping_mul(131).wrapping_add(shard as u64) ^ 0xC12);
        let mut all = short_cases();
        rep.note(format!("exhaustive-short part: {} operation sequences of length <= 4", all.len()));
        let shorts = all.len();
        for _ in 0..n_random / nshards {
            all.push(gen_case(&mut rng));
        }
        for (i, c) in all.iter().enumerate() {
            if i < shorts && i % nshards != shard {
                continue;
            }
            run::case_begin(&format!("C12 pool case {i}"));
            let c2 = c.clone();
            // forced yields inside Session::close() (scheduling points) make a reaper pass span several polls while
            // it holds the pool lock, so that concurrent gets really overlap it
            let guard = crate::sched::install(if i % 2 == 0 { crate::sched::SchedMode::Random { p: 0.5, max: 3 } } else { crate::sched::SchedMode::Observe }, i as u64);
            let r = run::vt_block_on_deadline(Duration::from_secs(1_000_000), async move { run_async(c2).await });
            drop(guard);
            rep.case(Some(hash_str(&c.describe().to_string())));
            match r {
                None => rep.violate("pool", "any", "case_stuck", "pool case did not finish", c.describe()),
                Some((problems, seen)) => {
                    for (k, v) in seen {
                        rep.add(k, v);
                    }
                    let mut dedup = std::collections::HashSet::new();
                    for (sym, det) in problems {
                        if dedup.insert(sym.clone()) {
                            rep.violate("pool", &format!("timeout{}_min{}", if c.idle_timeout_s == u64::MAX { "_never".to_string() } else { format!("{}s", c.idle_timeout_s.min(9)) }, c.min_idle.min(9)), &sym, det, c.describe());
                        }
                    }
                }
            }
            rep.seen("configurations", format!("interval{} timeout{} min{}", c.check_interval_s, c.idle_timeout_s, c.min_idle));
            if shard == 0 && rep.samples.len() < 3 && i >= shorts {
                rep.sample(c.describe());
            }
            for p in run::take_thread_panics() {
                if run::is_harness_panic(&p) {
                    rep.inconclusive(format!("harness panic: {p}"));
                } else {
                    rep.violate("pool", "any", "panic", p, c.describe());
                }
            }
        }
        run::case_end();
    })
}

pub fn meta() -> CheckMeta {
    CheckMeta {
        level: "exploration",
        rule: "pool level: all operation sequences of length <= 4 over {add, get, external death, advance 2 s, tick, return} x 4 configurations (exhaustive-short) plus random sequences of 2-24 operations over {add, get, k concurrent gets, k gets racing a reaper pass, external death, clock advance, manual tick, return-to-pool}, half of them with random forced yields at the scheduling points inside Session::close() (so that a reaper pass spans several polls while it holds the pool lock), with check_interval in {1,2,5} s and idle_timeout / min_idle in {0,1,2,5}, on a real SessionPool holding real client Sessions (MemPipes) under virtual time; after every step the property's rules are applied: get never returns a closed / non-idle / duplicate session and never comes back empty while an open idle session exists; a reaper pass (periodic task or manual) never closes an in-use session, never closes an idle session younger than the timeout, never leaves fewer than min(min_idle, before) open idle sessions; after a quiet idle_timeout + check_interval no surplus expired session is still open. Client level (real Client + Server over loopback TLS, 150-400 ms intervals): sessions carrying a live stream must never appear in a PoolReap event. distinct_nontrivial = distinct (configuration, operation sequence). Client level through the front-ends: SOCKS5 and HTTP CONNECT requests one direction of which has ended (application half-closed and the reply running, or target half-closed and the upload running) with 8 pieces 200 ms apart, idle_timeout 300 ms / check_interval 150 ms, min_idle 0-2 and two older idle sessions: every byte must arrive in both directions. 8% of the random pool cases use the largest idle timeout there is (never expire): nothing idle may ever be closed by housekeeping. Fresh process (sub-process per case): the first 2-8 overlapping requests a process ever makes, on an empty pool; everything is given back; as many overlapping requests again must need no new connection, and after idle_timeout (1.2 s) plus 15 reaper ticks with min_idle 0 no TLS connection may remain open.".into(),
        assumptions: vec!["'eventually' is decided as: within idle_timeout + check_interval + 1 s of virtual quiet time".into(), "client-level verdicts are logical (PoolReap events joined with the harness' table of live streams), not timing based".into()],
        floors: vec![("client_level_configurations", 3), ("live_streams_watched", 5), ("gets", 500), ("gets_racing_a_reaper_pass", 200), ("sessions_handed_out", 200), ("reaper_closes_observed", 100), ("manual_ticks", 100), ("quiet_periods", 500), ("half_closed_live_streams_watched", 6), ("fresh_process_bursts", 2)],
        exhaustive: false,
    }
}
