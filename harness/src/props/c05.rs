//! C05 — early client packets are shaped as the padding scheme prescribes.

use super::pad::{self, PadCase, PadObs};
use crate::prng::Rng;
use crate::refcodec;
use crate::refscheme::{self, Entry, GenCfg, Item, Scheme};
use crate::report::{CheckMeta, Report, hash_str};
use crate::run::{self, Ctx};
use serde_json::json;
use sha2::{Digest, Sha256};

/// the C05 oracle; `scheme_for_packet(k)` allows C19 to switch schemes mid-session
pub fn judge(case: &PadCase, obs: &PadObs, rep: &mut Report, class: &str) {
    // --- preamble = packet 0
    let pre = &obs.preamble;
    let want_hash = Sha256::digest(case.password.as_bytes());
    let line0 = case.scheme.items(0).unwrap_or_default();
    let (lo, hi) = match line0.first() {
        Some(Item::Range(lo, hi)) => (*lo, *hi),
        _ => (0, 0),
    };
    if pre.len() < 34 || pre[..32] != want_hash[..] {
        rep.violate(class, "preamble", "malformed", format!("authentication preamble has {} bytes / wrong hash", pre.len()), case.describe());
    } else {
        let l = ((pre[32] as u64) << 8) | pre[33] as u64;
        rep.add("preambles_checked", 1);
        if l < lo || l > hi {
            rep.violate(class, "preamble", "padding0_length_not_from_line0", format!("preamble announces {l} padding bytes; line 0 of the scheme allows {lo}..{hi}"), case.describe());
        } else if pre.len() as u64 != 34 + l {
            rep.violate(class, "preamble", "padding0_bytes_differ_from_announced", format!("preamble announces {l} padding bytes but carries {}", pre.len() - 34), case.describe());
        }
    }
    if obs.stuck.is_some() || obs.packets.iter().any(|p| p.error.is_some()) {
        return; // sender failures are C04's business
    }
    // --- session packets k = 1, 2, ...
    for (i, p) in obs.packets.iter().enumerate() {
        let k = (i + 1) as u32;
        let r = if k < case.scheme.stop {
            match case.scheme.items(k) {
                Some(items) => {
                    rep.add("packets_checked_against_a_scheme_line", 1);
                    refscheme::accept_packet(&items, p.payload_len, &p.writes).map(|pad| {
                        rep.add("padding_bytes_explained", pad as u64);
                    })
                }
                None => refscheme::accept_unpadded(p.payload_len, &p.writes),
            }
        } else {
            rep.add("packets_checked_after_stop", 1);
            refscheme::accept_unpadded(p.payload_len, &p.writes)
        };
        if let Err(rej) = r {
            let cause = if k < case.scheme.stop { "packet_below_stop" } else { "packet_at_or_after_stop" };
            // does the previous line explain it? (diagnostic only)
            let prev = if k >= 1 { case.scheme.items(k - 1).map(|it| refscheme::accept_packet(&it, p.payload_len, &p.writes).is_ok()).unwrap_or(false) } else { false };
            rep.violate(
                class,
                cause,
                "write_sizes_not_explained_by_scheme_line",
                format!("session packet k={k} (payload {} bytes, stop={}) went out as writes {:?}; line {k} = {:?} cannot produce that: {} (write #{}){}", p.payload_len, case.scheme.stop, p.writes, case.scheme.items(k), rej.reason, rej.write_index, if prev { format!(" — line {} would explain it", k - 1) } else { String::new() }),
                case.describe(),
            );
            break;
        }
    }
    // --- the server never pads
    let (frames, _) = refcodec::parse_all(&obs.s2c_wire);
    rep.add("server_frames_checked", frames.len() as u64);
    if let Some(f) = frames.iter().find(|f| f.cmd == refcodec::WASTE) {
        rep.violate(class, "server_side", "padding_emitted_by_server", format!("server->client direction carries a padding frame of {} bytes", f.data.len()), case.describe());
    }
}

pub fn gen_case(rng: &mut Rng) -> PadCase {
    let cfg = GenCfg { max_size: if rng.chance(0.2) { 65535 } else { 3000 }, boundary_heavy: false, allow_junk: true, sane_line0: true };
    let mut scheme: Scheme = if rng.chance(0.1) { Scheme::default_scheme() } else { refscheme::gen_scheme(rng, &cfg) };
    if rng.chance(0.1) {
        // missing / empty line 0 => no authentication padding
        if rng.chance(0.5) {
            scheme.lines.remove(&0);
        } else {
            scheme.lines.insert(0, vec![]);
        }
    }
    let hints: Vec<u64> = scheme.lines.values().flatten().filter_map(|e| if let Entry::Range { lo, hi, .. } = e { Some(rng.range(*lo, *hi)) } else { None }).collect();
    let nops = rng.usize(1, scheme.stop as usize + 3);
    let ops = pad::gen_ops(rng, nops, 65535, &hints);
    PadCase { seed: rng.next(), scheme, pre_opens: if rng.chance(0.25) { rng.usize(1, 3) } else { 0 }, ops, password: format!("pw{}", rng.below(1000)) }
}

pub fn run(ctx: Ctx) -> Report {
    let n_cases: usize = ctx.tier.pick(1600, 80_000);
    run::run_sharded("C05", ctx.shards, move |shard, nshards, rep| {
        let mut rng = Rng::new(ctx.seed.wrapping_mul(0x7331).wrapping_add(shard as u64) ^ 0xC05);
        for i in 0..n_cases / nshards {
            let mut case = gen_case(&mut rng);
            if i == 0 {
                case.scheme = Scheme::default_scheme(); // the deployed default is always exercised
            }
            run::case_begin(&format!("C05 shard {shard} case {i}"));
            let obs = pad::run_case(&case);
            let shaped = obs.packets.iter().any(|p| p.writes.len() > 1 || p.writes.first().is_some_and(|w| *w != p.payload_len));
            rep.case(if shaped { Some(hash_str(&format!("{}|{:?}", case.scheme.text(), obs.packets.iter().map(|p| (p.payload_len, p.writes.clone())).collect::<Vec<_>>()))) } else { None });
            rep.add("packets", obs.packets.len() as u64);
            judge(&case, &obs, rep, "shape");
            for p in run::take_thread_panics() {
                if run::is_harness_panic(&p) {
                    rep.inconclusive(format!("harness panic: {p}"));
                }
            }
            if shard == 0 && i < 3 {
                rep.sample(json!({"scheme": case.scheme.text(), "preamble_len": obs.preamble.len(), "packets": obs.packets.iter().map(|p| json!({"payload": p.payload_len, "writes": p.writes})).collect::<Vec<_>>()}));
            }
        }
        run::case_end();
    })
}

pub fn meta() -> CheckMeta {
    CheckMeta {
        level: "exploration",
        rule: "each case = a generated scheme (sizes <= 65535; incl. the built-in default, missing/empty line 0, junk entries, check marks, reversed ranges, any stop) driving the real send_authentication and a real client Session on a MemPipe that accepts whole writes (one write_all = one record); a single submitter issues stop+3 packets whose payload sizes are placed around the scheme's own sizes (L < s-7, s-7 <= L <= s, L > s, L > sum) ; the preamble (hash, announced length, bytes carried) and the write-length sequence of every session packet k are checked by a nondeterministic reference acceptor for line k (unpadded for k >= stop or a missing line); the server->client recording must contain no command-0 frame. distinct_nontrivial = distinct (scheme, payload sizes, observed write sizes) with at least one shaped packet.".into(),
        assumptions: vec!["write-call boundaries are observed because the MemPipe accepts every write whole".into(), "padding byte values are not judged, only sizes".into(), "single submitter here; concurrent writers are covered by the packet-assignment variant".into()],
        floors: vec![("packets_checked_against_a_scheme_line", 1000), ("packets_checked_after_stop", 300), ("preambles_checked", 500), ("padding_bytes_explained", 10_000)],
        exhaustive: false,
    }
}
