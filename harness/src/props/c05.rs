//! C05 — early client packets are shaped as the padding scheme prescribes.

use super::pad::{self, PadCase, PadObs};
use crate::prng::Rng;
use crate::refcodec;
use crate::refscheme::{self, Entry, GenCfg, Item, Scheme};
use crate::report::{CheckMeta, Report, hash_str};
use crate::run::{self, Ctx};
use serde_json::json;
use sha2::{Digest, Sha256};

/// the C05 oracle; `scheme_for_packet(k)` allows C19 to switch schemes mid-session
pub fn judge(case: &PadCase, obs: &PadObs, rep: &mut Report, class: &str) {
    // --- preamble = packet 0
    let pre = &obs.preamble;
    let want_hash = Sha256::digest(case.password.as_bytes());
    let line0 = case.scheme.items(0).unwrap_or_default();
    let (lo, hi) = match line0.first() {
        Some(Item::Range(lo, hi)) => (*lo, *hi),
        _ => (0, 0),
    };
    if pre.len() < 34 || pre[..32] != want_hash[..] {
        rep.violate(class, "preamble", "malformed", format!("authentication preamble has {} bytes / wrong hash", pre.len()), case.describe());
    } else {
        let l = ((pre[32] as u64) << 8) | pre[33] as u64;
        rep.add("preambles_checked", 1);
        if l < lo || l > hi {
            rep.violate(class, "preamble", "padding0_length_not_from_line0", format!("preamble announces {l} padding bytes; line 0 of the scheme allows {lo}..{hi}"), case.describe());
        } else if pre.len() as u64 != 34 + l {
            rep.violate(class, "preamble", "padding0_bytes_differ_from_announced", format!("preamble announces {l} padding bytes but carries {}", pre.len() - 34), case.describe());
        }
    }
    if obs.stuck.is_some() || obs.packets.iter().any(|p| p.error.is_some()) {
        return; // sender failures are C04's business
    }
    // --- session packets k = 1, 2, ...
    for (i, p) in obs.packets.iter().enumerate() {
        let k = (i + 1) as u32;
        let r = if k < case.scheme.stop {
            match case.scheme.items(k) {
                Some(items) => {
                    rep.add("packets_checked_against_a_scheme_line", 1);
                    refscheme::accept_packet(&items, p.payload_len, &p.writes).map(|pad| {
                        rep.add("padding_bytes_explained", pad as u64);
                    })
                }
                None => refscheme::accept_unpadded(p.payload_len, &p.writes),
            }
        } else {
            rep.add("packets_checked_after_stop", 1);
            refscheme::accept_unpadded(p.payload_len, &p.writes)
        };
        if let Err(rej) = r {
            let cause = if k < case.scheme.stop { "packet_below_stop" } else { "packet_at_or_after_stop" };
            // does the previous line explain it? (diagnostic only)
            let prev = if k >= 1 { case.scheme.items(k - 1).map(|it| refscheme::accept_packet(&it, p.payload_len, &p.writes).is_ok()).unwrap_or(false) } else { false };
            rep.violate(
                class,
                cause,
                "write_sizes_not_explained_by_scheme_line",
                format!("session packet k={k} (payload {} bytes, stop={}) went out as writes {:?}; line {k} = {:?} cannot produce that: {} (write #{}){}", p.payload_len, case.scheme.stop, p.writes, case.scheme.items(k), rej.reason, rej.write_index, if prev { format!(" — line {} would explain it", k - 1) } else { String::new() }),
                case.describe(),
            );
            break;
        }
    }
    // --- the server never pads
    let (frames, _) = refcodec::parse_all(&obs.s2c_wire);
    rep.add("server_frames_checked", frames.len() as u64);
    if let Some(f) = frames.iter().find(|f| f.cmd == refcodec::WASTE) {
        rep.violate(class, "server_side", "padding_emitted_by_server", format!("server->client direction carries a padding frame of {} bytes", f.data.len()), case.describe());
    }
}

pub fn gen_case(rng: &mut Rng) -> PadCase {
    let cfg = GenCfg { max_size: if rng.chance(0.2) { 65535 } else { 3000 }, boundary_heavy: false, allow_junk: true, sane_line0: true };
    let mut scheme: Scheme = if rng.chance(0.1) { Scheme::default_scheme() } else { refscheme::gen_scheme(rng, &cfg) };
    if rng.chance(0.1) {
        // missing / empty line 0 => no authentication padding
        if rng.chance(0.5) {
            scheme.lines.remove(&0);
        } else {
            scheme.lines.insert(0, vec![]);
        }
    }
    let hints: Vec<u64> = scheme.lines.values().flatten().filter_map(|e| if let Entry::Range { lo, hi, .. } = e { Some(rng.range(*lo, *hi)) } else { None }).collect();
    let nops = rng.usize(1, scheme.stop as usize + 3);
    let ops = pad::gen_ops(rng, nops, 65535, &hints);
    PadCase { seed: rng.next(), scheme, pre_opens: if rng.chance(0.25) { rng.usize(1, 3) } else { 0 }, ops, password: format!("pw{}", rng.below(1000)) }
}

pub fn run(ctx: Ctx) -> Report {
    let n_cases: usize = ctx.tier.pick(480_000, 6_000_000);
    run::run_sharded("C05", ctx.shards, move |shard, nshards, rep| {
        let mut rng = Rng::new(ctx.seed.wrapping_mul(0x7331).wrapping_add(shard as u64) ^ 0xC05);
        for i in 0..n_cases / nshards {
            let mut case = gen_case(&mut rng);
            if i == 0 {
                case.scheme = Scheme::default_scheme(); // the deployed default is always exercised
            }
            run::case_begin(&format!("C05 shard {shard} case {i}"));
            let obs = pad::run_case(&case);
            let shaped = obs.packets.iter().any(|p| p.writes.len() > 1 || p.writes.first().is_some_and(|w| *w != p.payload_len));
            rep.case(if shaped { Some(hash_str(&format!("{}|{:?}", case.scheme.text(), obs.packets.iter().map(|p| (p.payload_len, p.writes.clone())).collect::<Vec<_>>()))) } else { None });
            rep.add("packets", obs.packets.len() as u64);
            judge(&case, &obs, rep, "shape");
            for p in run::take_thread_panics() {
                if run::is_harness_panic(&p) {
                    rep.inconclusive(format!("harness panic: {p}"));
                }
            }
            if shard == 0 && i < 3 {
                rep.sample(json!({"scheme": case.scheme.text(), "preamble_len": obs.preamble.len(), "packets": obs.packets.iter().map(|p| json!({"payload": p.payload_len, "writes": p.writes})).collect::<Vec<_>>()}));
            }
        }
        run_concurrent(ctx, rep, shard, nshards);
        run::case_end();
    })
}

pub fn meta() -> CheckMeta {
    CheckMeta {
        level: "exploration",
        rule: "each case = a generated scheme (sizes <= 65535; incl. the built-in default, missing/empty line 0, junk entries, check marks, reversed ranges, any stop) driving the real send_authentication and a real client Session on a MemPipe that accepts whole writes (one write_all = one record); a single submitter issues stop+3 packets whose payload sizes are placed around the scheme's own sizes (L < s-7, s-7 <= L <= s, L > s, L > sum) ; the preamble (hash, announced length, bytes carried) and the write-length sequence of every session packet k are checked by a nondeterministic reference acceptor for line k (unpadded for k >= stop or a missing line); the server->client recording must contain no command-0 frame. Concurrent part: 2-4 tasks write at the same time for 1-3 rounds under random forced yields at the scheduling points; the j-th packet ON THE WIRE must be accepted by line j (the packet index may not be drawn in one order and the transport reached in another). End to end: the real Client (client.rs: authentication with its configured scheme, Settings + SYN + destination batched into the first packet) against the real Server behind a TCP relay that records the length of every TLS record, i.e. what an on-path observer sees; destinations IPv4 / IPv6 / names of 3-60 characters (different first-packet payloads), then stop+1 echoed chunks sized around the scheme's own sizes; the client->server application record sizes must be explainable as preamble (34 + a size of line 0), then packet k by line k (unpadded from stop on); while echoing, the server->client records must carry exactly the echoed bytes plus 7 bytes per frame. distinct_nontrivial = distinct (scheme, payload sizes, observed write sizes) with at least one shaped packet, plus distinct concurrent interleavings, plus distinct e2e (scheme, record sizes). End-to-end scheme-push variant (a quarter of the e2e cases): client configured with scheme A, server with B; the first connection is judged by A up to its first packet, is closed, and the connection dialled next must be explained by B from its preamble on.".into(),
        assumptions: vec!["write-call boundaries are observed because the MemPipe accepts every write whole".into(), "padding byte values are not judged, only sizes".into(), "concurrent part: 2-4 writers x 1-3 rounds under random forced yields on a ladder scheme (distinct size range per line); packets are delimited on the wire by their payload frames".into(), "end-to-end part: one TLS record per transport write below 16 KiB (rustls neither merges nor splits such writes), TLS 1.3 AEAD overhead of 17 bytes calibrated on the client's Finished record (otherwise inconclusive); the first session packet is the batch Settings + SYN + destination, as the anchored mechanism says; the session's own start-up keep-alive request (7 bytes) may land at any packet position; record sizes are cut into packets nondeterministically (any cut that the lines accept counts)".into()],
        floors: vec![("packets_checked_against_a_scheme_line", 1000), ("packets_checked_after_stop", 300), ("preambles_checked", 500), ("padding_bytes_explained", 10_000), ("concurrent_packets_checked", 500), ("e2e_cases_judged", 100), ("e2e_records_explained", 600), ("e2e_server_records_checked", 200), ("e2e_push_cases", 20)],
        exhaustive: false,
    }
}

// ---------------------------------------------------------------------------
// concurrent writers racing for the packet index: the j-th packet ON THE WIRE must be shaped by line j

fn ladder_scheme(stop: u32) -> Scheme {
    // distinct, non-overlapping ranges per line so that a write length identifies the line that shaped it
    let mut lines = std::collections::BTreeMap::new();
    lines.insert(0, vec![Entry::Range { lo: 20, hi: 40, reversed: false }]);
    for k in 1..stop {
        let lo = 150 + 200 * k as u64;
        lines.insert(k, vec![Entry::Range { lo, hi: lo + 60, reversed: false }]);
    }
    Scheme { stop, lines, spaced: false }
}

/// returns (problems, packets checked)
async fn concurrent_async(scheme: Scheme, writers: usize, rounds: usize, seed: u64) -> (Vec<String>, u64) {
    use crate::engine;
    use crate::mempipe::{PipeCfg, pipe};
    use bytes::Bytes;
    let mut problems = Vec::new();
    let padding = engine::padding_from(&scheme.text()).expect("scheme");
    let (c2s_w, c2s_r, c2s) = pipe(PipeCfg::plain());
    let (s2c_w, s2c_r, _s2c) = pipe(PipeCfg::plain());
    let (_server, mut ns, _t) = engine::start_server(c2s_r, s2c_w, padding.clone());
    tokio::spawn(async move { while ns.recv().await.is_some() {} });
    let Ok(client) = engine::start_client(s2c_r, c2s_w, padding, None).await else { return (vec!["start failed".into()], 0) };
    // packet 1: the first request (Settings + SYN + PSH), sequential
    let Ok((st, _rx)) = engine::open_like_client(&client, Bytes::from_static(b"dest")).await else { return (vec!["open failed".into()], 0) };
    let mut k_wire: u32 = 1;
    let mut checked = 0u64;
    for round in 0..rounds {
        let mark_off = c2s.accepted();
        let mark_w = c2s.with_log(|l| l.writes.len());
        let mut hs = Vec::new();
        for w in 0..writers {
            let c = client.clone();
            let sid = st.id();
            // unique small payloads (so every packet is payload + padding up to its line's size)
            let len = 3 + w + 4 * round;
            let mut data = vec![0xA0 + w as u8; len];
            data[0] = round as u8;
            hs.push(tokio::spawn(async move { c.write_data_frame(sid, Bytes::from(data)).await.is_ok() }));
        }
        for h in hs {
            if !matches!(tokio::time::timeout(std::time::Duration::from_secs(600), h).await, Ok(Ok(true))) {
                problems.push("a concurrent writer failed or blocked".to_string());
                return (problems, checked);
            }
        }
        tokio::time::sleep(std::time::Duration::from_secs(1)).await;
        let (bytes, writes): (Vec<u8>, Vec<(u64, usize)>) = c2s.with_log(|l| (l.bytes[mark_off as usize..].to_vec(), l.writes[mark_w..].iter().map(|w| (w.off - mark_off, w.accepted)).collect()));
        let (frames, consumed) = refcodec::parse_all(&bytes);
        if consumed != bytes.len() {
            problems.push("wire does not parse".into());
            return (problems, checked);
        }
        // packets in wire order: each starts at a payload (PSH) frame
        let starts: Vec<(usize, usize)> = frames.iter().filter(|f| f.cmd == refcodec::PSH).map(|f| (f.off, f.total())).collect();
        if starts.len() != writers {
            problems.push(format!("{} data frames on the wire, {writers} were submitted", starts.len()));
            return (problems, checked);
        }
        for (i, (start, payload)) in starts.iter().enumerate() {
            let end = starts.get(i + 1).map(|s| s.0).unwrap_or(bytes.len());
            let ws: Vec<usize> = writes.iter().filter(|(o, _)| (*o as usize) >= *start && (*o as usize) < end).map(|(_, n)| *n).collect();
            if ws.iter().sum::<usize>() != end - start {
                problems.push(format!("a transport write spans two packets (packet bytes {}, writes {:?})", end - start, ws));
                return (problems, checked);
            }
            k_wire += 1;
            let res = if k_wire < scheme.stop {
                match scheme.items(k_wire) {
                    Some(items) => refscheme::accept_packet(&items, *payload, &ws).map(|_| ()),
                    None => refscheme::accept_unpadded(*payload, &ws),
                }
            } else {
                refscheme::accept_unpadded(*payload, &ws)
            };
            checked += 1;
            if let Err(rej) = res {
                let fits: Vec<u32> = (1..scheme.stop).filter(|k| scheme.items(*k).is_some_and(|it| refscheme::accept_packet(&it, *payload, &ws).is_ok())).collect();
                problems.push(format!("with {writers} concurrent writers, packet #{k_wire} on the wire (payload {payload} bytes) went out as writes {:?}; line {k_wire} cannot produce that ({}); lines that would: {:?}", ws, rej.reason, fits));
                return (problems, checked);
            }
        }
    }
    let _ = seed;
    (problems, checked)
}

pub fn run_concurrent(ctx: Ctx, rep: &mut Report, shard: usize, nshards: usize) {
    let n = ctx.tier.pick(80_000, 1_000_000) / nshards;
    let mut rng = Rng::new(ctx.seed.wrapping_mul(0xC0FF).wrapping_add(shard as u64));
    for i in 0..n {
        let writers = rng.usize(2, 4);
        let rounds = rng.usize(1, 3);
        let stop = (2 + writers * rounds + rng.usize(0, 2)) as u32;
        let scheme = ladder_scheme(stop);
        let seed = rng.next();
        run::case_begin(&format!("C05 concurrent case {i}"));
        let guard = crate::sched::install(crate::sched::SchedMode::Random { p: *rng.pick(&[0.2, 0.5, 0.8]), max: 4 }, seed);
        let sc = scheme.clone();
        let r = run::vt_block_on_deadline(std::time::Duration::from_secs(100_000), async move { concurrent_async(sc, writers, rounds, seed).await });
        let il = guard.state.borrow().interleaving_id();
        drop(guard);
        rep.case(Some(hash_str(&format!("conc:{writers}:{rounds}:{il}"))));
        rep.seen("concurrent_interleavings", format!("{il:016x}"));
        let case = json!({"kind": "c05-concurrent", "writers": writers, "rounds": rounds, "stop": stop, "sched_seed": seed.to_string()});
        match r {
            None => rep.violate("shape", "concurrent_writers", "case_stuck", "concurrent case did not finish", case.clone()),
            Some((problems, checked)) => {
                rep.add("concurrent_packets_checked", checked);
                for p in problems {
                    rep.violate("shape", "concurrent_writers", "wire_packet_not_shaped_by_its_line", p, case.clone());
                }
            }
        }
        for p in run::take_thread_panics() {
            if !run::is_harness_panic(&p) {
                rep.violate("shape", "concurrent_writers", "panic", p, case.clone());
            }
        }
    }
}

// ---------------------------------------------------------------------------
// end to end: the real Client behind a relay that records TLS record lengths — what an on-path
// observer sees. One TLS record per transport write (rustls never merges writes and, below 16 KiB,
// never splits one), so plaintext write sizes are record lengths minus the AEAD overhead.

#[derive(Clone, Debug)]
enum Spec {
    /// authentication preamble: 34 + l bytes, l drawn from line 0 (any write boundaries)
    Preamble(u64, u64),
    Shaped(Vec<Item>, usize),
    Unpadded(usize),
}

fn spec_accepts(s: &Spec, seg: &[usize]) -> bool {
    match s {
        Spec::Preamble(lo, hi) => {
            let t = seg.iter().sum::<usize>() as u64;
            !seg.is_empty() && t >= 34 + lo && t <= 34 + hi
        }
        Spec::Shaped(items, p) => refscheme::accept_packet(items, *p, seg).is_ok(),
        Spec::Unpadded(p) => refscheme::accept_unpadded(*p, seg).is_ok(),
    }
}

/// Is there a way to cut the observed write sizes into consecutive segments, one per packet, such that
/// every packet's segment is accepted by its spec? Returns Err((packets explained, writes explained)).
fn explain(specs: &[Spec], writes: &[usize], allow_rest: bool) -> Result<(), (usize, usize)> {
    let n = writes.len();
    let mut reach = vec![vec![false; n + 1]; specs.len() + 1];
    reach[0][0] = true;
    let mut best = (0, 0);
    for k in 0..specs.len() {
        for i in 0..=n {
            if !reach[k][i] {
                continue;
            }
            for j in i + 1..=n.min(i + 40) {
                if spec_accepts(&specs[k], &writes[i..j]) {
                    reach[k + 1][j] = true;
                    if (k + 1, j) > best {
                        best = (k + 1, j);
                    }
                }
            }
        }
    }
    if reach[specs.len()][n] || (allow_rest && reach[specs.len()].iter().any(|r| *r)) { Ok(()) } else { Err(best) }
}

/// length of the Settings frame the real client session sends (taken from the real code on an
/// in-memory transport, so that a changed client string does not need a change here)
fn measured_settings_frame_len() -> Option<usize> {
    use crate::engine;
    use crate::mempipe::{PipeCfg, pipe};
    run::vt_block_on_deadline(std::time::Duration::from_secs(1000), async {
        let (c2s_w, c2s_r, c2s) = pipe(PipeCfg::plain());
        let (s2c_w, s2c_r, _s2c) = pipe(PipeCfg::plain());
        let (_server, mut ns, _t) = engine::start_server(c2s_r, s2c_w, engine::no_padding());
        tokio::spawn(async move { while ns.recv().await.is_some() {} });
        let client = engine::start_client(s2c_r, c2s_w, engine::no_padding(), None).await.ok()?;
        let _ = engine::open_like_client(&client, bytes::Bytes::from_static(b"x")).await.ok()?;
        tokio::time::sleep(std::time::Duration::from_secs(1)).await;
        let bytes = c2s.with_log(|l| l.bytes.clone());
        let (frames, _) = refcodec::parse_all(&bytes);
        frames.iter().find(|f| f.cmd == refcodec::SETTINGS).map(|f| f.total())
    })
    .flatten()
}

#[derive(Clone, Debug)]
struct E2eCase {
    idx: usize,
    /// the client's own scheme when it differs from the server's (`scheme`): the server then pushes `scheme`
    client_scheme: Option<Scheme>,
    scheme: Scheme,
    host: String,
    chunks: Vec<usize>,
}

struct E2eOut {
    /// push variant: records of the first connection (judged by the client's own scheme up to packet 1)
    first_conn: Option<Vec<usize>>,
    c2s: Vec<usize>,
    handshake_ok: bool,
    note: Option<String>,
    s2c_delta: (usize, usize), // plaintext bytes, records during the echo phase
    echoed: usize,
}

const AEAD_OVERHEAD: usize = 17; // TLS 1.3: 1 byte inner content type + 16 byte tag

/// client->server application plaintext sizes of one recorded connection (handshake flight stripped) and
/// whether the flight looked as calibrated
fn app_records(rec: &crate::netkit::ConnRec) -> (Vec<usize>, bool) {
    let c2s: Vec<crate::netkit::TlsRec> = rec.c2s.lock().unwrap().clone();
    let mut i = 0;
    while i < c2s.len() && (c2s[i].typ == 22 || c2s[i].typ == 20) {
        i += 1;
    }
    let ok = i >= 1 && i < c2s.len() && c2s[i].typ == 23 && (c2s[i].len == 36 + AEAD_OVERHEAD || c2s[i].len == 52 + AEAD_OVERHEAD);
    (c2s[(i + 1).min(c2s.len())..].iter().filter(|r| r.typ == 23).map(|r| r.len.saturating_sub(AEAD_OVERHEAD)).collect(), ok)
}

/// Push variant: the client is configured with scheme A, the server with scheme B. Session 1 announces A and
/// is sent B. After it has been closed the client dials session 2, which must be shaped by B from its
/// authentication preamble on. Returns (records of connection 1, records of connection 2, handshakes ok).
async fn e2e_push_case(c: &E2eCase, client_scheme: &Scheme, tport: u16) -> Result<(Vec<usize>, Vec<usize>, bool), String> {
    use crate::engine;
    use crate::netkit;
    use bytes::Bytes;
    use std::time::Duration;
    let pad_b = engine::padding_from(&c.scheme.text()).map_err(|e| format!("scheme rejected: {e}"))?;
    let pad_a = engine::padding_from(&client_scheme.text()).map_err(|e| format!("scheme rejected: {e}"))?;
    let (server_addr, sh) = netkit::start_server(netkit::PASSWORD, pad_b).await.ok_or("cannot start server")?;
    let relay = netkit::start_rec_relay(server_addr).await.ok_or("cannot start relay")?;
    let client = netkit::make_client(&relay.addr, netkit::PASSWORD, pad_a, anytls_rs::client::SessionPoolConfig { check_interval: Duration::from_secs(3600), idle_timeout: Duration::from_secs(7200), min_idle_sessions: 0 });
    let r = async {
        let mut recs = Vec::new();
        for round in 0..2usize {
            let (stream, session) = tokio::time::timeout(Duration::from_secs(10), client.create_proxy_stream((c.host.clone(), tport))).await.map_err(|_| "open did not return in 10 s".to_string())?.map_err(|e| format!("open failed: {e}"))?;
            let chunks: &[usize] = if round == 0 { &c.chunks[..1] } else { &c.chunks };
            for (i, n) in chunks.iter().enumerate() {
                let data: Vec<u8> = (0..*n).map(|j| (j as u8) ^ (i as u8).wrapping_mul(37)).collect();
                tokio::time::timeout(Duration::from_secs(20), session.write_data_frame(stream.id(), Bytes::from(data.clone()))).await.map_err(|_| "write blocked 20 s".to_string())?.map_err(|e| format!("write failed: {e}"))?;
                let mut got = vec![0u8; *n];
                let mut rd = stream.reader().lock().await;
                tokio::time::timeout(Duration::from_secs(20), rd.read_exact(&mut got)).await.map_err(|_| format!("echo of chunk {i} did not come back in 20 s"))?.map_err(|e| format!("echo read failed: {e}"))?;
            }
            tokio::time::sleep(Duration::from_millis(40)).await;
            let conns = relay.conns.lock().unwrap().clone();
            if conns.len() != round + 1 {
                return Err(format!("{} TLS connections after request {} (the first session had been closed)", conns.len(), round + 1));
            }
            recs.push(app_records(&conns[round]));
            // the echo proves that everything the server sent before it (the pushed scheme included) has been processed
            let _ = tokio::time::timeout(Duration::from_secs(5), session.close()).await;
            tokio::time::sleep(Duration::from_millis(20)).await;
        }
        let ok = recs[0].1 && recs[1].1;
        Ok((recs[0].0.clone(), recs[1].0.clone(), ok))
    }
    .await;
    sh.abort();
    drop(relay);
    r
}

async fn e2e_case(c: &E2eCase, tport: u16) -> Result<E2eOut, String> {
    use crate::engine;
    use crate::netkit;
    use bytes::Bytes;
    use std::time::Duration;
    let padding = engine::padding_from(&c.scheme.text()).map_err(|e| format!("scheme rejected: {e}"))?;
    let (server_addr, sh) = netkit::start_server(netkit::PASSWORD, padding.clone()).await.ok_or("cannot start server")?;
    let relay = netkit::start_rec_relay(server_addr).await.ok_or("cannot start relay")?;
    let client = netkit::make_client(&relay.addr, netkit::PASSWORD, padding, anytls_rs::client::SessionPoolConfig { check_interval: Duration::from_secs(3600), idle_timeout: Duration::from_secs(7200), min_idle_sessions: 0 });
    let r = async {
        let (stream, session) = tokio::time::timeout(Duration::from_secs(10), client.create_proxy_stream((c.host.clone(), tport))).await.map_err(|_| "open did not return in 10 s".to_string())?.map_err(|e| format!("open failed: {e}"))?;
        tokio::time::sleep(Duration::from_millis(40)).await;
        let rec = relay.conns.lock().unwrap().first().cloned().ok_or("relay saw no connection")?;
        let s2c_mark = rec.s2c.lock().unwrap().len();
        let mut echoed = 0usize;
        for (i, n) in c.chunks.iter().enumerate() {
            let data: Vec<u8> = (0..*n).map(|j| (j as u8) ^ (i as u8).wrapping_mul(37)).collect();
            tokio::time::timeout(Duration::from_secs(20), session.write_data_frame(stream.id(), Bytes::from(data.clone()))).await.map_err(|_| "write blocked 20 s".to_string())?.map_err(|e| format!("write failed: {e}"))?;
            let mut got = vec![0u8; *n];
            let mut rd = stream.reader().lock().await;
            tokio::time::timeout(Duration::from_secs(20), rd.read_exact(&mut got)).await.map_err(|_| format!("echo of chunk {i} ({n} bytes) did not come back in 20 s"))?.map_err(|e| format!("echo read failed: {e}"))?;
            if got != data {
                return Err(format!("echo of chunk {i} differs"));
            }
            echoed += n;
        }
        tokio::time::sleep(Duration::from_millis(40)).await;
        if relay.conns.lock().unwrap().len() != 1 {
            return Err(format!("client used {} TLS connections for one request", relay.conns.lock().unwrap().len()));
        }
        if let Some(g) = rec.garbage.lock().unwrap().first() {
            return Err(format!("relay could not parse a TLS record header: {g}"));
        }
        let c2s: Vec<netkit::TlsRec> = rec.c2s.lock().unwrap().clone();
        let s2c: Vec<netkit::TlsRec> = rec.s2c.lock().unwrap()[s2c_mark..].to_vec();
        // strip the client's handshake flight: ClientHello (22), optional CCS (20), Finished (first 23)
        let mut i = 0;
        while i < c2s.len() && (c2s[i].typ == 22 || c2s[i].typ == 20) {
            i += 1;
        }
        let handshake_ok = i >= 1 && i < c2s.len() && c2s[i].typ == 23 && (c2s[i].len == 36 + AEAD_OVERHEAD || c2s[i].len == 52 + AEAD_OVERHEAD);
        let app: Vec<usize> = c2s[(i + 1).min(c2s.len())..].iter().filter(|r| r.typ == 23).map(|r| r.len.saturating_sub(AEAD_OVERHEAD)).collect();
        let s2c_bytes: usize = s2c.iter().map(|r| r.len.saturating_sub(AEAD_OVERHEAD)).sum();
        let out = E2eOut { first_conn: None, c2s: app, handshake_ok, note: None, s2c_delta: (s2c_bytes, s2c.len()), echoed };
        let _ = tokio::time::timeout(Duration::from_secs(5), session.close()).await;
        Ok(out)
    }
    .await;
    sh.abort();
    drop(relay);
    r
}

pub fn run_e2e(ctx: Ctx) -> Report {
    use crate::netkit::{self, Target};
    use std::sync::{Arc, Mutex};
    let n = ctx.tier.pick(160, 4000);
    let seed = ctx.seed;
    let mut rep0 = Report::new("C05");
    let Some(settings_len) = measured_settings_frame_len() else {
        rep0.inconclusive("could not measure the client's Settings frame");
        return rep0;
    };
    run::case_begin("C05 e2e");
    let mut rep = run::rt_block_on(8, async move {
        let mut rep = Report::new("C05");
        let Some(dns) = netkit::start_fake_dns().await else {
            rep.inconclusive("cannot start fake DNS");
            return rep;
        };
        if !netkit::use_fake_dns(&dns).await {
            rep.inconclusive("cannot install fake DNS");
            return rep;
        }
        let (Some(mut t4), Some(mut t6)) = (Target::bind_v4(0).await, Target::bind_v6_loopback(0).await) else {
            rep.inconclusive("cannot bind targets");
            return rep;
        };
        // same port on v4 wildcard and ::1 is not guaranteed: one target per family
        let (p4, p6) = (t4.port, t6.port);
        tokio::spawn(async move {
            while let Some(a) = t4.rx.recv().await {
                netkit::spawn_echo(a.stream);
            }
        });
        tokio::spawn(async move {
            while let Some(a) = t6.rx.recv().await {
                netkit::spawn_echo(a.stream);
            }
        });
        let mut rng = Rng::new(seed ^ 0xE05);
        let mut cases = Vec::new();
        for idx in 0..n {
            let cfg = GenCfg { max_size: 3000, boundary_heavy: false, allow_junk: true, sane_line0: true };
            let mut scheme = if idx % 8 == 0 { Scheme::default_scheme() } else { refscheme::gen_scheme(&mut rng, &cfg) };
            if rng.chance(0.08) {
                scheme.lines.remove(&0);
            }
            let host = match rng.below(4) {
                0 => "127.0.0.1".to_string(),
                1 => "::1".to_string(),
                2 => format!("127.{}.{}.{}", rng.range(1, 250), rng.range(0, 255), rng.range(1, 254)),
                _ => {
                    let l = rng.usize(3, 60);
                    let mut s: String = (0..l).map(|_| (b'a' + rng.below(26) as u8) as char).collect();
                    s.push_str(".e2e.test");
                    s
                }
            };
            // sizes around the scheme's own sizes, small enough for one TLS record per write
            let hints: Vec<u64> = scheme.lines.values().flatten().filter_map(|e| if let Entry::Range { lo, hi, .. } = e { Some(rng.range(*lo, *hi)) } else { None }).collect();
            let nchunks = (scheme.stop as usize + 1).clamp(2, 12);
            let chunks: Vec<usize> = (0..nchunks)
                .map(|_| {
                    let base = if !hints.is_empty() && rng.chance(0.7) { *rng.pick(&hints) as i64 + rng.range(0, 40) as i64 - 20 } else { rng.range(1, 6000) as i64 };
                    base.clamp(1, 8000) as usize
                })
                .collect();
            let client_scheme = if idx % 4 == 3 {
                let mut a = refscheme::gen_scheme(&mut rng, &cfg);
                if a.text() == scheme.text() {
                    a.stop += 1;
                }
                Some(a)
            } else {
                None
            };
            cases.push(E2eCase { idx, client_scheme, scheme, host, chunks });
        }
        let results: Arc<Mutex<Vec<(E2eCase, Result<E2eOut, String>)>>> = Arc::new(Mutex::new(Vec::new()));
        // a tree on which the opens do not come back must not turn this part into hours of time-outs
        let budget = std::time::Duration::from_secs(if n <= 200 { 60 } else { 900 });
        let t_start = std::time::Instant::now();
        {
            let results = results.clone();
            netkit::for_each_limited(cases, 8, move |c| {
                let results = results.clone();
                async move {
                    if t_start.elapsed() > budget {
                        results.lock().unwrap().push((c, Err("time budget of the end-to-end part used up".into())));
                        return;
                    }
                    let port = if c.host == "::1" { p6 } else { p4 };
                    let r = match &c.client_scheme {
                        None => e2e_case(&c, port).await,
                        Some(a) => e2e_push_case(&c, a, port).await.map(|(first, second, ok)| E2eOut { first_conn: Some(first), c2s: second, handshake_ok: ok, note: None, s2c_delta: (0, 0), echoed: 0 }),
                    };
                    results.lock().unwrap().push((c, r));
                }
            })
            .await;
        }
        let results = std::mem::take(&mut *results.lock().unwrap());
        for (c, r) in results {
            let desc = json!({"kind": "c05-e2e", "idx": c.idx, "client_scheme": c.client_scheme.as_ref().map(|a| a.text()), "scheme": c.scheme.text(), "host": c.host, "chunks": c.chunks, "seed": seed.to_string()});
            let out = match r {
                Ok(o) => o,
                Err(e) => {
                    // transport / echo trouble is other properties' business; here it only means nothing was observed
                    rep.add("e2e_cases_without_observation", 1);
                    rep.note(format!("e2e case {} not judged: {e}", c.idx));
                    continue;
                }
            };
            if !out.handshake_ok {
                rep.inconclusive(format!("e2e case {}: client handshake flight not recognised (TLS stack differs from the one this monitor was calibrated on)", c.idx));
                continue;
            }
            // destination header as client.rs writes it
            let addr_len = if c.host.parse::<std::net::Ipv4Addr>().is_ok() {
                1 + 4 + 2
            } else if c.host.parse::<std::net::Ipv6Addr>().is_ok() {
                1 + 16 + 2
            } else {
                1 + 1 + c.host.len() + 2
            };
            let first_payload = settings_len + 7 + 7 + addr_len;
            let (lo, hi) = match c.scheme.items(0).unwrap_or_default().first() {
                Some(Item::Range(lo, hi)) => (*lo, *hi),
                _ => (0, 0),
            };
            let mut payloads = vec![first_payload];
            payloads.extend(c.chunks.iter().map(|n| 7 + n));
            let build_for = |sch: &Scheme, payloads: &[usize]| {
                let (lo, hi) = match sch.items(0).unwrap_or_default().first() {
                    Some(Item::Range(lo, hi)) => (*lo, *hi),
                    _ => (0, 0),
                };
                let mut specs = vec![Spec::Preamble(lo, hi)];
                for (i, p) in payloads.iter().enumerate() {
                    let k = (i + 1) as u32;
                    specs.push(if k < sch.stop {
                        match sch.items(k) {
                            Some(items) => Spec::Shaped(items, *p),
                            None => Spec::Unpadded(*p),
                        }
                    } else {
                        Spec::Unpadded(*p)
                    });
                }
                specs
            };
            let build = |payloads: &[usize]| build_for(&c.scheme, payloads);
            // push variant, first connection: the preamble and the first packet are shaped by the client's own
            // scheme (the server can push only after it has read them); later packets may follow either scheme
            if let (Some(a), Some(first)) = (&c.client_scheme, &out.first_conn) {
                rep.add("e2e_push_cases", 1);
                let mut ok = false;
                for fp in [first_payload, first_payload + 7] {
                    ok |= explain(&build_for(a, &[fp]), first, true).is_ok();
                }
                if !ok {
                    rep.violate("shape", "e2e+scheme_push+first_session", "tls_record_sizes_not_explained_by_scheme", format!("client configured with scheme A, server with B: the first connection's records {:?} do not start with a preamble by A's line 0 and a first packet (payload {first_payload}) by A's line 1; A = {:?}", first, a.text()), desc.clone());
                    continue;
                }
            }
            // The session's keep-alive task sends one HeartRequest (a 7-byte frame) when it starts; where it
            // lands relative to the request's packets depends on scheduling: inside the first batch, or as
            // a packet of its own after any packet. It is a session packet like any other and takes a line.
            let mut alternatives: Vec<(String, Vec<usize>)> = vec![("no keep-alive".into(), payloads.clone())];
            {
                let mut v = payloads.clone();
                v[0] += 7;
                alternatives.push(("keep-alive inside the first batch".into(), v));
            }
            for pos in 1..=payloads.len() {
                let mut v = payloads.clone();
                v.insert(pos, 7);
                alternatives.push((format!("keep-alive after packet {pos}"), v));
            }
            let mut verdict: Result<String, (usize, usize)> = Err((0, 0));
            for (name, alt) in &alternatives {
                match explain(&build(alt), &out.c2s, false) {
                    Ok(()) => {
                        verdict = Ok(name.clone());
                        break;
                    }
                    Err(b) => {
                        if let Err(best) = &verdict
                            && b > *best
                        {
                            verdict = Err(b);
                        }
                    }
                }
            }
            let specs = build(&payloads);
            rep.case(Some(hash_str(&format!("e2e|{}|{:?}", c.scheme.text(), out.c2s))));
            rep.add("e2e_cases_judged", 1);
            rep.add("e2e_records_explained", out.c2s.len() as u64);
            rep.add("e2e_packets_judged", specs.len() as u64);
            if let Ok(name) = &verdict {
                rep.seen("e2e_keep_alive_position", name.clone());
            }
            if let Err((pk, wr)) = verdict {
                let cause = if c.client_scheme.is_some() {
                    "scheme_push+session_dialled_after_the_push"
                } else if pk <= 1 {
                    "first_packet"
                } else if (pk as u32) < c.scheme.stop {
                    "packet_below_stop"
                } else {
                    "packet_at_or_after_stop"
                };
                rep.violate(
                    "shape",
                    &format!("e2e+{cause}"),
                    "tls_record_sizes_not_explained_by_scheme",
                    format!(
                        "real Client -> Server behind a record-length relay{}: client->server application records carry plaintext sizes {:?}; packets expected: preamble 34+[{lo},{hi}], then payloads {:?} (first = Settings {settings_len} + SYN 7 + destination {}), stop={}. No way to cut the records into consecutive packets accepted by lines 0,1,2,... (with the session's one keep-alive request placed anywhere): at best {pk} packets / {wr} records can be explained; line {} = {:?}",
                        if c.client_scheme.is_some() { " (the server pushed this scheme to the client's previous session, which was then closed; this is the next session the client dialled)" } else { "" },
                        out.c2s,
                        payloads,
                        7 + addr_len,
                        c.scheme.stop,
                        pk,
                        c.scheme.items(pk as u32)
                    ),
                    desc.clone(),
                );
                continue;
            }
            if c.client_scheme.is_some() {
                continue;
            }
            // the server never pads: everything it sent during the echo phase is data frames
            let (bytes, records) = out.s2c_delta;
            let extra = bytes as i64 - out.echoed as i64;
            rep.add("e2e_server_records_checked", records as u64);
            if extra < 7 || extra % 7 != 0 || extra > 7 * records as i64 {
                rep.violate(
                    "shape",
                    "e2e+server_side",
                    "server_sent_more_than_data_frames",
                    format!("while echoing {} bytes the server sent {records} TLS records carrying {bytes} plaintext bytes: {extra} bytes besides the echoed data, which is not 7 bytes of header per frame for 1..{records} frames", out.echoed),
                    desc,
                );
            }
            if let Some(n) = out.note {
                rep.note(n);
            }
        }
        rep
    });
    rep.merge(rep0);
    run::case_end();
    rep
}
