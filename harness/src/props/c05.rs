//! C05 — early client packets are shaped as the padding scheme prescribes.

use super::pad::{self, PadCase, PadObs};
use crate::prng::Rng;
use crate::refcodec;
use crate::refscheme::{self, Entry, GenCfg, Item, Scheme};
use crate::report::{CheckMeta, Report, hash_str};
use crate::run::{self, Ctx};
use serde_json::json;
use sha2::{Digest, Sha256};

/// the C05 oracle; `scheme_for_packet(k)` allows C19 to switch schemes mid-session
pub fn judge(case: &PadCase, obs: &PadObs, rep: &mut Report, class: &str) {
    // --- preamble = packet 0
    let pre = &obs.preamble;
    let want_hash = Sha256::digest(case.password.as_bytes());
    let line0 = case.scheme.items(0).unwrap_or_default();
    let (lo, hi) = match line0.first() {
        Some(Item::Range(lo, hi)) => (*lo, *hi),
        _ => (0, 0),
    };
    if pre.len() < 34 || pre[..32] != want_hash[..] {
        rep.violate(class, "preamble", "malformed", format!("authentication preamble has {} bytes / wrong hash", pre.len()), case.describe());
    } else {
        let l = ((pre[32] as u64) << 8) | pre[33] as u64;
        rep.add("preambles_checked", 1);
        if l < lo || l > hi {
            rep.violate(class, "preamble", "padding0_length_not_from_line0", format!("preamble announces {l} padding bytes; line 0 of the scheme allows {lo}..{hi}"), case.describe());
        } else if pre.len() as u64 != 34 + l {
            rep.violate(class, "preamble", "padding0_bytes_differ_from_announced", format!("preamble announces {l} padding bytes but carries {}", pre.len() - 34), case.describe());
        }
    }
    if obs.stuck.is_some() || obs.packets.iter().any(|p| p.error.is_some()) {
        return; // sender failures are C04's business
    }
    // --- session packets k = 1, 2, ...
    for (i, p) in obs.packets.iter().enumerate() {
        let k = (i + 1) as u32;
        let r = if k < case.scheme.stop {
            match case.scheme.items(k) {
                Some(items) => {
                    rep.add("packets_checked_against_a_scheme_line", 1);
                    refscheme::accept_packet(&items, p.payload_len, &p.writes).map(|pad| {
                        rep.add("padding_bytes_explained", pad as u64);
                    })
                }
                None => refscheme::accept_unpadded(p.payload_len, &p.writes),
            }
        } else {
            rep.add("packets_checked_after_stop", 1);
            refscheme::accept_unpadded(p.payload_len, &p.writes)
        };
        if let Err(rej) = r {
            let cause = if k < case.scheme.stop { "packet_below_stop" } else { "packet_at_or_after_stop" };
            // does the previous line explain it? (diagnostic only)
            let prev = if k >= 1 { case.scheme.items(k - 1).map(|it| refscheme::accept_packet(&it, p.payload_len, &p.writes).is_ok()).unwrap_or(false) } else { false };
            rep.violate(
                class,
                cause,
                "write_sizes_not_explained_by_scheme_line",
                format!("session packet k={k} (payload {} bytes, stop={}) went out as writes {:?}; line {k} = {:?} cannot produce that: {} (write #{}){}", p.payload_len, case.scheme.stop, p.writes, case.scheme.items(k), rej.reason, rej.write_index, if prev { format!(" — line {} would explain it", k - 1) } else { String::new() }),
                case.describe(),
            );
            break;
        }
    }
    // --- the server never pads
    let (frames, _) = refcodec::parse_all(&obs.s2c_wire);
    rep.add("server_frames_checked", frames.len() as u64);
    if let Some(f) = frames.iter().find(|f| f.cmd == refcodec::WASTE) {
        rep.violate(class, "server_side", "padding_emitted_by_server", format!("server->client direction carries a padding frame of {} bytes", f.data.len()), case.describe());
    }
}

pub fn gen_case(rng: &mut Rng) -> PadCase {
    let cfg = GenCfg { max_size: if rng.chance(0.2) { 65535 } else { 3000 }, boundary_heavy: false, allow_junk: true, sane_line0: true };
    let mut scheme: Scheme = if rng.chance(0.1) { Scheme::default_scheme() } else { refscheme::gen_scheme(rng, &cfg) };
    if rng.chance(0.1) {
        // missing / empty line 0 => no authentication padding
        if rng.chance(0.5) {
            scheme.lines.remove(&0);
        } else {
            scheme.lines.insert(0, vec![]);
        }
    }
    let hints: Vec<u64> = scheme.lines.values().flatten().filter_map(|e| if let Entry::Range { lo, hi, .. } = e { Some(rng.range(*lo, *hi)) } else { None }).collect();
    let nops = rng.usize(1, scheme.stop as usize + 3);
    let ops = pad::gen_ops(rng, nops, 65535, &hints);
    PadCase { seed: rng.next(), scheme, pre_opens: if rng.chance(0.25) { rng.usize(1, 3) } else { 0 }, ops, password: format!("pw{}", rng.below(1000)) }
}

pub fn run(ctx: Ctx) -> Report {
    let n_cases: usize = ctx.tier.pick(480_000, 6_000_000);
    run::run_sharded("C05", ctx.shards, move |shard, nshards, rep| {
        let mut rng = Rng::new(ctx.seed.wrapping_mul(0x7331).wrapping_add(shard as u64) ^ 0xC05);
        for i in 0..n_cases / nshards {
            let mut case = gen_case(&mut rng);
            if i == 0 {
                case.scheme = Scheme::default_scheme(); // the deployed default is always exercised
            }
            run::case_begin(&format!("C05 shard {shard} case {i}"));
            let obs = pad::run_case(&case);
            let shaped = obs.packets.iter().any(|p| p.writes.len() > 1 || p.writes.first().is_some_and(|w| *w != p.payload_len));
            rep.case(if shaped { Some(hash_str(&format!("{}|{:?}", case.scheme.text(), obs.packets.iter().map(|p| (p.payload_len, p.writes.clone())).collect::<Vec<_>>()))) } else { None });
            rep.add("packets", obs.packets.len() as u64);
            judge(&case, &obs, rep, "shape");
            for p in run::take_thread_panics() {
                if run::is_harness_panic(&p) {
                    rep.inconclusive(format!("harness panic: {p}"));
                }
            }
            if shard == 0 && i < 3 {
                rep.sample(json!({"scheme": case.scheme.text(), "preamble_len": obs.preamble.len(), "packets": obs.packets.iter().map(|p| json!({"payload": p.payload_len, "writes": p.writes})).collect::<Vec<_>>()}));
            }
        }
        run_concurrent(ctx, rep, shard, nshards);
        run::case_end();
    })
}

pub fn meta() -> CheckMeta {
    CheckMeta {
        level: "exploration",
        rule: "each case = a generated scheme (sizes <= 65535; incl. the built-in default, missing/empty line 0, junk entries, check marks, reversed ranges, any stop) driving the real send_authentication and a real client Session on a MemPipe that accepts whole writes (one write_all = one record); a single submitter issues stop+3 packets whose payload sizes are placed around the scheme's own sizes (L < s-7, s-7 <= L <= s, L > s, L > sum) ; the preamble (hash, announced length, bytes carried) and the write-length sequence of every session packet k are checked by a nondeterministic reference acceptor for line k (unpadded for k >= stop or a missing line); the server->client recording must contain no command-0 frame. Concurrent part: 2-4 tasks write at the same time for 1-3 rounds under random forced yields at the scheduling points; the j-th packet ON THE WIRE must be accepted by line j (the packet index may not be drawn in one order and the transport reached in another). distinct_nontrivial = distinct (scheme, payload sizes, observed write sizes) with at least one shaped packet, plus distinct concurrent interleavings.".into(),
        assumptions: vec!["write-call boundaries are observed because the MemPipe accepts every write whole".into(), "padding byte values are not judged, only sizes".into(), "concurrent part: 2-4 writers x 1-3 rounds under random forced yields on a ladder scheme (distinct size range per line); packets are delimited on the wire by their payload frames".into()],
        floors: vec![("packets_checked_against_a_scheme_line", 1000), ("packets_checked_after_stop", 300), ("preambles_checked", 500), ("padding_bytes_explained", 10_000), ("concurrent_packets_checked", 500)],
        exhaustive: false,
    }
}

// ---------------------------------------------------------------------------
// concurrent writers racing for the packet index: the j-th packet ON THE WIRE must be shaped by line j

fn ladder_scheme(stop: u32) -> Scheme {
    // distinct, non-overlapping ranges per line so that a write length identifies the line that shaped it
    let mut lines = std::collections::BTreeMap::new();
    lines.insert(0, vec![Entry::Range { lo: 20, hi: 40, reversed: false }]);
    for k in 1..stop {
        let lo = 150 + 200 * k as u64;
        lines.insert(k, vec![Entry::Range { lo, hi: lo + 60, reversed: false }]);
    }
    Scheme { stop, lines, spaced: false }
}

/// returns (problems, packets checked)
async fn concurrent_async(scheme: Scheme, writers: usize, rounds: usize, seed: u64) -> (Vec<String>, u64) {
    use crate::engine;
    use crate::mempipe::{PipeCfg, pipe};
    use bytes::Bytes;
    let mut problems = Vec::new();
    let padding = engine::padding_from(&scheme.text()).expect("scheme");
    let (c2s_w, c2s_r, c2s) = pipe(PipeCfg::plain());
    let (s2c_w, s2c_r, _s2c) = pipe(PipeCfg::plain());
    let (_server, mut ns, _t) = engine::start_server(c2s_r, s2c_w, padding.clone());
    tokio::spawn(async move { while ns.recv().await.is_some() {} });
    let Ok(client) = engine::start_client(s2c_r, c2s_w, padding, None).await else { return (vec!["start failed".into()], 0) };
    // packet 1: the first request (Settings + SYN + PSH), sequential
    let Ok((st, _rx)) = engine::open_like_client(&client, Bytes::from_static(b"dest")).await else { return (vec!["open failed".into()], 0) };
    let mut k_wire: u32 = 1;
    let mut checked = 0u64;
    for round in 0..rounds {
        let mark_off = c2s.accepted();
        let mark_w = c2s.with_log(|l| l.writes.len());
        let mut hs = Vec::new();
        for w in 0..writers {
            let c = client.clone();
            let sid = st.id();
            // unique small payloads (so every packet is payload + padding up to its line's size)
            let len = 3 + w + 4 * round;
            let mut data = vec![0xA0 + w as u8; len];
            data[0] = round as u8;
            hs.push(tokio::spawn(async move { c.write_data_frame(sid, Bytes::from(data)).await.is_ok() }));
        }
        for h in hs {
            if !matches!(tokio::time::timeout(std::time::Duration::from_secs(600), h).await, Ok(Ok(true))) {
                problems.push("a concurrent writer failed or blocked".to_string());
                return (problems, checked);
            }
        }
        tokio::time::sleep(std::time::Duration::from_secs(1)).await;
        let (bytes, writes): (Vec<u8>, Vec<(u64, usize)>) = c2s.with_log(|l| (l.bytes[mark_off as usize..].to_vec(), l.writes[mark_w..].iter().map(|w| (w.off - mark_off, w.accepted)).collect()));
        let (frames, consumed) = refcodec::parse_all(&bytes);
        if consumed != bytes.len() {
            problems.push("wire does not parse".into());
            return (problems, checked);
        }
        // packets in wire order: each starts at a payload (PSH) frame
        let starts: Vec<(usize, usize)> = frames.iter().filter(|f| f.cmd == refcodec::PSH).map(|f| (f.off, f.total())).collect();
        if starts.len() != writers {
            problems.push(format!("{} data frames on the wire, {writers} were submitted", starts.len()));
            return (problems, checked);
        }
        for (i, (start, payload)) in starts.iter().enumerate() {
            let end = starts.get(i + 1).map(|s| s.0).unwrap_or(bytes.len());
            let ws: Vec<usize> = writes.iter().filter(|(o, _)| (*o as usize) >= *start && (*o as usize) < end).map(|(_, n)| *n).collect();
            if ws.iter().sum::<usize>() != end - start {
                problems.push(format!("a transport write spans two packets (packet bytes {}, writes {:?})", end - start, ws));
                return (problems, checked);
            }
            k_wire += 1;
            let res = if k_wire < scheme.stop {
                match scheme.items(k_wire) {
                    Some(items) => refscheme::accept_packet(&items, *payload, &ws).map(|_| ()),
                    None => refscheme::accept_unpadded(*payload, &ws),
                }
            } else {
                refscheme::accept_unpadded(*payload, &ws)
            };
            checked += 1;
            if let Err(rej) = res {
                let fits: Vec<u32> = (1..scheme.stop).filter(|k| scheme.items(*k).is_some_and(|it| refscheme::accept_packet(&it, *payload, &ws).is_ok())).collect();
                problems.push(format!("with {writers} concurrent writers, packet #{k_wire} on the wire (payload {payload} bytes) went out as writes {:?}; line {k_wire} cannot produce that ({}); lines that would: {:?}", ws, rej.reason, fits));
                return (problems, checked);
            }
        }
    }
    let _ = seed;
    (problems, checked)
}

pub fn run_concurrent(ctx: Ctx, rep: &mut Report, shard: usize, nshards: usize) {
    let n = ctx.tier.pick(80_000, 1_000_000) / nshards;
    let mut rng = Rng::new(ctx.seed.wrapping_mul(0xC0FF).wrapping_add(shard as u64));
    for i in 0..n {
        let writers = rng.usize(2, 4);
        let rounds = rng.usize(1, 3);
        let stop = (2 + writers * rounds + rng.usize(0, 2)) as u32;
        let scheme = ladder_scheme(stop);
        let seed = rng.next();
        run::case_begin(&format!("C05 concurrent case {i}"));
        let guard = crate::sched::install(crate::sched::SchedMode::Random { p: *rng.pick(&[0.2, 0.5, 0.8]), max: 4 }, seed);
        let sc = scheme.clone();
        let r = run::vt_block_on_deadline(std::time::Duration::from_secs(100_000), async move { concurrent_async(sc, writers, rounds, seed).await });
        let il = guard.state.borrow().interleaving_id();
        drop(guard);
        rep.case(Some(hash_str(&format!("conc:{writers}:{rounds}:{il}"))));
        rep.seen("concurrent_interleavings", format!("{il:016x}"));
        let case = json!({"kind": "c05-concurrent", "writers": writers, "rounds": rounds, "stop": stop, "sched_seed": seed.to_string()});
        match r {
            None => rep.violate("shape", "concurrent_writers", "case_stuck", "concurrent case did not finish", case.clone()),
            Some((problems, checked)) => {
                rep.add("concurrent_packets_checked", checked);
                for p in problems {
                    rep.violate("shape", "concurrent_writers", "wire_packet_not_shaped_by_its_line", p, case.clone());
                }
            }
        }
        for p in run::take_thread_panics() {
            if !run::is_harness_panic(&p) {
                rep.violate("shape", "concurrent_writers", "panic", p, case.clone());
            }
        }
    }
}
