//! C13 — sessions are reused instead of re-dialled; and the client-level half
//! of C12 (pool housekeeping never tears down a session that carries a live
//! stream). Real Client + Server over loopback TLS behind a counting TCP
//! relay; oracles are logical (connection counts, session ids, PoolReap events
//! joined with the harness' own table of live streams), not timing based.

use crate::engine;
use crate::netkit::{self, SocksDest, Target};
use crate::report::{CheckMeta, Report, hash_str};
use crate::run::{self, Ctx};
use anytls_rs::client::SessionPoolConfig;
use anytls_rs::verif::Event;
use bytes::Bytes;
use serde_json::json;
use std::net::Ipv4Addr;
use std::sync::Arc;
use std::sync::atomic::{AtomicUsize, Ordering};
use std::time::Duration;
use tokio::io::{AsyncReadExt, AsyncWriteExt};
#[allow(unused_imports)]
use std::net::Ipv4Addr as _Ipv4;
use tokio::net::{TcpListener, TcpStream};

pub struct Relay {
    pub addr: String,
    pub accepted: Arc<AtomicUsize>,
    pub open: Arc<AtomicUsize>,
    pub peak_open: Arc<AtomicUsize>,
    /// one entry per accepted connection, in accept order: notifying it cuts that connection (both directions, at once)
    pub cuts: Arc<std::sync::Mutex<Vec<Arc<tokio::sync::Notify>>>>,
    task: tokio::task::JoinHandle<()>,
}

impl Drop for Relay {
    fn drop(&mut self) {
        self.task.abort();
    }
}

/// TCP relay in front of the server that counts TLS connections (accepted, currently open, peak)
pub async fn start_relay(server_addr: String) -> Option<Relay> {
    let l = TcpListener::bind("127.0.0.1:0").await.ok()?;
    let addr = l.local_addr().ok()?.to_string();
    let accepted = Arc::new(AtomicUsize::new(0));
    let open = Arc::new(AtomicUsize::new(0));
    let peak_open = Arc::new(AtomicUsize::new(0));
    let (a2, o2, p2) = (accepted.clone(), open.clone(), peak_open.clone());
    let cuts: Arc<std::sync::Mutex<Vec<Arc<tokio::sync::Notify>>>> = Arc::new(std::sync::Mutex::new(Vec::new()));
    let cuts2 = cuts.clone();
    let task = tokio::spawn(async move {
        loop {
            let Ok((mut c, _)) = l.accept().await else { continue };
            let _ = c.set_nodelay(true);
            let cut = Arc::new(tokio::sync::Notify::new());
            cuts2.lock().unwrap().push(cut.clone());
            a2.fetch_add(1, Ordering::SeqCst);
            let now = o2.fetch_add(1, Ordering::SeqCst) + 1;
            p2.fetch_max(now, Ordering::SeqCst);
            let o3 = o2.clone();
            let sa = server_addr.clone();
            tokio::spawn(async move {
                if let Ok(mut s) = TcpStream::connect(&sa).await {
                    let _ = s.set_nodelay(true);
                    tokio::select! {
                        _ = tokio::io::copy_bidirectional(&mut c, &mut s) => {}
                        _ = cut.notified() => {}
                    }
                }
                o3.fetch_sub(1, Ordering::SeqCst);
            });
        }
    });
    Some(Relay { addr, accepted, open, peak_open, cuts, task })
}

/// settle time after a request before the next one starts (raised for confirmation re-runs)
static SETTLE_MS: std::sync::atomic::AtomicU64 = std::sync::atomic::AtomicU64::new(60);

struct World {
    client: Arc<anytls_rs::client::Client>,
    socks: String,
    relay: Relay,
    target_port: u16,
    _keep: Vec<tokio::task::JoinHandle<()>>,
}

async fn build_world(pool: SessionPoolConfig) -> Option<World> {
    let (server_addr, sh) = netkit::start_server(netkit::PASSWORD, engine::default_padding()).await?;
    let relay = start_relay(server_addr).await?;
    let client = netkit::make_client(&relay.addr, netkit::PASSWORD, engine::default_padding(), pool);
    let (socks, h1) = netkit::start_socks5(client.clone()).await?;
    let mut t = Target::bind_v4(0).await?;
    let target_port = t.port;
    let drain = tokio::spawn(async move {
        while let Some(a) = t.rx.recv().await {
            netkit::spawn_echo(a.stream);
        }
    });
    Some(World { client, socks, relay, target_port, _keep: vec![sh, h1, drain] })
}

/// one complete request through the SOCKS5 front-end: connect, echo, close, wait until the target side is gone
async fn socks_request(w: &World, uniq: u32) -> Result<(), String> {
    socks_request_timed(w, uniq).await.map(|_| ())
}

/// returns the instant at which the application side saw the end of the connection (before the settle time)
async fn socks_request_timed(w: &World, uniq: u32) -> Result<tokio::time::Instant, String> {
    let ip = netkit::uniq_ip(55, uniq);
    let (mut s, code) = netkit::socks5_connect(&w.socks, &SocksDest::V4(ip, w.target_port), Duration::from_secs(20)).await?;
    if code != 0 {
        return Err(format!("socks reply {code}"));
    }
    let msg = format!("request-{uniq}");
    s.write_all(msg.as_bytes()).await.map_err(|e| e.to_string())?;
    let mut back = vec![0u8; msg.len()];
    tokio::time::timeout(Duration::from_secs(10), s.read_exact(&mut back)).await.map_err(|_| "echo timeout".to_string())?.map_err(|e| e.to_string())?;
    if back != msg.as_bytes() {
        return Err("echo differs".into());
    }
    // finish: the application closes; the echo target closes in turn; wait for our side to see the end
    s.shutdown().await.map_err(|e| e.to_string())?;
    let mut rest = Vec::new();
    let _ = tokio::time::timeout(Duration::from_secs(5), s.read_to_end(&mut rest)).await;
    drop(s);
    let done = tokio::time::Instant::now();
    tokio::time::sleep(Duration::from_millis(SETTLE_MS.load(Ordering::SeqCst))).await; // let the front-end wind the request down
    Ok(done)
}

async fn sequential(rep: &mut Report, n: u32, min_idle: usize) {
    let pool = SessionPoolConfig { check_interval: Duration::from_secs(3600), idle_timeout: Duration::from_secs(7200), min_idle_sessions: min_idle };
    let Some(w) = build_world(pool).await else {
        rep.inconclusive("cannot build world");
        return;
    };
    let mut dials_after: Vec<usize> = Vec::new();
    for i in 0..n {
        if let Err(e) = socks_request(&w, 1000 + i).await {
            rep.inconclusive(format!("sequential request {i}: {e}"));
            return;
        }
        dials_after.push(w.relay.accepted.load(Ordering::SeqCst));
    }
    rep.add("sequential_requests", n as u64);
    let case = json!({"kind": "c13-sequential", "requests": n, "min_idle": min_idle, "tls_connections_after_each_request": dials_after});
    rep.case(Some(hash_str(&case.to_string())));
    rep.sample(case.clone());
    // every request after the first starts when all earlier ones have finished and a healthy session exists
    if let Some(first_redial) = dials_after.windows(2).position(|w| w[1] > w[0]) {
        let total = *dials_after.last().unwrap();
        // characterise the pattern for the known-finding signature: a new dial on every second request
        let alternating = dials_after.iter().enumerate().all(|(i, d)| *d == i / 2 + 1);
        rep.violate(
            "reuse",
            "sequential_requests",
            if alternating { "every_second_request_redials" } else { "non_overlapping_request_redialled" },
            format!("{n} strictly sequential requests were served over {total} TLS connections (request #{} already opened a new one although the earlier requests had finished); connections after each request: {:?}", first_redial + 2, dials_after),
            case.clone(),
        );
    }
    let open = w.relay.open.load(Ordering::SeqCst);
    if open > 1 + min_idle.max(1) {
        rep.violate("reuse", "sequential_requests", "sessions_accumulate", format!("after {n} sequential requests (peak concurrency 1, min_idle {min_idle}) the client keeps {open} TLS connections open"), case);
    }
    w.client.stop_session_pool_cleanup().await;
}

/// sequential requests of which every second one fails (closed port): a refused open must not cost
/// the session — no new connection for the next request, no accumulation
async fn sequential_with_failures(rep: &mut Report, n: u32) {
    let pool = SessionPoolConfig { check_interval: Duration::from_secs(3600), idle_timeout: Duration::from_secs(7200), min_idle_sessions: 1 };
    let Some(w) = build_world(pool).await else {
        rep.inconclusive("cannot build world");
        return;
    };
    let refused = netkit::free_port();
    let mut dials_after: Vec<usize> = Vec::new();
    for i in 0..n {
        if i % 2 == 1 {
            let ip = Ipv4Addr::new(127, 57, 0, (i as u8).max(1));
            match netkit::socks5_connect(&w.socks, &SocksDest::V4(ip, refused), Duration::from_secs(20)).await {
                Ok((_, code)) if code != 0 => {}
                other => {
                    rep.inconclusive(format!("refused request {i}: {:?}", other.map(|x| x.1)));
                    return;
                }
            }
            tokio::time::sleep(Duration::from_millis(60)).await;
        } else if let Err(e) = socks_request(&w, 4000 + i).await {
            rep.inconclusive(format!("request {i}: {e}"));
            return;
        }
        dials_after.push(w.relay.accepted.load(Ordering::SeqCst));
    }
    rep.add("sequential_requests_with_failures", n as u64);
    let case = json!({"kind": "c13-sequential-failures", "requests": n, "every_second_refused": true, "tls_connections_after_each_request": dials_after});
    rep.case(Some(hash_str(&case.to_string())));
    rep.sample(case.clone());
    let total = *dials_after.last().unwrap_or(&0);
    if total > 1 {
        rep.violate("reuse", "sequential_requests_with_refused_opens", "non_overlapping_request_redialled", format!("{n} sequential requests, every second one to a closed port, were served over {total} TLS connections: {:?}", dials_after), case.clone());
    }
    let open = w.relay.open.load(Ordering::SeqCst);
    if open > 2 {
        rep.violate("reuse", "sequential_requests_with_refused_opens", "sessions_accumulate", format!("{open} TLS connections are open after {n} sequential requests (peak concurrency 1, min_idle 1)"), case);
    }
    w.client.stop_session_pool_cleanup().await;
}


/// sequential requests some of which the application abandons in mid-transfer (it drops its socket while the
/// target is still sending, or while its own upload is still draining): the session behind such a request is
/// healthy and must serve the next request
async fn sequential_with_aborts(rep: &mut Report, n: u32, via_http: bool) {
    let pool = SessionPoolConfig { check_interval: Duration::from_secs(3600), idle_timeout: Duration::from_secs(7200), min_idle_sessions: 1 };
    let Some(w) = build_world(pool).await else {
        rep.inconclusive("cannot build world");
        return;
    };
    let http = if via_http {
        match netkit::start_http(w.client.clone()).await {
            Some((a, h)) => Some((a, h)),
            None => {
                rep.inconclusive("cannot start the HTTP front-end");
                return;
            }
        }
    } else {
        None
    };
    let mut dials_after: Vec<usize> = Vec::new();
    let mut kinds = Vec::new();
    for i in 0..n {
        let kind = i % 3; // 0 = ordinary, 1 = abandoned download, 2 = abandoned right after a big write
        kinds.push(kind);
        if kind == 0 {
            if let Err(e) = socks_request(&w, 6000 + i).await {
                rep.inconclusive(format!("request {i}: {e}"));
                return;
            }
        } else {
            let ip = netkit::uniq_ip(58, 6000 + i);
            let r: Result<(), String> = async {
                let mut s = match &http {
                    None => {
                        let (s, code) = netkit::socks5_connect(&w.socks, &SocksDest::V4(ip, w.target_port), Duration::from_secs(20)).await?;
                        if code != 0 {
                            return Err(format!("socks reply {code}"));
                        }
                        s
                    }
                    Some((addr, _)) => {
                        let mut s = TcpStream::connect(addr).await.map_err(|e| e.to_string())?;
                        s.write_all(format!("CONNECT {ip}:{} HTTP/1.1\r\nHost: {ip}:{}\r\n\r\n", w.target_port, w.target_port).as_bytes()).await.map_err(|e| e.to_string())?;
                        let mut head = Vec::new();
                        let mut b = [0u8; 1];
                        while !head.ends_with(b"\r\n\r\n") {
                            match tokio::time::timeout(Duration::from_secs(20), s.read(&mut b)).await {
                                Ok(Ok(1)) => head.push(b[0]),
                                _ => return Err("no CONNECT reply".into()),
                            }
                        }
                        s
                    }
                };
                // the echo target sends back everything: a large upload becomes a large download
                let blob = vec![0x5Au8; 400_000];
                if kind == 1 {
                    let (mut rd, mut wr) = s.split();
                    let up = async {
                        let _ = wr.write_all(&blob).await;
                    };
                    let down = async {
                        let mut buf = [0u8; 1000];
                        let _ = tokio::time::timeout(Duration::from_secs(10), rd.read_exact(&mut buf)).await;
                    };
                    // read a little of what comes back while the upload is still going, then walk away
                    tokio::select! { _ = up => {}, _ = down => {} }
                } else {
                    let _ = tokio::time::timeout(Duration::from_secs(5), s.write_all(&blob)).await;
                }
                drop(s); // unread data in the socket: the front-end sees a reset
                Ok(())
            }
            .await;
            if let Err(e) = r {
                rep.inconclusive(format!("abandoned request {i}: {e}"));
                return;
            }
            // the tunnel winds down on its own; give it the usual settle time and a little more
            tokio::time::sleep(Duration::from_millis(SETTLE_MS.load(Ordering::SeqCst) * 5 + 200)).await;
        }
        dials_after.push(w.relay.accepted.load(Ordering::SeqCst));
    }
    rep.add("sequential_requests_with_aborts", n as u64);
    let fname = if via_http { "http_connect" } else { "socks5" };
    let case = json!({"kind": "c13-sequential-aborts", "front": fname, "requests": n, "kinds": kinds, "tls_connections_after_each_request": dials_after});
    rep.case(Some(hash_str(&case.to_string())));
    let total = *dials_after.last().unwrap_or(&0);
    if total > 1 {
        rep.violate("reuse", &format!("sequential_requests_with_abandoned_transfers+{fname}"), "non_overlapping_request_redialled", format!("{n} sequential requests through {fname}, two of three abandoned by the application in mid-transfer, were served over {total} TLS connections: {:?}", dials_after), case.clone());
    }
    let open = w.relay.open.load(Ordering::SeqCst);
    if open > 2 {
        rep.violate("reuse", &format!("sequential_requests_with_abandoned_transfers+{fname}"), "sessions_accumulate", format!("{open} TLS connections are open after {n} sequential requests (peak concurrency 1, min_idle 1)"), case);
    }
    w.client.stop_session_pool_cleanup().await;
}

/// sequential requests separated by pauses longer than idle_timeout: with min_idle >= 1 the reaper
/// keeps a session, so a later request must still be served without a new connection
async fn sequential_with_pauses(rep: &mut Report, n: u32, min_idle: usize) {
    let pool = SessionPoolConfig { check_interval: Duration::from_millis(200), idle_timeout: Duration::from_millis(400), min_idle_sessions: min_idle };
    let Some(w) = build_world(pool).await else {
        rep.inconclusive("cannot build world");
        return;
    };
    let mut dials_after: Vec<usize> = Vec::new();
    for i in 0..n {
        if let Err(e) = socks_request(&w, 3000 + i).await {
            rep.inconclusive(format!("paused sequential request {i}: {e}"));
            return;
        }
        dials_after.push(w.relay.accepted.load(Ordering::SeqCst));
        tokio::time::sleep(Duration::from_millis(750)).await; // > idle_timeout + check_interval
    }
    rep.add("paused_sequential_requests", n as u64);
    let case = json!({"kind": "c13-sequential-pauses", "requests": n, "min_idle": min_idle, "idle_timeout_ms": 400, "pause_ms": 750, "tls_connections_after_each_request": dials_after});
    rep.case(Some(hash_str(&case.to_string())));
    rep.sample(case.clone());
    let total = *dials_after.last().unwrap_or(&0);
    if total > 1 {
        rep.violate("reuse", "sequential_requests_with_pauses", "non_overlapping_request_redialled", format!("{n} sequential requests with 750 ms pauses (idle_timeout 400 ms, min_idle {min_idle}: the reaper keeps a session) were served over {total} TLS connections: {:?}", dials_after), case.clone());
    }
    let open = w.relay.open.load(Ordering::SeqCst);
    if open > 1 + min_idle {
        rep.violate("reuse", "sequential_requests_with_pauses", "sessions_accumulate", format!("{open} TLS connections are open after {n} sequential requests with pauses (peak concurrency 1, min_idle {min_idle})"), case);
    }
    w.client.stop_session_pool_cleanup().await;
}

/// min_idle 0: two overlapping requests; the short one finishes early and its session expires, the long one
/// finishes later; a request that follows the long one within its idle timeout must reuse that session
/// (a session released a moment ago is not expired, whatever its creation order)
async fn overlap_then_sequential(rep: &mut Report, long_first: bool) {
    let pool = SessionPoolConfig { check_interval: Duration::from_millis(150), idle_timeout: Duration::from_millis(1500), min_idle_sessions: 0 };
    let Some(w) = build_world(pool).await else {
        rep.inconclusive("cannot build world");
        return;
    };
    let w = Arc::new(w);
    // the long request: connect, keep the tunnel open for 1.6 s, then finish
    let long = {
        let w = w.clone();
        move || {
            let w = w.clone();
            async move {
                let ip = netkit::uniq_ip(58, 1);
                let (mut s, code) = netkit::socks5_connect(&w.socks, &SocksDest::V4(ip, w.target_port), Duration::from_secs(20)).await?;
                if code != 0 {
                    return Err(format!("socks reply {code}"));
                }
                tokio::time::sleep(Duration::from_millis(800)).await;
                s.write_all(b"long").await.map_err(|e| e.to_string())?;
                let mut b = [0u8; 4];
                tokio::time::timeout(Duration::from_secs(10), s.read_exact(&mut b)).await.map_err(|_| "echo timeout".to_string())?.map_err(|e| e.to_string())?;
                s.shutdown().await.map_err(|e| e.to_string())?;
                let mut rest = Vec::new();
                let _ = tokio::time::timeout(Duration::from_secs(5), s.read_to_end(&mut rest)).await;
                Ok::<tokio::time::Instant, String>(tokio::time::Instant::now())
            }
        }
    };
    // the short request runs while the long one is open and finishes first
    let t_short_done;
    let a = if long_first {
        let l = tokio::spawn(long());
        tokio::time::sleep(Duration::from_millis(100)).await;
        let sres = socks_request_timed(&w, 6001).await;
        let Ok(t) = sres else {
            rep.inconclusive(format!("short request: {:?}", sres));
            return;
        };
        t_short_done = t;
        l.await.unwrap_or(Err("join".into()))
    } else {
        let l = {
            let f = long();
            tokio::spawn(async move {
                tokio::time::sleep(Duration::from_millis(30)).await;
                f.await
            })
        };
        let sres = socks_request_timed(&w, 6002).await;
        let Ok(t) = sres else {
            rep.inconclusive(format!("short request: {:?}", sres));
            return;
        };
        t_short_done = t;
        l.await.unwrap_or(Err("join".into()))
    };
    let Ok(t_long_done) = a else {
        rep.inconclusive(format!("long request: {:?}", a));
        return;
    };
    let dials_before = w.relay.accepted.load(Ordering::SeqCst);
    // wait until the short request's session has expired and a reaper tick has passed (the long request's
    // session, released later, is still well inside its idle timeout), then issue the follow-up
    tokio::time::sleep_until(t_short_done + Duration::from_millis(1500 + 320)).await;
    let idle_for = tokio::time::Instant::now().duration_since(t_long_done);
    if idle_for > Duration::from_millis(1500 - 250) {
        rep.inconclusive(format!("overlap history ran too slowly to be judged (long request's session idle for {:?})", idle_for));
        return;
    }
    if let Err(e) = socks_request(&w, 6003).await {
        rep.inconclusive(format!("follow-up request: {e}"));
        return;
    }
    let dials_after = w.relay.accepted.load(Ordering::SeqCst);
    rep.add("overlap_then_sequential_histories", 1);
    let case = json!({"kind": "c13-overlap-then-sequential", "long_request_started_first": long_first, "min_idle": 0, "idle_timeout_ms": 1500, "check_interval_ms": 150, "tls_connections_before_followup": dials_before, "after": dials_after});
    rep.case(Some(hash_str(&case.to_string())));
    rep.sample(case.clone());
    if dials_after > dials_before {
        rep.violate("reuse", "overlap_then_sequential+min_idle0", "non_overlapping_request_redialled", format!("two overlapping requests (the short one's session expired meanwhile), then the long one finished; a request shortly after the short one's session expired (idle_timeout 1500 ms; the long one's session was idle for less than 1.25 s) opened a new TLS connection ({dials_before} -> {dials_after}) although the long request's session had just been released"), case);
    }
    w.client.stop_session_pool_cleanup().await;
}

/// k overlapping requests give k sessions (connection order = start order); all finish and are released. Then
/// some of those connections — never all — are cut underneath the idle sessions (a NAT timeout, a server-side
/// idle kill), the reaper being too slow to sweep. Sequential requests afterwards must be served by one of the
/// healthy idle sessions that are left: no new TLS connection.
async fn dead_idle_neighbours(rep: &mut Report, k: usize, dead: Vec<usize>) {
    let pool = SessionPoolConfig { check_interval: Duration::from_secs(30), idle_timeout: Duration::from_secs(120), min_idle_sessions: 0 };
    let Some(w) = build_world(pool).await else {
        rep.inconclusive("cannot build world");
        return;
    };
    let w = Arc::new(w);
    let mut hs = Vec::new();
    for i in 0..k {
        let w2 = w.clone();
        hs.push(tokio::spawn(async move {
            let ip = netkit::uniq_ip(59, i as u32 + 1);
            let (mut s, code) = netkit::socks5_connect(&w2.socks, &SocksDest::V4(ip, w2.target_port), Duration::from_secs(20)).await?;
            if code != 0 {
                return Err(format!("socks reply {code}"));
            }
            tokio::time::sleep(Duration::from_millis(500)).await;
            s.write_all(b"held").await.map_err(|e| e.to_string())?;
            let mut b = [0u8; 4];
            tokio::time::timeout(Duration::from_secs(10), s.read_exact(&mut b)).await.map_err(|_| "echo timeout".to_string())?.map_err(|e| e.to_string())?;
            s.shutdown().await.map_err(|e| e.to_string())?;
            let mut rest = Vec::new();
            let _ = tokio::time::timeout(Duration::from_secs(5), s.read_to_end(&mut rest)).await;
            Ok::<(), String>(())
        }));
        // the next request starts only after this one's connection is up, so that accept order = start order
        for _ in 0..200 {
            if w.relay.accepted.load(Ordering::SeqCst) > i {
                break;
            }
            tokio::time::sleep(Duration::from_millis(5)).await;
        }
        tokio::time::sleep(Duration::from_millis(30)).await;
    }
    for h in hs {
        let r = h.await.unwrap_or(Err("join".into()));
        if let Err(e) = r {
            rep.inconclusive(format!("overlapping request: {e}"));
            return;
        }
    }
    tokio::time::sleep(Duration::from_millis(SETTLE_MS.load(Ordering::SeqCst).max(150))).await;
    let dials_before = w.relay.accepted.load(Ordering::SeqCst);
    if dials_before != k {
        rep.inconclusive(format!("{k} overlapping requests used {dials_before} connections; history cannot be judged"));
        return;
    }
    {
        let cuts = w.relay.cuts.lock().unwrap();
        for d in &dead {
            cuts[*d].notify_one();
        }
    }
    // let the client notice the dead transports
    for _ in 0..100 {
        if w.relay.open.load(Ordering::SeqCst) <= k - dead.len() {
            break;
        }
        tokio::time::sleep(Duration::from_millis(10)).await;
    }
    tokio::time::sleep(Duration::from_millis(200)).await;
    let mut after = Vec::new();
    for j in 0..3u32 {
        if let Err(e) = socks_request(&w, 7000 + j).await {
            // a request handed a session that died while idle may fail; that is C12's business, not a re-dial
            rep.note(format!("follow-up request {j} after cutting idle sessions failed: {e}"));
        }
        after.push(w.relay.accepted.load(Ordering::SeqCst));
    }
    rep.add("dead_idle_neighbour_histories", 1);
    let case = json!({"kind": "c13-dead-idle-neighbours", "overlapping_requests": k, "connections_cut_while_idle": dead, "tls_connections_before": dials_before, "after_each_followup": after});
    rep.case(Some(hash_str(&case.to_string())));
    rep.sample(case.clone());
    if *after.last().unwrap() > dials_before {
        rep.violate("reuse", "dead_idle_neighbours+min_idle0", "redialled_although_healthy_idle_session_existed", format!("{k} overlapping requests left {k} idle sessions; connections {dead:?} (accept order) were cut while idle, {} stayed healthy; sequential requests afterwards opened new TLS connections ({dials_before} -> {after:?})", k - dead.len()), case);
    }
    w.client.stop_session_pool_cleanup().await;
}

async fn bursty(rep: &mut Report, k: u32, rounds: u32) {
    let pool = SessionPoolConfig { check_interval: Duration::from_secs(3600), idle_timeout: Duration::from_secs(7200), min_idle_sessions: 1 };
    let Some(w) = build_world(pool).await else {
        rep.inconclusive("cannot build world");
        return;
    };
    let w = Arc::new(w);
    let mut per_round = Vec::new();
    for r in 0..rounds {
        let mut set = tokio::task::JoinSet::new();
        for j in 0..k {
            let w = w.clone();
            set.spawn(async move { socks_request(&w, 5000 + r * 100 + j).await });
        }
        while let Some(x) = set.join_next().await {
            if let Ok(Err(e)) = x {
                rep.inconclusive(format!("burst request: {e}"));
            }
        }
        tokio::time::sleep(Duration::from_millis(150)).await;
        per_round.push(w.relay.accepted.load(Ordering::SeqCst));
    }
    rep.add("burst_rounds", rounds as u64);
    let case = json!({"kind": "c13-bursty", "concurrent": k, "rounds": rounds, "tls_connections_after_each_round": per_round});
    rep.case(Some(hash_str(&case.to_string())));
    rep.sample(case.clone());
    let total = *per_round.last().unwrap_or(&0);
    if total > k as usize {
        rep.violate("reuse", "bursty_requests", if total >= (k * rounds / 2) as usize { "every_second_request_redials" } else { "non_overlapping_request_redialled" }, format!("{rounds} rounds of {k} concurrent requests (each round starts after the previous one finished) used {total} TLS connections; at most {k} are needed; after each round: {:?}", per_round), case.clone());
    }
    let open = w.relay.open.load(Ordering::SeqCst);
    if open > k as usize + 1 {
        rep.violate("reuse", "bursty_requests", "sessions_accumulate", format!("peak concurrency {k}, min_idle 1, but {open} TLS connections are open at the end"), case);
    }
    w.client.stop_session_pool_cleanup().await;
}


// ---------------------------------------------------------------------------
// C12 in a fresh process: the very first sessions a process ever makes, created by overlapping requests on an
// empty pool (process-wide counters still at their initial values), given back, and then left to the reaper

/// runs in a sub-process (`mon child c12-fresh <k>`); prints CHILD-RESULT {..}
pub fn child_fresh_burst(k: u32) -> i32 {
    run::install_panic_monitor();
    let out = run::rt_block_on(4, async move {
        let pool = SessionPoolConfig { check_interval: Duration::from_millis(150), idle_timeout: Duration::from_millis(1200), min_idle_sessions: 0 };
        let Some(w) = build_world(pool).await else { return json!({"error": "cannot build world"}) };
        let w = Arc::new(w);
        // burst 1: k overlapping requests, nothing was ever dialled before
        let mut set = tokio::task::JoinSet::new();
        for j in 0..k {
            let w = w.clone();
            set.spawn(async move { socks_request(&w, 7000 + j).await });
        }
        let mut errors = Vec::new();
        while let Some(x) = set.join_next().await {
            if let Ok(Err(e)) = x {
                errors.push(e);
            }
        }
        let dialled_1 = w.relay.accepted.load(Ordering::SeqCst);
        // burst 2 right away (everything idle is still fresh): served by the sessions of burst 1
        let mut set = tokio::task::JoinSet::new();
        for j in 0..k {
            let w = w.clone();
            set.spawn(async move { socks_request(&w, 7100 + j).await });
        }
        while let Some(x) = set.join_next().await {
            if let Ok(Err(e)) = x {
                errors.push(e);
            }
        }
        let dialled_2 = w.relay.accepted.load(Ordering::SeqCst);
        // then quiet: idle_timeout + several reaper ticks; with min_idle 0 nothing may stay open
        tokio::time::sleep(Duration::from_millis(3500)).await;
        let open_after = w.relay.open.load(Ordering::SeqCst);
        w.client.stop_session_pool_cleanup().await;
        json!({"k": k, "dialled_after_first_burst": dialled_1, "dialled_after_second_burst": dialled_2, "open_after_quiet_period": open_after, "errors": errors, "panics": run::panic_log()})
    });
    println!("CHILD-RESULT {out}");
    0
}

pub fn run_c12_fresh_process(ctx: Ctx) -> Report {
    let quick = ctx.tier == crate::report::Tier::Quick;
    let mut rep = Report::new("C12");
    run::case_begin("C12 fresh process");
    let ks: Vec<u32> = if quick { vec![2, 3] } else { vec![2, 2, 3, 4, 8, 2, 3] };
    for k in ks {
        let Some(v) = std::env::current_exe().ok().and_then(|exe| std::process::Command::new(exe).args(["child", "c12-fresh", &k.to_string()]).output().ok()).and_then(|o| String::from_utf8_lossy(&o.stdout).lines().find_map(|l| l.strip_prefix("CHILD-RESULT ").map(|x| x.to_string()))).and_then(|l| serde_json::from_str::<serde_json::Value>(&l).ok()) else {
            rep.inconclusive("fresh-process child produced no result");
            continue;
        };
        let case = json!({"kind": "c12-fresh-process", "result": v});
        rep.case(Some(hash_str(&format!("fresh:{k}:{}", rep.evaluations))));
        if v.get("error").is_some() || v.get("errors").and_then(|e| e.as_array()).is_some_and(|a| !a.is_empty()) {
            rep.inconclusive(format!("fresh-process burst: {v}"));
            continue;
        }
        rep.add("fresh_process_bursts", 1);
        let d1 = v["dialled_after_first_burst"].as_u64().unwrap_or(0);
        let d2 = v["dialled_after_second_burst"].as_u64().unwrap_or(0);
        let open = v["open_after_quiet_period"].as_u64().unwrap_or(0);
        if open > 0 {
            rep.violate("pool", "fresh_process+first_sessions_created_by_overlapping_requests", "surplus_idle_sessions_never_closed", format!("the first {k} overlapping requests of a process dialled {d1} sessions; after everything was given back and idle_timeout (1.2 s) plus 15 reaper ticks had passed with min_idle 0, {open} TLS connection(s) are still open"), case.clone());
        }
        if d2 > d1 {
            rep.violate("pool", "fresh_process+first_sessions_created_by_overlapping_requests", "idle_session_lost_by_the_pool", format!("{k} overlapping requests dialled {d1} sessions and gave them back; {k} more overlapping requests right afterwards needed {} further connection(s)", d2 - d1), case.clone());
        }
        if let Some(pl) = v.get("panics").and_then(|x| x.as_array()) {
            for p in pl.iter().filter_map(|x| x.as_str()) {
                if !run::is_harness_panic(p) {
                    rep.violate("pool", "fresh_process", "panic", p.to_string(), case.clone());
                }
            }
        }
    }
    run::case_end();
    rep
}

/// C12, client level: long-lived streams while reaper ticks pass
pub async fn live_streams_vs_reaper(rep: &mut Report, n_streams: usize, min_idle: usize, extra_finished: usize) {
    let pool = SessionPoolConfig { check_interval: Duration::from_millis(150), idle_timeout: Duration::from_millis(300), min_idle_sessions: min_idle };
    let Some(w) = build_world(pool).await else {
        rep.inconclusive("cannot build world");
        return;
    };
    let before = anytls_rs::verif::event_count();
    // some requests that come and go first (so that the pool has history)
    for i in 0..extra_finished {
        let _ = socks_request(&w, 9000 + i as u32).await;
    }
    // long-lived streams through the API: the harness knows which session carries each of them
    let mut live = Vec::new();
    for i in 0..n_streams {
        let ip = Ipv4Addr::new(127, 56, 0, (i as u8) + 1);
        match tokio::time::timeout(Duration::from_secs(20), w.client.create_proxy_stream((ip.to_string(), w.target_port))).await {
            Ok(Ok((st, sess))) => live.push((st, sess)),
            other => {
                rep.inconclusive(format!("cannot open long-lived stream {i}: {:?}", other.map(|r| r.map(|_| ()).map_err(|e| e.to_string()))));
                return;
            }
        }
    }
    let live_ids: Vec<u64> = live.iter().map(|(_, s)| s.id()).collect();
    // use them for 10 check intervals: a ping through each stream every 100 ms
    let mut broken: Vec<String> = Vec::new();
    for round in 0..15 {
        for (k, (st, sess)) in live.iter().enumerate() {
            let msg = format!("ping-{round}-{k}");
            let ok = async {
                sess.write_data_frame(st.id(), Bytes::from(msg.clone())).await.ok()?;
                let mut buf = vec![0u8; msg.len()];
                tokio::time::timeout(Duration::from_secs(5), async { st.reader().lock().await.read_exact(&mut buf).await }).await.ok()?.ok()?;
                Some(buf == msg.as_bytes())
            }
            .await;
            if ok != Some(true) && !broken.iter().any(|b| b.starts_with(&format!("stream #{k} "))) {
                broken.push(format!("stream #{k} on session {} stopped carrying data in round {round} (session closed: {})", sess.id(), sess.is_closed()));
            }
        }
        tokio::time::sleep(Duration::from_millis(100)).await;
    }
    let events: Vec<Event> = anytls_rs::verif::events().into_iter().skip(before).collect();
    let reaped_live: Vec<u64> = events.iter().filter_map(|e| if let Event::PoolReap { session, already_closed: false, .. } = e { if live_ids.contains(session) { Some(*session) } else { None } } else { None }).collect();
    let reaps = events.iter().filter(|e| matches!(e, Event::PoolReap { .. })).count();
    rep.add("reaper_events_seen", reaps as u64);
    rep.add("live_streams_watched", n_streams as u64);
    rep.add("client_level_configurations", 1);
    let case = json!({"kind": "c12-client", "live_streams": n_streams, "min_idle": min_idle, "finished_requests_before": extra_finished, "live_session_ids": live_ids});
    rep.case(Some(hash_str(&case.to_string())));
    if !reaped_live.is_empty() {
        rep.violate("pool", &format!("client_level+min_idle{min_idle}"), "reaper_closed_session_with_live_stream", format!("pool housekeeping closed session(s) {:?} while the harness holds an open, working stream on them (idle_timeout 300 ms, check_interval 150 ms, min_idle {min_idle}, {n_streams} live streams)", reaped_live), case.clone());
    } else if !broken.is_empty() {
        rep.violate("pool", &format!("client_level+min_idle{min_idle}"), "live_stream_died", broken.join("; "), case);
    }
    w.client.stop_session_pool_cleanup().await;
}


/// C12, client level, through the front-ends: a request whose one direction has ended stays a live stream
/// (the reply / the upload is still running) far beyond idle_timeout; housekeeping must not take its session.
/// `front`: 1 = SOCKS5, 2 = HTTP CONNECT. `who_ends_first`: 0 = the application half-closes and the target then
/// replies slowly, 1 = the target half-closes and the application then uploads slowly.
pub async fn half_closed_stream_vs_reaper(rep: &mut Report, min_idle: usize, front: u8, who_ends_first: u8) {
    let pool = SessionPoolConfig { check_interval: Duration::from_millis(150), idle_timeout: Duration::from_millis(300), min_idle_sessions: min_idle };
    let Some(w) = build_world(pool).await else {
        rep.inconclusive("cannot build world");
        return;
    };
    let Some((http, _hh)) = netkit::start_http(w.client.clone()).await else {
        rep.inconclusive("cannot start the HTTP front-end");
        return;
    };
    // earlier requests, two of them at the same time, so that older idle sessions exist and fill min_idle
    let _ = tokio::join!(socks_request(&w, 9100), socks_request(&w, 9101));
    // a target of its own: slow on purpose
    let Some(mut t) = Target::bind_v4(0).await else {
        rep.inconclusive("cannot bind target");
        return;
    };
    let port = t.port;
    const PIECES: usize = 8;
    const PIECE: usize = 100;
    const GAP_MS: u64 = 200; // 8 x 200 ms = 1.6 s >> idle_timeout + check_interval
    let piece = |j: usize| -> Vec<u8> { (0..PIECE).map(|i| b'a' + ((i + j) % 26) as u8).collect() };
    let target_got = Arc::new(std::sync::Mutex::new(Vec::<u8>::new()));
    let tg = target_got.clone();
    let target_task = tokio::spawn(async move {
        let Some(a) = t.next(Duration::from_secs(20)).await else { return };
        let mut s = a.stream;
        if who_ends_first == 0 {
            // read the request up to the application's end of stream, then reply slowly, then close
            let mut req = Vec::new();
            let _ = tokio::time::timeout(Duration::from_secs(10), s.read_to_end(&mut req)).await;
            tg.lock().unwrap().extend_from_slice(&req);
            for j in 0..PIECES {
                if s.write_all(&piece(j)).await.is_err() {
                    return;
                }
                tokio::time::sleep(Duration::from_millis(GAP_MS)).await;
            }
            let _ = s.shutdown().await;
        } else {
            // greet, end our direction, then read the slow upload to its end
            let _ = s.write_all(b"HELLO").await;
            let _ = s.shutdown().await;
            let mut up = Vec::new();
            let _ = tokio::time::timeout(Duration::from_secs(15), s.read_to_end(&mut up)).await;
            tg.lock().unwrap().extend_from_slice(&up);
        }
    });
    let ip = netkit::uniq_ip(57, 1 + min_idle as u32 * 4 + front as u32 * 2 + who_ends_first as u32);
    let mut app: TcpStream = match front {
        1 => match netkit::socks5_connect(&w.socks, &SocksDest::V4(ip, port), Duration::from_secs(20)).await {
            Ok((s, 0)) => s,
            other => {
                rep.inconclusive(format!("SOCKS5 connect failed: {:?}", other.map(|(_, c)| c)));
                return;
            }
        },
        _ => {
            let Ok(mut s) = TcpStream::connect(&http).await else {
                rep.inconclusive("cannot reach the HTTP front-end");
                return;
            };
            let _ = s.write_all(format!("CONNECT {ip}:{port} HTTP/1.1\r\nHost: {ip}:{port}\r\n\r\n").as_bytes()).await;
            let mut head = Vec::new();
            let mut b = [0u8; 1];
            while !head.ends_with(b"\r\n\r\n") {
                match tokio::time::timeout(Duration::from_secs(20), s.read(&mut b)).await {
                    Ok(Ok(1)) => head.push(b[0]),
                    _ => break,
                }
            }
            if !head.starts_with(b"HTTP/1.1 200") {
                rep.inconclusive(format!("CONNECT failed: {}", String::from_utf8_lossy(&head)));
                return;
            }
            s
        }
    };
    let mut want_app = Vec::new();
    let mut want_target = Vec::new();
    let mut app_got = Vec::new();
    if who_ends_first == 0 {
        want_target.extend_from_slice(b"REQUEST");
        for j in 0..PIECES {
            want_app.extend_from_slice(&piece(j));
        }
        let _ = app.write_all(b"REQUEST").await;
        let _ = app.shutdown().await;
        let _ = tokio::time::timeout(Duration::from_secs(15), app.read_to_end(&mut app_got)).await;
    } else {
        want_app.extend_from_slice(b"HELLO");
        // read the greeting and the target's end of stream first
        let _ = tokio::time::timeout(Duration::from_secs(10), app.read_to_end(&mut app_got)).await;
        for j in 0..PIECES {
            want_target.extend_from_slice(&piece(j));
            if app.write_all(&piece(j)).await.is_err() {
                break;
            }
            tokio::time::sleep(Duration::from_millis(GAP_MS)).await;
        }
        let _ = app.shutdown().await;
    }
    let _ = tokio::time::timeout(Duration::from_secs(20), target_task).await;
    let target_got = target_got.lock().unwrap().clone();
    rep.add("half_closed_live_streams_watched", 1);
    rep.add("client_level_configurations", 1);
    let fname = if front == 1 { "socks5" } else { "http_connect" };
    let wname = if who_ends_first == 0 { "application_half_closed_reply_running" } else { "target_half_closed_upload_running" };
    let case = json!({"kind": "c12-client-half-closed", "front": fname, "phase": wname, "min_idle": min_idle});
    rep.case(Some(hash_str(&case.to_string())));
    if app_got != want_app || target_got != want_target {
        rep.violate(
            "pool",
            &format!("client_level+{fname}+{wname}+min_idle{min_idle}"),
            "live_stream_died",
            format!("a request through the {fname} front-end whose one direction had ended kept its other direction busy for {} ms (idle_timeout 300 ms, check_interval 150 ms, min_idle {min_idle}, two older idle sessions): the application received {} of {} bytes, the target {} of {} bytes", PIECES as u64 * GAP_MS, app_got.len(), want_app.len(), target_got.len(), want_target.len()),
            case,
        );
    }
    w.client.stop_session_pool_cleanup().await;
}

pub fn run(ctx: Ctx) -> Report {
    let first = run_once(ctx);
    if first.violations.is_empty() {
        return first;
    }
    // count-based verdicts depend on the front-end having wound a request down before the next one
    // starts: confirm with a 10x settle time; only what repeats is reported
    SETTLE_MS.store(600, Ordering::SeqCst);
    let mut second = run_once(ctx);
    second.note(format!("first pass reported {} violation(s); this is the confirmation pass with a 600 ms settle time", first.violations.len()));
    second
}

fn run_once(ctx: Ctx) -> Report {
    let quick = ctx.tier == crate::report::Tier::Quick;
    let mut rep = Report::new("C13");
    run::case_begin("C13 e2e");
    let out = run::rt_block_on(8, async move {
        let mut rep = Report::new("C13");
        for (n, min_idle) in if quick { vec![(12u32, 1usize), (7, 0)] } else { vec![(12, 1), (7, 0), (40, 2), (200, 1), (3, 5)] } {
            sequential(&mut rep, n, min_idle).await;
        }
        for (n, min_idle) in if quick { vec![(4u32, 1usize)] } else { vec![(4, 1), (6, 2), (10, 1)] } {
            sequential_with_pauses(&mut rep, n, min_idle).await;
        }
        for n in if quick { vec![8u32] } else { vec![8, 40] } {
            sequential_with_failures(&mut rep, n).await;
        }
        for (n, via_http) in if quick { vec![(7u32, false), (7, true)] } else { vec![(7, false), (7, true), (31, false), (31, true)] } {
            sequential_with_aborts(&mut rep, n, via_http).await;
        }
        for long_first in [true, false] {
            overlap_then_sequential(&mut rep, long_first).await;
        }
        for (k, dead) in if quick { vec![(2usize, vec![1usize]), (3, vec![1, 2])] } else { vec![(2, vec![1]), (2, vec![0]), (3, vec![2]), (3, vec![1, 2]), (3, vec![0, 2]), (4, vec![1, 2, 3]), (4, vec![0])] } {
            dead_idle_neighbours(&mut rep, k, dead).await;
        }
        for (k, rounds) in if quick { vec![(4u32, 3u32)] } else { vec![(4, 3), (8, 5), (2, 12), (16, 3)] } {
            bursty(&mut rep, k, rounds).await;
        }
        rep
    });
    rep.merge(out);
    for p in run::panic_log() {
        if !run::is_harness_panic(&p) {
            rep.violate("reuse", "any", "panic", p, json!({}));
        }
    }
    run::case_end();
    rep
}

pub fn run_c12_client_level(ctx: Ctx) -> Report {
    let quick = ctx.tier == crate::report::Tier::Quick;
    run::case_begin("C12 client level");
    let mut rep = run::rt_block_on(8, async move {
        let mut rep = Report::new("C12");
        let grid: Vec<(usize, usize, usize)> = if quick { vec![(1, 0, 0), (2, 1, 1), (3, 2, 2)] } else { vec![(1, 0, 0), (1, 1, 0), (2, 0, 1), (2, 1, 1), (3, 2, 2), (6, 0, 3), (4, 1, 2), (5, 2, 1), (1, 0, 4), (2, 2, 5)] };
        for (n, min_idle, extra) in grid {
            live_streams_vs_reaper(&mut rep, n, min_idle, extra).await;
        }
        // the same question through the front-ends, for streams one direction of which has ended
        let mut set = tokio::task::JoinSet::new();
        for min_idle in if quick { vec![0usize, 1] } else { vec![0usize, 1, 2] } {
            for front in [1u8, 2] {
                for who in [0u8, 1] {
                    set.spawn(async move {
                        let mut r = Report::new("C12");
                        half_closed_stream_vs_reaper(&mut r, min_idle, front, who).await;
                        r
                    });
                }
            }
        }
        while let Some(Ok(r)) = set.join_next().await {
            rep.merge(r);
        }
        rep
    });
    for p in run::panic_log() {
        if !run::is_harness_panic(&p) {
            rep.violate("pool", "any", "panic", p, json!({}));
        }
    }
    run::case_end();
    rep
}

pub fn meta() -> CheckMeta {
    CheckMeta {
        level: "exploration",
        rule: "real Client + SOCKS5 front-end + Server over loopback TLS behind a TCP relay that counts TLS connections (accepted, open, peak). Sequential histories of 3-200 complete requests (connect, echo, application closes, target closes, front-end winds down) with min_idle in {0,1,2,5}: the number of TLS connections after each request is recorded; every request after the first must be served without a new connection, and at the end at most 1 + min_idle connections may be open. Paused histories: 4-10 sequential requests separated by 750 ms with idle_timeout 400 ms / check_interval 200 ms and min_idle >= 1 (the reaper must keep a session, so still 1 connection). Failure histories: 8-40 sequential requests of which every second one goes to a closed port (a refused open must not cost the session). Overlap histories (min_idle 0, idle_timeout 1500 ms, check_interval 150 ms): a long and a short request overlap, the short one finishes first and its session expires while the long one's session (released later, either creation order) is still fresh; the follow-up request must reuse it. Bursty histories: rounds of k in {2,4,8,16} concurrent requests, each round after the previous one finished: at most k connections in total, at most k+1 open. The reaper and keep-alive are effectively off (3600 s) so that only reuse is observed. distinct_nontrivial = distinct histories. Abandoned transfers: 7 (thorough 31) sequential requests through SOCKS5 and through HTTP CONNECT of which two in three are dropped by the application in mid-transfer (400 KB echo, socket closed with unread data): still one TLS connection.".into(),
        assumptions: vec!["a request counts as finished once the application socket saw end of stream and 60 ms have passed".into(), "healthy session: the server and relay stay up for the whole history".into()],
        floors: vec![("sequential_requests", 15), ("burst_rounds", 3), ("paused_sequential_requests", 4), ("sequential_requests_with_failures", 8), ("overlap_then_sequential_histories", 2), ("sequential_requests_with_aborts", 12), ("dead_idle_neighbour_histories", 2)],
        exhaustive: false,
    }
}
