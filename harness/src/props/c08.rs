//! C08 — end of stream reaches the other side, after all the data.
//! (1) session level, virtual time: the receiving half against a scripted peer
//!     (PSH..PSH,FIN with data in flight, siblings, other direction still used,
//!     table entries released);
//! (2) end to end, real time: SOCKS5 and HTTP CONNECT applications and loopback
//!     targets closing / half-closing in both orders with data in flight.

use crate::engine;
use crate::mempipe::{Frag, PipeCfg};
use crate::netkit::{self, SocksDest, Target};
use crate::prng::{Pattern, Rng};
use crate::refcodec;
use crate::report::{CheckMeta, Report, hash_str};
use crate::run::{self, Ctx};
use bytes::Bytes;
use serde_json::{Value, json};
use std::net::Ipv4Addr;
use std::sync::Arc;
use std::time::Duration;
use tokio::io::{AsyncReadExt, AsyncWriteExt};
use tokio::net::TcpStream;

// ------------------------------------------------------------------ (1) session level

#[derive(Clone, Debug)]
pub struct RecvCase {
    pub victim_server: bool,
    pub streams: usize,
    /// chunks sent to each stream before its FIN (None = no FIN for that stream)
    pub plans: Vec<(Vec<usize>, bool)>,
    pub pipe: u8,
    pub reader_buf: usize,
    pub seed: u64,
}

impl RecvCase {
    fn describe(&self) -> Value {
        json!({"kind": "c08-recv", "victim": if self.victim_server { "server" } else { "client" }, "plans": self.plans.iter().map(|(c, f)| json!({"chunks": c, "fin": f})).collect::<Vec<_>>(), "pipe": self.pipe, "reader_buf": self.reader_buf, "seed": self.seed.to_string()})
    }
}

fn pipe_cfg(kind: u8, seed: u64) -> PipeCfg {
    match kind {
        0 => PipeCfg::plain(),
        1 => PipeCfg { read_frag: Frag::Pool(vec![1, 6, 7, 8, 500]), ..PipeCfg::plain() },
        _ => PipeCfg { read_frag: Frag::Random(300), write_frag: Frag::Random(100), pending_prob: 0.2, seed, capacity: 2048 },
    }
}

async fn recv_half(c: RecvCase) -> Vec<(String, String)> {
    let mut problems = Vec::new();
    let pc = pipe_cfg(c.pipe, c.seed);
    // set up victim + raw peer, open the streams
    let (victim, mut peer, ids, streams): (Arc<anytls_rs::session::Session>, engine::RawPeer, Vec<u32>, Vec<Arc<anytls_rs::session::Stream>>);
    if c.victim_server {
        let mut rv = engine::raw_vs_server(pc, PipeCfg::plain(), engine::no_padding());
        let _ = rv.peer.send(refcodec::SETTINGS, 0, &engine::settings_payload("x")).await;
        let mut v = Vec::new();
        let mut idv = Vec::new();
        for i in 0..c.streams {
            let id = (i as u32 + 1) * 3;
            let _ = rv.peer.send(refcodec::SYN, id, &[]).await;
            match tokio::time::timeout(Duration::from_secs(30), rv.new_streams.recv()).await {
                Ok(Some(s)) => v.push(s),
                _ => {
                    problems.push(("setup".into(), "stream not announced".into()));
                    return problems;
                }
            }
            idv.push(id);
        }
        victim = rv.server.clone();
        peer = rv.peer;
        ids = idv;
        streams = v;
    } else {
        let cv = engine::client_vs_raw(PipeCfg::plain(), pc, engine::no_padding(), None).await;
        let mut v = Vec::new();
        let mut idv = Vec::new();
        for _ in 0..c.streams {
            match engine::open_like_client(&cv.client, Bytes::from_static(b"dst")).await {
                Ok((s, _rx)) => {
                    idv.push(s.id());
                    v.push(s);
                }
                Err(e) => {
                    problems.push(("setup".into(), e.to_string()));
                    return problems;
                }
            }
        }
        victim = cv.client.clone();
        peer = cv.peer;
        ids = idv;
        streams = v;
    }
    // readers: collect bytes, note EOF, check prefix online
    let mut readers = Vec::new();
    for (i, st) in streams.iter().enumerate() {
        let st = st.clone();
        let pat = Pattern::new(c.seed, i as u64 + 1, 0);
        let total: u64 = c.plans[i].0.iter().map(|x| *x as u64).sum();
        let rb = c.reader_buf;
        readers.push(tokio::spawn(async move {
            let mut got = 0u64;
            let mut buf = vec![0u8; rb.max(1)];
            loop {
                let r = {
                    let mut g = st.reader().lock().await;
                    g.read(&mut buf).await
                };
                match r {
                    Ok(0) => return (got, true, None),
                    Ok(n) => {
                        if pat.first_mismatch(got, &buf[..n]).is_some() {
                            return (got, false, Some(format!("content mismatch at offset {got}")));
                        }
                        got += n as u64;
                        if got > total {
                            return (got, false, Some("more bytes than were sent".into()));
                        }
                    }
                    Err(e) => return (got, false, Some(format!("read error {e}"))),
                }
            }
        }));
    }
    // the peer sends all data, interleaving the streams chunk by chunk, each stream's FIN right after its last chunk
    let maxc = c.plans.iter().map(|p| p.0.len()).max().unwrap_or(0);
    let mut offs = vec![0u64; c.streams];
    for k in 0..=maxc {
        for i in 0..c.streams {
            let (chunks, fin) = &c.plans[i];
            if let Some(&n) = chunks.get(k) {
                let data = Pattern::new(c.seed, i as u64 + 1, 0).make(offs[i], n);
                offs[i] += n as u64;
                let _ = peer.send(refcodec::PSH, ids[i], &data).await;
            }
            if *fin && k == chunks.len() {
                let _ = peer.send(refcodec::FIN, ids[i], &[]).await;
            }
        }
    }
    // the other direction must keep working after the peer's FIN: the victim sends on every stream
    tokio::time::sleep(Duration::from_secs(1)).await;
    for (i, st) in streams.iter().enumerate() {
        let data = Pattern::new(c.seed, i as u64 + 1, 1).make(0, 300 + i);
        let r = if i % 2 == 0 { victim.write_data_frame(st.id(), Bytes::from(data)).await.map_err(|e| e.to_string()) } else { st.send_data(Bytes::from(data)).map_err(|e| e.to_string()) };
        if let Err(e) = r {
            problems.push(("other_direction_stopped_after_peer_fin".into(), format!("stream {} (peer FIN {}): sending in the still-open direction failed: {e}", st.id(), if c.plans[i].1 { "received" } else { "not sent" })));
        }
    }
    tokio::time::sleep(Duration::from_secs(1)).await;
    // collect what the victim sent
    let mut sent_back: std::collections::HashMap<u32, Vec<u8>> = std::collections::HashMap::new();
    let _ = tokio::time::timeout(Duration::from_secs(2), async {
        while let Some(f) = peer.recv().await {
            if f.cmd == refcodec::PSH {
                sent_back.entry(f.sid).or_default().extend_from_slice(&f.data);
            }
        }
    })
    .await;
    for (i, st) in streams.iter().enumerate() {
        let want = Pattern::new(c.seed, i as u64 + 1, 1).make(0, 300 + i);
        let got = sent_back.get(&st.id()).cloned().unwrap_or_default();
        // client-role victims put the destination frame first
        let got_tail = if got.len() >= want.len() { got[got.len() - want.len()..].to_vec() } else { got.clone() };
        if got_tail != want {
            problems.push(("other_direction_stopped_after_peer_fin".into(), format!("stream {}: {} bytes sent by the victim after the peer's FIN, the peer received {}", st.id(), want.len(), got.len())));
        }
    }
    // verdicts per stream
    let mut live = 0;
    for (i, r) in readers.into_iter().enumerate() {
        let (chunks, fin) = &c.plans[i];
        let total: u64 = chunks.iter().map(|x| *x as u64).sum();
        let ab = r.abort_handle();
        match tokio::time::timeout(Duration::from_secs(5), r).await {
            Ok(Ok((got, eof, err))) => {
                if let Some(e) = err {
                    problems.push(("data_wrong_at_close".into(), format!("stream {}: {e}", ids[i])));
                } else if eof && got < total {
                    problems.push(("eof_before_data".into(), format!("stream {}: end of stream observed after {got} of {total} bytes that were sent before the FIN", ids[i])));
                } else if eof && !fin {
                    problems.push(("eof_without_fin".into(), format!("stream {}: end of stream observed but no FIN was sent for it", ids[i])));
                }
            }
            Ok(Err(_)) => {}
            Err(_) => {
                ab.abort();
                if *fin {
                    problems.push(("fin_not_propagated_to_reader".into(), format!("stream {}: FIN was sent after {total} bytes, the reader never reached end of stream", ids[i])));
                } else {
                    live += 1;
                }
            }
        }
    }
    // release: entries of the streams whose FIN arrived are gone, the others are still there
    let (a, b) = victim.verif_table_sizes().await;
    if a != live || b != live {
        problems.push(("entry_retained_after_peer_fin".into(), format!("{live} streams are still open, the session holds {a} stream / {b} receiver entries")));
    }
    let _ = tokio::time::timeout(Duration::from_secs(5), victim.close()).await;
    problems
}

fn gen_recv(rng: &mut Rng) -> RecvCase {
    let streams = rng.usize(1, 8);
    let mut plans = Vec::new();
    // now and then a burst of very many tiny frames (they reach the victim in one or a few transport reads, with the
    // end of the stream far behind the first frame)
    let burst = rng.chance(0.15);
    for _ in 0..streams {
        let n = if burst { *rng.pick(&[30usize, 63, 64, 65, 66, 130, 200, 700]) } else { rng.usize(0, 6) };
        let chunks: Vec<usize> = (0..n).map(|_| if burst { rng.usize(1, 3) } else { *rng.pick(&[0usize, 1, 10, 700, 8192, 20000, 65535]) }).collect();
        plans.push((chunks, rng.chance(if burst { 0.9 } else { 0.7 })));
    }
    RecvCase { victim_server: rng.chance(0.5), streams, plans, pipe: rng.below(3) as u8, reader_buf: *rng.pick(&[1usize, 7, 1000, 8192, 70000]), seed: rng.next() }
}

// ------------------------------------------------------------------ (2) end to end

#[derive(Clone, Debug, PartialEq)]
pub enum Closer {
    AppHalfClose,
    AppClose,
    TargetClose,
    TargetHalfClose,
    /// the target closes its socket while application bytes are still unread in it (the kernel resets)
    TargetAbort,
    /// the application closes its socket while target bytes are still unread in it
    AppAbort,
}

#[derive(Clone, Debug)]
pub struct E2eCase {
    pub front: &'static str, // socks5 | http_connect
    pub closer: Closer,
    pub up_bytes: usize,
    pub down_bytes: usize,
    pub uniq: u32,
}

impl E2eCase {
    fn describe(&self) -> Value {
        json!({"kind": "c08-e2e", "front": self.front, "closer": format!("{:?}", self.closer), "app_to_target_bytes": self.up_bytes, "target_to_app_bytes": self.down_bytes})
    }
}

struct World {
    socks: String,
    http: String,
    /// accepted target connections, routed by the address that was dialled (unique per case)
    accepted: Arc<std::sync::Mutex<std::collections::HashMap<std::net::IpAddr, TcpStream>>>,
    target_port: u16,
    eof_wait: Duration,
    _keep: Vec<tokio::task::JoinHandle<()>>,
}

async fn read_until_eof(s: &mut (impl AsyncReadExt + Unpin), want: usize, eof_wait: Duration) -> (Vec<u8>, bool) {
    let mut got = Vec::new();
    let mut buf = vec![0u8; 65536];
    // first everything that must come
    let _ = tokio::time::timeout(Duration::from_secs(10), async {
        while got.len() < want {
            match s.read(&mut buf).await {
                Ok(0) | Err(_) => return,
                Ok(n) => got.extend_from_slice(&buf[..n]),
            }
        }
    })
    .await;
    // then the end of stream
    let eof = tokio::time::timeout(eof_wait, async {
        loop {
            match s.read(&mut buf).await {
                Ok(0) => return true,
                Ok(n) => got.extend_from_slice(&buf[..n]),
                Err(_) => return true,
            }
        }
    })
    .await
    .unwrap_or(false);
    (got, eof)
}

/// returns problems (cause, symptom, detail)
async fn e2e_case(w: &World, c: &E2eCase) -> Result<Vec<(String, String, String)>, String> {
    let ip = netkit::uniq_ip(66, c.uniq);
    let up = Pattern::new(c.uniq as u64, 1, 0).make(0, c.up_bytes);
    let down = Pattern::new(c.uniq as u64, 1, 1).make(0, c.down_bytes);
    // connect through the front-end; the target side is taken from the accept queue under a lock so
    // that concurrent cases do not steal each other's connection (matched by dialled address)
    let mut app = match c.front {
        "socks5" => {
            let (s, code) = netkit::socks5_connect(&w.socks, &SocksDest::V4(ip, w.target_port), Duration::from_secs(20)).await?;
            if code != 0 {
                return Err(format!("socks reply {code}"));
            }
            s
        }
        _ => {
            let mut s = TcpStream::connect(&w.http).await.map_err(|e| e.to_string())?;
            s.write_all(format!("CONNECT {ip}:{} HTTP/1.1\r\nHost: {ip}\r\n\r\n", w.target_port).as_bytes()).await.map_err(|e| e.to_string())?;
            let mut head = Vec::new();
            let mut b = [0u8; 1];
            while !head.ends_with(b"\r\n\r\n") {
                tokio::time::timeout(Duration::from_secs(20), s.read_exact(&mut b)).await.map_err(|_| "no CONNECT answer".to_string())?.map_err(|e| e.to_string())?;
                head.push(b[0]);
            }
            if !head.starts_with(b"HTTP/1.1 200") {
                return Err("CONNECT refused".into());
            }
            s
        }
    };
    let mut tconn = {
        let deadline = tokio::time::Instant::now() + Duration::from_secs(10);
        loop {
            if let Some(s) = w.accepted.lock().unwrap().remove(&std::net::IpAddr::V4(ip)) {
                break s;
            }
            if tokio::time::Instant::now() > deadline {
                return Err("target connection not found".into());
            }
            tokio::time::sleep(Duration::from_millis(5)).await;
        }
    };
    let mut problems = Vec::new();
    let cause = format!("{}:{:?}", c.front, c.closer);
    let eof_wait = w.eof_wait;
    if c.closer == Closer::TargetAbort || c.closer == Closer::AppAbort {
        // only the end of the connection is judged: a reset may legitimately discard bytes in flight
        let up2 = if up.is_empty() { vec![1u8; 100] } else { up.clone() };
        let down2 = if down.is_empty() { vec![2u8; 100] } else { down.clone() };
        if c.closer == Closer::TargetAbort {
            app.write_all(&up2).await.map_err(|e| e.to_string())?;
            tokio::time::sleep(Duration::from_millis(80)).await; // the bytes now sit unread in the target's socket
            let _ = tconn.write_all(&down2).await;
            drop(tconn);
            let (_, ended) = read_until_eof(&mut app, 0, eof_wait).await;
            if !ended {
                problems.push((cause.clone(), "peer_no_eof".to_string(), "the target closed its socket with unread data (connection reset on the server side); the application did not observe the end of the connection within the bound".to_string()));
            }
        } else {
            tconn.write_all(&down2).await.map_err(|e| e.to_string())?;
            tokio::time::sleep(Duration::from_millis(80)).await;
            let _ = app.write_all(&up2).await;
            drop(app);
            let (_, ended) = read_until_eof(&mut tconn, 0, eof_wait).await;
            if !ended {
                problems.push((cause.clone(), "peer_no_eof".to_string(), "the application closed its socket with unread data (connection reset on the client side); the target did not observe the end of the connection within the bound".to_string()));
            }
        }
        return Ok(problems);
    }
    // data in flight in both directions at the moment of closing
    let (mut app_r, mut app_w) = app.split();
    let (mut t_r, mut t_w) = tconn.split();
    match c.closer {
        Closer::AppHalfClose | Closer::AppClose => {
            t_w.write_all(&down).await.map_err(|e| e.to_string())?;
            app_w.write_all(&up).await.map_err(|e| e.to_string())?;
            app_w.shutdown().await.map_err(|e| e.to_string())?;
            let (got_t, eof_t) = read_until_eof(&mut t_r, up.len(), eof_wait).await;
            if got_t != up {
                problems.push((cause.clone(), if got_t.len() < up.len() { "data_lost_at_close" } else { "data_wrong_at_close" }.to_string(), format!("the application sent {} bytes and finished; the target received {}", up.len(), got_t.len())));
            } else if !eof_t {
                problems.push((cause.clone(), "peer_no_eof".to_string(), format!("the application finished sending ({} bytes, all delivered); the target did not observe end of stream within the bound", up.len())));
            }
            // the other direction keeps working until it ends too
            let more = Pattern::new(c.uniq as u64, 1, 2).make(0, 777);
            let mut got_a = Vec::new();
            if c.closer == Closer::AppHalfClose {
                let _ = t_w.write_all(&more).await;
                let mut want = down.clone();
                want.extend_from_slice(&more);
                let (g, _) = read_until_eof(&mut app_r, want.len(), Duration::from_millis(50)).await;
                got_a = g;
                if got_a != want {
                    problems.push((cause.clone(), "other_direction_stopped".to_string(), format!("after the application half-closed, the target sent {} bytes in total, the application received {}", want.len(), got_a.len())));
                }
            }
            let _ = got_a;
            // now the target ends its direction: the application must see EOF
            let _ = t_w.shutdown().await;
            if c.closer == Closer::AppHalfClose {
                let (_, eof_a) = read_until_eof(&mut app_r, 0, eof_wait).await;
                if !eof_a {
                    problems.push((format!("{}:TargetCloseAfterAppHalfClose", c.front), "peer_no_eof".to_string(), "both directions were ended (application first, then target); the application did not observe end of stream within the bound".to_string()));
                }
            }
        }
        Closer::TargetAbort | Closer::AppAbort => {}
        Closer::TargetClose | Closer::TargetHalfClose => {
            app_w.write_all(&up).await.map_err(|e| e.to_string())?;
            t_w.write_all(&down).await.map_err(|e| e.to_string())?;
            t_w.shutdown().await.map_err(|e| e.to_string())?;
            let (got_a, eof_a) = read_until_eof(&mut app_r, down.len(), eof_wait).await;
            if got_a != down {
                problems.push((cause.clone(), if got_a.len() < down.len() { "data_lost_at_close" } else { "data_wrong_at_close" }.to_string(), format!("the target sent {} bytes and finished; the application received {}", down.len(), got_a.len())));
            } else if !eof_a {
                problems.push((cause.clone(), "peer_no_eof".to_string(), format!("the target finished sending ({} bytes, all delivered); the application did not observe end of stream within the bound", down.len())));
            }
            if c.closer == Closer::TargetHalfClose {
                let more = Pattern::new(c.uniq as u64, 1, 3).make(0, 555);
                let _ = app_w.write_all(&more).await;
                let mut want = up.clone();
                want.extend_from_slice(&more);
                let (g, _) = read_until_eof(&mut t_r, want.len(), Duration::from_millis(50)).await;
                if g != want {
                    problems.push((cause.clone(), "other_direction_stopped".to_string(), format!("after the target half-closed, the application sent {} bytes in total, the target received {}", want.len(), g.len())));
                }
                let _ = app_w.shutdown().await;
                let (_, eof_t) = read_until_eof(&mut t_r, 0, eof_wait).await;
                if !eof_t {
                    problems.push((format!("{}:AppCloseAfterTargetHalfClose", c.front), "peer_no_eof".to_string(), "both directions were ended (target first, then application); the target did not observe end of stream within the bound".to_string()));
                }
            }
        }
    }
    Ok(problems)
}

async fn build_world(eof_wait: Duration) -> Option<World> {
    let (server_addr, sh) = netkit::start_server(netkit::PASSWORD, engine::default_padding()).await?;
    let client = netkit::make_client(&server_addr, netkit::PASSWORD, engine::default_padding(), netkit::quiet_pool());
    let (socks, h1) = netkit::start_socks5(client.clone()).await?;
    let (http, h2) = netkit::start_http(client.clone()).await?;
    let mut t = Target::bind_v4(0).await?;
    let target_port = t.port;
    let accepted = Arc::new(std::sync::Mutex::new(std::collections::HashMap::new()));
    let acc2 = accepted.clone();
    let router = tokio::spawn(async move {
        while let Some(a) = t.rx.recv().await {
            acc2.lock().unwrap().insert(a.dialled.ip(), a.stream);
        }
    });
    Some(World { socks, http, accepted, target_port, eof_wait, _keep: vec![sh, h1, h2, router] })
}

/// task release: complete request cycles must not leave tasks behind in proportion to their number
async fn task_release(rep: &mut Report, w: &World) {
    let cycle = |uniq: u32| async move {
        let c = E2eCase { front: if uniq % 2 == 0 { "socks5" } else { "http_connect" }, closer: Closer::AppHalfClose, up_bytes: 100, down_bytes: 100, uniq };
        let _ = e2e_case(w, &c).await;
    };
    // warm up (session creation, pools)
    for u in 0..3 {
        cycle(60_000 + u).await;
    }
    tokio::time::sleep(Duration::from_millis(500)).await;
    let before = run::alive_tasks();
    let n = 12u32;
    for u in 0..n {
        cycle(61_000 + u).await;
    }
    tokio::time::sleep(Duration::from_secs(2)).await;
    let after = run::alive_tasks();
    rep.add("task_release_cycles", n as u64);
    rep.case(Some(hash_str("task-release")));
    let growth = after.saturating_sub(before);
    // new TLS sessions may legitimately add a handful of long-lived tasks; per-request growth may not
    if growth as u32 >= n {
        rep.violate("stream_end", "e2e:both_directions_ended", "task_retained", format!("{n} complete request cycles (both directions ended, sockets closed) left {growth} additional tasks alive ({before} -> {after})"), json!({"kind": "c08-task-release", "cycles": n}));
    }
}

pub fn run(ctx: Ctx) -> Report {
    let quick = ctx.tier == crate::report::Tier::Quick;
    let n_recv = ctx.tier.pick(4800, 160_000);
    let mut rep = run::run_sharded("C08", ctx.shards, move |shard, nshards, rep| {
        let mut rng = Rng::new(ctx.seed.wrapping_mul(53).wrapping_add(shard as u64) ^ 0xC08);
        for i in 0..n_recv / nshards {
            let c = gen_recv(&mut rng);
            run::case_begin(&format!("C08 recv case {i}"));
            let c2 = c.clone();
            let r = run::vt_block_on_deadline(Duration::from_secs(100_000), async move { recv_half(c2).await });
            rep.case(Some(hash_str(&c.describe().to_string())));
            rep.add("receiving_half_cases", 1);
            rep.add("fins_sent_by_scripted_peer", c.plans.iter().filter(|p| p.1).count() as u64);
            if shard == 0 && i < 2 {
                rep.sample(c.describe());
            }
            match r {
                None => rep.violate("stream_end", "session:peer_fin", "case_stuck", "did not finish", c.describe()),
                Some(problems) => {
                    let mut seen = std::collections::HashSet::new();
                    for (sym, det) in problems {
                        if sym == "setup" {
                            rep.inconclusive(det);
                        } else if seen.insert(sym.clone()) {
                            rep.violate("stream_end", "session:peer_fin", &sym, det, c.describe());
                        }
                    }
                }
            }
            for p in run::take_thread_panics() {
                if !run::is_harness_panic(&p) {
                    rep.violate("stream_end", "session:peer_fin", "panic", p, c.describe());
                }
            }
        }
        run::case_end();
    });
    // (2) end to end
    let seed = ctx.seed;
    run::case_begin("C08 e2e");
    let out = run::rt_block_on(8, async move {
        let mut rep = Report::new("C08");
        let Some(w) = build_world(Duration::from_secs(if quick { 4 } else { 10 })).await else {
            rep.inconclusive("cannot build world");
            return rep;
        };
        let w = Arc::new(w);
        let mut rng = Rng::new(seed ^ 0xE08);
        let mut cases = Vec::new();
        let mut uniq = 1u32;
        for _ in 0..if quick { 1 } else { 12 } {
            for front in ["socks5", "http_connect"] {
                for closer in [Closer::AppHalfClose, Closer::AppClose, Closer::TargetClose, Closer::TargetHalfClose, Closer::TargetAbort, Closer::AppAbort] {
                    for (u, d) in [(0usize, 0usize), (1, 1), (3000, 0), (0, 3000), (100_000, 50_000), (rng.usize(0, 300_000), rng.usize(0, 300_000))] {
                        uniq += 1;
                        cases.push(E2eCase { front, closer: closer.clone(), up_bytes: u, down_bytes: d, uniq });
                    }
                }
            }
        }
        let results = Arc::new(std::sync::Mutex::new(Vec::new()));
        {
            let w = w.clone();
            let results = results.clone();
            netkit::for_each_limited(cases, 24, move |c| {
                let w = w.clone();
                let results = results.clone();
                async move {
                    let r = tokio::time::timeout(Duration::from_secs(90), e2e_case(&w, &c)).await.unwrap_or(Err("case exceeded 90 s".into()));
                    results.lock().unwrap().push((c, r));
                }
            })
            .await;
        }
        let mut results = results.lock().unwrap().clone();
        // a problem seen while 24 cases ran at once is confirmed by re-running that case alone with the
        // long bound; only a repeatable miss is reported (a loaded machine must not raise an alarm)
        let slow = World { eof_wait: Duration::from_secs(10), socks: w.socks.clone(), http: w.http.clone(), accepted: w.accepted.clone(), target_port: w.target_port, _keep: Vec::new() };
        let mut next_uniq = 50_000u32;
        for (c, r) in results.iter_mut() {
            if matches!(r, Ok(p) if !p.is_empty()) || r.is_err() {
                next_uniq += 1;
                let mut c2 = c.clone();
                c2.uniq = next_uniq;
                let again = tokio::time::timeout(Duration::from_secs(120), e2e_case(&slow, &c2)).await.unwrap_or(Err("re-run exceeded 120 s".into()));
                rep.add("e2e_cases_rerun_in_isolation", 1);
                match (&*r, again) {
                    (_, Ok(p2)) if p2.is_empty() => *r = Ok(Vec::new()),
                    (_, Ok(p2)) => *r = Ok(p2),
                    (Err(_), Err(e2)) => *r = Err(e2),
                    (Ok(_), Err(_)) => {}
                }
            }
        }
        for (i, (c, r)) in results.iter().enumerate() {
            rep.case(Some(hash_str(&c.describe().to_string())));
            rep.add("e2e_close_cases", 1);
            rep.seen("front_x_closer", format!("{}:{:?}", c.front, c.closer));
            if i < 3 {
                rep.sample(c.describe());
            }
            match r {
                Err(e) => rep.inconclusive(format!("{:?}: {e}", c.describe())),
                Ok(problems) => {
                    rep.add("e2e_bytes_compared", (c.up_bytes + c.down_bytes) as u64);
                    for (cause, sym, det) in problems {
                        rep.violate("stream_end", &format!("e2e:{cause}"), sym, det.clone(), c.describe());
                    }
                }
            }
        }
        task_release(&mut rep, &w).await;
        rep
    });
    rep.merge(out);
    for p in run::panic_log() {
        if !run::is_harness_panic(&p) {
            rep.violate("stream_end", "any", "panic", p, json!({}));
        }
    }
    run::case_end();
    rep
}

pub fn meta() -> CheckMeta {
    CheckMeta {
        level: "exploration",
        rule: "(1) session level, virtual time: a scripted peer sends PSH..PSH,FIN for 1-8 streams of a real client or server Session (chunks 0..65535 bytes interleaved across streams, some streams without FIN, 3 transport fragmentation classes, reader buffers 1..70000): each reader must see exactly its bytes (online tag check) and end of stream iff its FIN was sent and only after all bytes; afterwards the victim sends on every stream (the other direction must keep working) and the stream tables must hold exactly the streams whose FIN has not arrived. (2) end to end, real time, SOCKS5 and HTTP CONNECT: application half-close / close / abort (close with unread data, i.e. a reset) and target close / half-close / abort with 0..300000 bytes in flight in both directions; the opposite endpoint must receive every byte sent before the close and then observe end of stream within the bound, the other direction must still carry data, and after both ended the second endpoint must see end of stream too; 12 complete request cycles must not leave tasks alive in proportion to their number. distinct_nontrivial = distinct cases. 15% of the session-level cases are bursts of 30-700 tiny (1-3 byte) frames per stream that reach the victim in one or a few transport reads, with the FIN far behind the first frame, followed by silence.".into(),
        assumptions: vec!["'observes end of stream' at the e2e level is decided with a 4 s (quick) / 10 s (thorough) bound on loopback".into(), "target connections are matched to cases by the unique 127.66.a.b address that was dialled".into()],
        floors: vec![("receiving_half_cases", 500), ("fins_sent_by_scripted_peer", 500), ("e2e_close_cases", 40), ("task_release_cycles", 10)],
        exhaustive: false,
    }
}
