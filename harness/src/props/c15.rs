//! C15 — UDP datagrams keep their boundaries and contents through the tunnel.
//! (1) end to end: Client::create_udp_proxy -> real Server -> recorder targets
//! on 127.x and ::1, lock-step request/response with unique datagrams;
//! (2) session level: the length-prefixed byte stream cut arbitrarily across
//! PSH frames and reads into the real handle_udp_over_tcp.

use crate::engine;
use crate::mempipe::{Frag, PipeCfg};
use crate::netkit;
use crate::prng::Rng;
use crate::refcodec;
use crate::report::{CheckMeta, Report, hash_str};
use crate::run::{self, Ctx};
use serde_json::json;
use std::net::{IpAddr, Ipv4Addr, Ipv6Addr, SocketAddr};
use std::sync::Arc;
use std::time::Duration;
use tokio::net::UdpSocket;

const SIZES: &[usize] = &[1, 2, 255, 256, 257, 1472, 8190, 8191, 8192, 8193, 8194, 16383, 16384, 16385, 32767, 32768, 65000, 65506, 65507];

fn datagram(seed: u64, seq: u32, len: usize, dir: u8) -> Vec<u8> {
    // unique: sequence number + direction up front (as far as the length allows), PRNG body
    let mut rng = Rng::new(seed ^ ((seq as u64) << 8) ^ dir as u64);
    let mut v = rng.bytes(len);
    let hdr = [dir, (seq >> 16) as u8, (seq >> 8) as u8, seq as u8];
    let n = hdr.len().min(len);
    v[..n].copy_from_slice(&hdr[..n]);
    v
}

fn gen_sizes(rng: &mut Rng, n: usize) -> Vec<usize> {
    (0..n)
        .map(|_| {
            if rng.chance(0.5) {
                *rng.pick(SIZES)
            } else {
                let hi = if rng.chance(0.7) { 2000 } else { 65507 };
                rng.usize(1, hi)
            }
        })
        .collect()
}

async fn recv_one(sock: &UdpSocket, wait: Duration) -> Option<(Vec<u8>, SocketAddr)> {
    let mut buf = vec![0u8; 70000];
    match tokio::time::timeout(wait, sock.recv_from(&mut buf)).await {
        Ok(Ok((n, from))) => Some((buf[..n].to_vec(), from)),
        _ => None,
    }
}

fn cmp(what: &str, sent: &[u8], got: &[u8]) -> Option<(String, String)> {
    if sent == got {
        return None;
    }
    let sym = if got.len() < sent.len() && sent.starts_with(got) {
        "datagram_truncated_or_split"
    } else if got.len() > sent.len() && got.starts_with(sent) {
        "datagrams_merged"
    } else if got.len() == sent.len() {
        "datagram_content_altered"
    } else {
        "datagram_differs"
    };
    Some((sym.to_string(), format!("{what}: sent {} bytes, received {} bytes (first difference at {})", sent.len(), got.len(), sent.iter().zip(got.iter()).position(|(a, b)| a != b).unwrap_or(sent.len().min(got.len())))))
}

/// one association end to end; returns problems (symptom, detail) and datagrams compared
static SENDER_SWITCHES: std::sync::atomic::AtomicU64 = std::sync::atomic::AtomicU64::new(0);

async fn association(client: Arc<anytls_rs::client::Client>, target_ip: IpAddr, sizes_up: Vec<usize>, sizes_down: Vec<usize>, seed: u64) -> Result<(Vec<(String, String)>, u64), String> {
    let target = UdpSocket::bind(SocketAddr::new(target_ip, 0)).await.map_err(|e| format!("bind target {target_ip}: {e}"))?;
    let decoy = UdpSocket::bind(SocketAddr::new(target_ip, 0)).await.map_err(|e| e.to_string())?;
    let target_addr = target.local_addr().map_err(|e| e.to_string())?;
    let local = tokio::time::timeout(Duration::from_secs(40), client.create_udp_proxy("127.0.0.1:0", target_addr)).await.map_err(|_| "create_udp_proxy timed out".to_string())?.map_err(|e| format!("create_udp_proxy: {e}"))?;
    tokio::time::sleep(Duration::from_millis(60)).await;
    let mut app = UdpSocket::bind("127.0.0.1:0").await.map_err(|e| e.to_string())?;
    // the application may re-open its socket (or a second local program may take over the association): about one
    // exchange in six is sent from a fresh local socket; the answer belongs to the socket that sent last
    let mut earlier_apps: Vec<UdpSocket> = Vec::new();
    let mut problems = Vec::new();
    let mut compared = 0u64;
    let n = sizes_up.len().max(sizes_down.len());
    for i in 0..n {
        if i > 0 && sizes_up.get(i).is_some() && earlier_apps.len() < 6 && (seed.rotate_right((i % 61) as u32) ^ i as u64) % 6 == 0 {
            let fresh = UdpSocket::bind("127.0.0.1:0").await.map_err(|e| e.to_string())?;
            earlier_apps.push(std::mem::replace(&mut app, fresh));
        }
        // application -> target
        let mut from_tunnel = None;
        if let Some(&len) = sizes_up.get(i) {
            let d = datagram(seed, i as u32, len, 1);
            app.send_to(&d, local).await.map_err(|e| format!("app send {len}: {e}"))?;
            match recv_one(&target, Duration::from_secs(6)).await {
                Some((got, from)) => {
                    compared += 1;
                    from_tunnel = Some(from);
                    if let Some(p) = cmp(&format!("datagram #{i} application->target ({len} bytes, target {target_addr})"), &d, &got) {
                        problems.push(p);
                        break;
                    }
                }
                None => {
                    problems.push(("datagram_never_delivered".into(), format!("datagram #{i} application->target ({len} bytes) did not arrive at {target_addr} within 6 s (lock-step, nothing else in flight)")));
                    break;
                }
            }
        }
        // target -> application (needs the tunnel's source address, learned from the first datagram)
        if let (Some(&len), Some(back)) = (sizes_down.get(i), from_tunnel) {
            let d = datagram(seed, i as u32, len, 2);
            target.send_to(&d, back).await.map_err(|e| format!("target send {len}: {e}"))?;
            match recv_one(&app, Duration::from_secs(6)).await {
                Some((got, _)) => {
                    compared += 1;
                    if let Some(p) = cmp(&format!("datagram #{i} target->application ({len} bytes)"), &d, &got) {
                        problems.push(p);
                        break;
                    }
                }
                None => {
                    let mut elsewhere = false;
                    for (k, old) in earlier_apps.iter().enumerate() {
                        if let Some((g, _)) = recv_one(old, Duration::from_millis(30)).await {
                            elsewhere = true;
                            problems.push(("datagram_sent_elsewhere".into(), format!("datagram #{i} target->application ({len} bytes) was delivered ({} bytes) to local socket #{k}, which had sent earlier on this association, instead of to the local socket that sent the latest datagram", g.len())));
                            break;
                        }
                    }
                    if !elsewhere {
                        problems.push(("datagram_never_delivered".into(), format!("datagram #{i} target->application ({len} bytes) did not arrive at the application within 6 s")));
                    }
                    break;
                }
            }
        }
    }
    // nothing extra, nothing sent elsewhere
    if problems.is_empty() {
        if let Some((g, _)) = recv_one(&target, Duration::from_millis(120)).await {
            problems.push(("datagram_duplicated".into(), format!("an extra datagram of {} bytes arrived at the target after the lock-step exchange", g.len())));
        }
        if let Some((g, _)) = recv_one(&app, Duration::from_millis(20)).await {
            problems.push(("datagram_duplicated".into(), format!("an extra datagram of {} bytes arrived at the application", g.len())));
        }
        for old in &earlier_apps {
            if let Some((g, _)) = recv_one(old, Duration::from_millis(2)).await {
                problems.push(("datagram_sent_elsewhere".into(), format!("a datagram of {} bytes arrived at a local socket that was no longer the association's latest sender", g.len())));
            }
        }
        if let Some((g, _)) = recv_one(&decoy, Duration::from_millis(5)).await {
            problems.push(("datagram_sent_elsewhere".into(), format!("a datagram of {} bytes arrived at another socket on the target host", g.len())));
        }
    }
    SENDER_SWITCHES.fetch_add(earlier_apps.len() as u64, std::sync::atomic::Ordering::Relaxed);
    Ok((problems, compared))
}


/// An association whose target goes away for a moment (its port is closed while one datagram is relayed, so the
/// relaying host is told "port unreachable") and comes back on the same address: the datagrams sent after it is
/// back must be delivered like any others. Returns (problems, datagrams compared).
async fn target_restart_association(client: Arc<anytls_rs::client::Client>, target_ip: IpAddr, seed: u64) -> Result<(Vec<(String, String)>, u64), String> {
    let target = UdpSocket::bind(SocketAddr::new(target_ip, 0)).await.map_err(|e| format!("bind target {target_ip}: {e}"))?;
    let target_addr = target.local_addr().map_err(|e| e.to_string())?;
    let local = tokio::time::timeout(Duration::from_secs(40), client.create_udp_proxy("127.0.0.1:0", target_addr)).await.map_err(|_| "create_udp_proxy timed out".to_string())?.map_err(|e| format!("create_udp_proxy: {e}"))?;
    tokio::time::sleep(Duration::from_millis(60)).await;
    let app = UdpSocket::bind("127.0.0.1:0").await.map_err(|e| e.to_string())?;
    let mut problems = Vec::new();
    let mut compared = 0u64;
    // before: one exchange both ways
    let d0 = datagram(seed, 0, 300, 1);
    app.send_to(&d0, local).await.map_err(|e| e.to_string())?;
    let Some((got, back)) = recv_one(&target, Duration::from_secs(6)).await else { return Err("first datagram not delivered (setup)".into()) };
    if got != d0 {
        return Err("first datagram altered (setup)".into());
    }
    let r0 = datagram(seed, 0, 200, 2);
    target.send_to(&r0, back).await.map_err(|e| e.to_string())?;
    if recv_one(&app, Duration::from_secs(6)).await.map(|x| x.0) != Some(r0) {
        return Err("first reply not delivered (setup)".into());
    }
    // the target is gone while one datagram is relayed
    drop(target);
    app.send_to(&datagram(seed, 1, 100, 1), local).await.map_err(|e| e.to_string())?;
    tokio::time::sleep(Duration::from_millis(150)).await;
    // ... and back on the same address
    let target = UdpSocket::bind(target_addr).await.map_err(|e| format!("re-bind {target_addr}: {e}"))?;
    for i in 2..5u32 {
        let len = [700usize, 1, 1472][(i - 2) as usize];
        let d = datagram(seed, i, len, 1);
        app.send_to(&d, local).await.map_err(|e| e.to_string())?;
        match recv_one(&target, Duration::from_secs(6)).await {
            Some((got, from)) => {
                compared += 1;
                if let Some(p) = cmp(&format!("datagram #{i} application->target after the target came back ({len} bytes)"), &d, &got) {
                    problems.push(p);
                    break;
                }
                let r = datagram(seed, i, len + 3, 2);
                target.send_to(&r, from).await.map_err(|e| e.to_string())?;
                match recv_one(&app, Duration::from_secs(6)).await {
                    Some((g, _)) => {
                        compared += 1;
                        if let Some(p) = cmp(&format!("datagram #{i} target->application after the target came back"), &r, &g) {
                            problems.push(p);
                            break;
                        }
                    }
                    None => {
                        problems.push(("datagram_never_delivered".into(), format!("datagram #{i} target->application did not arrive within 6 s after the target had come back on {target_addr}")));
                        break;
                    }
                }
            }
            None => {
                problems.push(("datagram_never_delivered".into(), format!("datagram #{i} application->target ({len} bytes) did not arrive within 6 s although the target is listening on {target_addr} again (it had been away while ONE earlier datagram was relayed)")));
                break;
            }
        }
    }
    Ok((problems, compared))
}

/// session level: the record stream cut arbitrarily across PSH frames into the real UDP handler
async fn fragmented_stream(seed: u64, sizes: Vec<usize>, v6: bool, pause_ms: u64) -> Result<(Vec<(String, String)>, u64), String> {
    let mut rng = Rng::new(seed);
    let ip: IpAddr = if v6 { Ipv6Addr::LOCALHOST.into() } else { Ipv4Addr::new(127, 0, 0, 1).into() };
    let target = UdpSocket::bind(SocketAddr::new(ip, 0)).await.map_err(|e| e.to_string())?;
    let taddr = target.local_addr().map_err(|e| e.to_string())?;
    let mut rv = engine::raw_vs_server(PipeCfg { read_frag: Frag::Pool(vec![1, 2, 3, 1000, 70000]), ..PipeCfg::plain() }, PipeCfg::plain(), engine::no_padding());
    rv.peer.send(refcodec::SETTINGS, 0, &engine::settings_payload("x")).await.map_err(|e| e.to_string())?;
    rv.peer.send(refcodec::SYN, 1, &[]).await.map_err(|e| e.to_string())?;
    let st = tokio::time::timeout(Duration::from_secs(5), rv.new_streams.recv()).await.map_err(|_| "no stream".to_string())?.ok_or("closed")?;
    let handler = tokio::spawn(async move {
        let _ = anytls_rs::server::handle_udp_over_tcp(st).await;
    });
    // the byte stream: initial request, then length-prefixed records
    let mut bytes: Vec<u8> = vec![1];
    match taddr {
        SocketAddr::V4(a) => {
            bytes.push(1);
            bytes.extend_from_slice(&a.ip().octets());
        }
        SocketAddr::V6(a) => {
            bytes.push(4);
            bytes.extend_from_slice(&a.ip().octets());
        }
    }
    bytes.extend_from_slice(&taddr.port().to_be_bytes());
    let head = bytes.len();
    let mut problems = Vec::new();
    let mut compared = 0u64;
    // send the head split arbitrarily
    let mut pos = 0;
    while pos < head {
        let n = rng.usize(1, 4).min(head - pos);
        rv.peer.send(refcodec::PSH, 1, &bytes[pos..pos + n]).await.map_err(|e| e.to_string())?;
        pos += n;
    }
    let mut back_addr = None;
    for (i, &len) in sizes.iter().enumerate() {
        let d = datagram(seed, i as u32, len, 1);
        let mut rec = (len as u16).to_be_bytes().to_vec();
        rec.extend_from_slice(&d);
        // cuts: prefix split 1+1, then the datagram split at random places (<= 65535 per frame)
        let mut cuts: Vec<usize> = match i % 4 {
            0 => vec![1],
            1 => vec![2],
            2 => vec![1, 2, 3],
            _ => vec![],
        };
        if pause_ms > 0 {
            cuts = vec![2, 2 + len / 2]; // slow mode: prefix | first half | second half
        } else {
            for _ in 0..rng.usize(0, 3) {
                cuts.push(rng.usize(1, rec.len()));
            }
        }
        let mut c = 0;
        while c + 60000 < rec.len() {
            c += 60000;
            cuts.push(c);
        }
        cuts.push(rec.len());
        cuts.sort();
        cuts.dedup();
        let mut p = 0;
        for cu in cuts {
            if cu > p {
                rv.peer.send(refcodec::PSH, 1, &rec[p..cu]).await.map_err(|e| e.to_string())?;
                p = cu;
                if pause_ms > 0 && p < rec.len() {
                    // a slow sender: the rest of the record arrives much later
                    tokio::time::sleep(Duration::from_millis(pause_ms)).await;
                } else if rng.chance(0.3) {
                    tokio::task::yield_now().await;
                }
            }
        }
        match recv_one(&target, Duration::from_secs(6)).await {
            Some((got, from)) => {
                compared += 1;
                back_addr = Some(from);
                if let Some(pb) = cmp(&format!("record #{i} ({len} bytes) cut across PSH frames"), &d, &got) {
                    problems.push(pb);
                    break;
                }
            }
            None => {
                problems.push(("datagram_never_delivered".into(), format!("record #{i} ({len} bytes) cut across PSH frames did not reach the target {taddr} within 6 s")));
                break;
            }
        }
        // reverse direction: the handler must emit exactly one length-prefixed record
        if let Some(back) = back_addr {
            let r = datagram(seed, i as u32, (len % 3000) + 1, 2);
            target.send_to(&r, back).await.map_err(|e| e.to_string())?;
            let mut collected: Vec<u8> = Vec::new();
            let want = r.len() + 2;
            let ok = tokio::time::timeout(Duration::from_secs(6), async {
                while collected.len() < want {
                    match rv.peer.recv().await {
                        Some(f) if f.cmd == refcodec::PSH && f.sid == 1 => collected.extend_from_slice(&f.data),
                        Some(_) => {}
                        None => break,
                    }
                }
            })
            .await
            .is_ok();
            compared += 1;
            let mut expect = (r.len() as u16).to_be_bytes().to_vec();
            expect.extend_from_slice(&r);
            if !ok || collected != expect {
                problems.push(("reverse_record_differs".into(), format!("datagram of {} bytes from the target: the tunnel stream carried {} bytes instead of the {}-byte length-prefixed record", r.len(), collected.len(), expect.len())));
                break;
            }
        }
    }
    handler.abort();
    let _ = tokio::time::timeout(Duration::from_secs(2), rv.server.close()).await;
    Ok((problems, compared))
}

pub fn run(ctx: Ctx) -> Report {
    let quick = ctx.tier == crate::report::Tier::Quick;
    let mut rep = Report::new("C15");
    let seed = ctx.seed;
    run::case_begin("C15 e2e");
    let out = run::rt_block_on(8, async move {
        let mut rep = Report::new("C15");
        let Some((server_addr, _sh)) = netkit::start_server(netkit::PASSWORD, engine::default_padding()).await else {
            rep.inconclusive("cannot start server");
            return rep;
        };
        let client = netkit::make_client(&server_addr, netkit::PASSWORD, engine::default_padding(), netkit::quiet_pool());
        let mut rng = Rng::new(seed ^ 0xC15);
        // (1) end to end
        let n_assoc = if quick { 48 } else { 1500 };
        let mut set = tokio::task::JoinSet::new();
        let sem = Arc::new(tokio::sync::Semaphore::new(8));
        for i in 0..n_assoc {
            let ip: IpAddr = match i % 3 {
                0 => Ipv4Addr::new(127, 0, 0, 1).into(),
                1 => Ipv4Addr::new(127, rng.range(1, 250) as u8, rng.below(255) as u8, rng.range(1, 250) as u8).into(),
                _ => Ipv6Addr::LOCALHOST.into(),
            };
            let n = if i < 6 { SIZES.len() } else { rng.usize(1, if quick { 12 } else { 50 }) };
            let (up, down) = if i < 6 { (SIZES.to_vec(), SIZES.iter().rev().copied().collect()) } else { (gen_sizes(&mut rng, n), gen_sizes(&mut rng, n)) };
            let s = rng.next();
            let c = client.clone();
            let permit = sem.clone().acquire_owned().await.unwrap();
            set.spawn(async move {
                let mut r = association(c.clone(), ip, up.clone(), down.clone(), s).await;
                drop(permit);
                if matches!(&r, Ok((p, _)) if p.iter().any(|x| x.0 == "datagram_never_delivered")) || r.is_err() {
                    // a 6 s wait expired while 8 associations ran at once: confirm alone
                    let again = association(c, ip, up.clone(), down.clone(), s).await;
                    if again.is_ok() {
                        r = again;
                    }
                }
                (ip, up, down, s, r)
            });
        }
        while let Some(Ok((ip, up, down, s, r))) = set.join_next().await {
            let fam = if ip.is_ipv6() { "ipv6_target" } else { "ipv4_target" };
            let case = json!({"kind": "c15-e2e", "target_ip": ip.to_string(), "sizes_up": up, "sizes_down": down, "seed": s.to_string()});
            rep.case(Some(hash_str(&case.to_string())));
            rep.add("associations", 1);
            rep.add(&format!("associations_{fam}"), 1);
            match r {
                Err(e) => rep.inconclusive(format!("{fam}: {e}")),
                Ok((problems, compared)) => {
                    rep.add("datagrams_compared", compared);
                    rep.max("max_datagram_size", up.iter().chain(down.iter()).copied().max().unwrap_or(0) as u64);
                    if rep.samples.len() < 3 {
                        rep.sample(json!({"target_ip": ip.to_string(), "sizes_up": &up[..up.len().min(8)], "sizes_down": &down[..down.len().min(8)], "datagrams_compared": compared}));
                    }
                    for (sym, det) in problems {
                        rep.violate("udp", fam, &sym, det, case.clone());
                    }
                }
            }
        }
        rep.add("local_sender_socket_changes_within_associations", SENDER_SWITCHES.swap(0, std::sync::atomic::Ordering::Relaxed));
        // (1b) targets that go away for a moment and come back
        for i in 0..if quick { 6 } else { 60 } {
            let ip: IpAddr = if i % 2 == 0 { Ipv4Addr::new(127, 0, 0, 1).into() } else { Ipv6Addr::LOCALHOST.into() };
            let s = rng.next();
            let case = json!({"kind": "c15-target-restart", "target_ip": ip.to_string(), "seed": s.to_string()});
            rep.case(Some(hash_str(&case.to_string())));
            let mut r = target_restart_association(client.clone(), ip, s).await;
            if matches!(&r, Ok((p, _)) if !p.is_empty()) {
                // 6 s waits: confirm once more before reporting
                let again = target_restart_association(client.clone(), ip, s ^ 1).await;
                if matches!(&again, Ok((p, _)) if p.is_empty()) {
                    r = again;
                }
            }
            match r {
                Err(e) => rep.inconclusive(format!("target restart: {e}")),
                Ok((problems, compared)) => {
                    rep.add("target_restart_associations", 1);
                    rep.add("datagrams_compared", compared);
                    for (sym, det) in problems {
                        rep.violate("udp", if ip.is_ipv6() { "target_restarted+ipv6_target" } else { "target_restarted+ipv4_target" }, &sym, det, case.clone());
                    }
                }
            }
        }
        // (2) session level
        let n_frag = if quick { 160 } else { 12000 };
        for i in 0..n_frag {
            let n = rng.usize(1, 10);
            let sizes = gen_sizes(&mut rng, n);
            let s = rng.next();
            let v6 = i % 4 == 3;
            let case = json!({"kind": "c15-fragmented", "sizes": sizes, "seed": s.to_string(), "ipv6": v6});
            rep.case(Some(hash_str(&case.to_string())));
            rep.add("fragmented_record_streams", 1);
            match fragmented_stream(s, sizes, v6, 0).await {
                Err(e) => rep.inconclusive(e),
                Ok((problems, compared)) => {
                    rep.add("records_compared", compared);
                    for (sym, det) in problems {
                        rep.violate("udp", if v6 { "fragmented_stream+ipv6_target" } else { "fragmented_stream+ipv4_target" }, &sym, det, case.clone());
                    }
                }
            }
        }
        // slow senders: 1.3 s / 2.4 s between the pieces of one record (a few streams, run concurrently)
        let mut set = tokio::task::JoinSet::new();
        for (k, pause) in [1300u64, 1700, 1300, 2400, 600].into_iter().enumerate().take(if quick { 3 } else { 5 }) {
            let s = rng.next();
            set.spawn(async move { (pause, fragmented_stream(s, vec![300, 5], k % 2 == 1, pause).await) });
        }
        while let Some(Ok((pause, r))) = set.join_next().await {
            let case = json!({"kind": "c15-fragmented-slow", "pause_ms_between_pieces": pause, "sizes": [300, 5]});
            rep.case(Some(hash_str(&case.to_string())));
            rep.add("slow_record_streams", 1);
            match r {
                Err(e) => rep.inconclusive(e),
                Ok((problems, compared)) => {
                    rep.add("records_compared", compared);
                    for (sym, det) in problems {
                        rep.violate("udp", "fragmented_stream+slow_sender", &sym, format!("{det} (pieces of a record {pause} ms apart)"), case.clone());
                    }
                }
            }
        }
        rep
    });
    rep.merge(out);
    for p in run::panic_log() {
        if !run::is_harness_panic(&p) {
            rep.violate("udp", "any", "panic", p, json!({}));
        }
    }
    run::case_end();
    rep
}

pub fn meta() -> CheckMeta {
    CheckMeta {
        level: "exploration",
        rule: "(1) end to end: Client::create_udp_proxy -> real Server -> a recording UDP socket bound on 127.0.0.1, a random 127.a.b.c or ::1 (plus a decoy socket on the same host); lock-step exchanges of unique datagrams (direction + sequence number + PRNG body) in both directions, sizes from {1,2,255,256,257,1472,8190-8194,16383-16385,32767,32768,65000,65506,65507} and uniform 1..65507, sequences of 1-50 (the first associations run the whole boundary list both ways); each datagram must arrive once, whole, unaltered, at the right socket, nothing extra afterwards. (2) session level: the initial request and the length-prefixed records cut arbitrarily across PSH frames (length prefix split 1+1, records split anywhere, <= 65535 per frame) and delivered in 1-3-byte / large read pieces into the real handle_udp_over_tcp; also with 0.6-2.4 s pauses between the pieces of one record; every record must come out as exactly one identical datagram, and every datagram sent back by the target must appear in the tunnel as exactly one length-prefixed record. distinct_nontrivial = distinct (target, size sequences). (1b) target restarts: after one exchange the target socket is closed while one datagram is relayed (the relaying host is told 'port unreachable'), then bound again on the same address; the next three datagrams in each direction must be delivered like any others.".into(),
        assumptions: vec!["lock-step on loopback: one datagram in flight at a time, so socket-buffer loss is excluded and a 6 s wait decides 'never delivered'".into()],
        floors: vec![("associations", 15), ("datagrams_compared", 200), ("associations_ipv6_target", 4), ("records_compared", 100), ("slow_record_streams", 3), ("target_restart_associations", 4), ("local_sender_socket_changes_within_associations", 10)],
        exhaustive: false,
    }
}
