//! C20 — hostile or garbled input cannot crash or wedge the proxy.
//! (a) frame level, virtual time, both roles: this file.
//! (b)/(c) handlers and listeners over loopback: `e2e`.

use crate::engine::{self, PairCfg};
use crate::mempipe::{Frag, PipeCfg};
use crate::prng::{Pattern, Rng};
use crate::refcodec;
use crate::refscheme::{self, GenCfg};
use crate::report::{CheckMeta, Report, hash_str, hex};
use crate::run::{self, Ctx};
use bytes::Bytes;
use serde_json::{Value, json};
use std::time::Duration;
use tokio::io::AsyncWriteExt;

const D: u64 = 120;

#[derive(Clone, Debug)]
pub struct Hostile {
    pub victim_server: bool,
    pub class: &'static str,
    pub bytes: Vec<u8>,
    pub frag: u8,
    pub seed: u64,
}

impl Hostile {
    fn describe(&self) -> Value {
        json!({"kind": "c20", "victim": if self.victim_server { "server" } else { "client" }, "class": self.class, "len": self.bytes.len(), "frag": self.frag, "seed": self.seed.to_string(), "bytes_hex_prefix": hex(&self.bytes[..self.bytes.len().min(300)])})
    }
}

/// a valid byte stream for the given direction (towards the victim)
fn valid_traffic(rng: &mut Rng, towards_server: bool) -> Vec<Vec<u8>> {
    let mut f: Vec<Vec<u8>> = Vec::new();
    if towards_server {
        f.push(refcodec::encode(refcodec::SETTINGS, 0, &engine::settings_payload("0123456789abcdef0123456789abcdef")));
        for id in 1..=3u32 {
            f.push(refcodec::encode(refcodec::SYN, id, &[]));
            f.push(refcodec::encode(refcodec::PSH, id, &[1, 127, 0, 0, 1, 0, 80]));
            f.push(refcodec::encode(refcodec::PSH, id, &rng.bytes_in(0, 400)));
        }
        f.push(refcodec::encode(refcodec::HEART_REQ, 0, &[]));
        f.push(refcodec::encode(refcodec::WASTE, 0, &vec![0; rng.usize(0, 100)]));
        f.push(refcodec::encode(refcodec::FIN, 2, &[]));
        f.push(refcodec::encode(refcodec::PSH, 1, &rng.bytes_in(0, 3000)));
    } else {
        f.push(refcodec::encode(refcodec::SERVER_SETTINGS, 0, b"v=2"));
        f.push(refcodec::encode(refcodec::SYNACK, 1, &[]));
        f.push(refcodec::encode(refcodec::SYNACK, 2, b"Failed to connect to x:1: refused"));
        f.push(refcodec::encode(refcodec::PSH, 1, &rng.bytes_in(0, 400)));
        f.push(refcodec::encode(refcodec::HEART_REQ, 7, &[]));
        f.push(refcodec::encode(refcodec::HEART_RESP, 0, &[]));
        f.push(refcodec::encode(refcodec::UPDATE_PADDING, 0, b"stop=3\n0=10-20\n1=30-60\n2=5-9,c,100-200"));
        f.push(refcodec::encode(refcodec::PSH, 1, &rng.bytes_in(0, 3000)));
        f.push(refcodec::encode(refcodec::FIN, 1, &[]));
    }
    f
}

fn fuzz_text(rng: &mut Rng) -> Vec<u8> {
    match rng.below(11) {
        0 => rng.bytes_in(0, 200), // arbitrary, mostly invalid UTF-8
        1 => b"v=999999999999999999999\npadding-md5=\nclient=".to_vec(),
        2 => b"v=-1\nv=2\nv=\n=\n==\n\n\n".to_vec(),
        3 => {
            let mut s = String::new();
            for i in 0..rng.usize(100, 3000) {
                s.push_str(&format!("k{i}={}\n", i * 7));
            }
            s.into_bytes()
        }
        4 => format!("stop={}\n0={}-{}\n1=c,c,c,{}-{}", rng.next(), rng.next(), rng.next(), i64::MAX, 1).into_bytes(),
        5 => b"stop=4\n0=-5--1\n1=99999999999999999999999-3\n2=1-1,c,2-2\n3=c".to_vec(),
        6 => {
            let s = refscheme::gen_scheme(rng, &GenCfg { max_size: 70_000, boundary_heavy: true, allow_junk: true, sane_line0: false });
            s.text().into_bytes()
        }
        7 => b"stop=2\n0=4294967295-4294967295\n1=2147483648-2147483648,4294967296-4294967301".to_vec(),
        9 => {
            // every line: descending ranges, ranges of one, check marks in odd places
            let mut s = String::from("stop=14");
            for k in 0..14 {
                let a = rng.range(1, 1500);
                let b = rng.range(1, 1500);
                s.push_str(&format!("\n{k}={}-{},c,{}-{},c,c,{}-{}", a.max(b), a.min(b), a, a, b.max(a) + 3, b.min(a)));
            }
            s.into_bytes()
        }
        _ => "stop=3\n1=１０-２０\n2=١-٢\nv=２".as_bytes().to_vec(),
    }
}

fn mutate(rng: &mut Rng, frames: &[Vec<u8>]) -> (Vec<u8>, &'static str) {
    let mut fr: Vec<Vec<u8>> = frames.to_vec();
    let kind = rng.below(6);
    match kind {
        0 => {
            let mut all: Vec<u8> = fr.concat();
            for _ in 0..rng.usize(1, 8) {
                if !all.is_empty() {
                    let i = rng.usize(0, all.len() - 1);
                    all[i] ^= 1 << rng.below(8);
                }
            }
            (all, "bit_flips")
        }
        1 => {
            let all: Vec<u8> = fr.concat();
            let cut = rng.usize(0, all.len());
            (all[..cut].to_vec(), "truncation")
        }
        2 => {
            let i = rng.usize(0, fr.len() - 1);
            let d = fr[i].clone();
            let at = rng.usize(0, fr.len());
            fr.insert(at, d);
            (fr.concat(), "frame_duplication")
        }
        3 => {
            rng.shuffle(&mut fr);
            (fr.concat(), "frame_reordering")
        }
        4 => {
            let i = rng.usize(0, fr.len() - 1);
            let v = *rng.pick(&[0u16, 1, 0xFFFF, 0x7FFF, 0x8000, 255, 256]);
            fr[i][5] = (v >> 8) as u8;
            fr[i][6] = v as u8;
            (fr.concat(), "length_field_corruption")
        }
        _ => {
            let i = rng.usize(0, fr.len() - 1);
            fr[i][0] = rng.below(256) as u8;
            if rng.chance(0.5) {
                let sid = rng.next() as u32;
                fr[i][1..5].copy_from_slice(&sid.to_be_bytes());
            }
            (fr.concat(), "command_or_id_corruption")
        }
    }
}

pub fn gen_case(rng: &mut Rng, idx: usize) -> Hostile {
    let victim_server = idx % 2 == 0;
    let (bytes, class): (Vec<u8>, &'static str) = match idx / 2 % 5 {
        0 => (rng.bytes_in(0, 2000), "uniform_random"),
        1 | 2 => {
            let v = valid_traffic(rng, victim_server);
            mutate(rng, &v)
        }
        3 => {
            // settings / scheme payload fuzz inside otherwise valid traffic
            let cmd = if victim_server { refcodec::SETTINGS } else { *rng.pick(&[refcodec::SERVER_SETTINGS, refcodec::UPDATE_PADDING, refcodec::UPDATE_PADDING]) };
            let mut v = Vec::new();
            let t = fuzz_text(rng);
            for chunk in t.chunks(65535) {
                v.extend_from_slice(&refcodec::encode(cmd, rng.below(3) as u32, chunk));
            }
            let tail = valid_traffic(rng, victim_server);
            v.extend(tail.concat());
            (v, "settings_or_scheme_fuzz")
        }
        _ => {
            // a burst from the cmd x id x length cross product, including role-illegal frames
            let mut v = Vec::new();
            for _ in 0..rng.usize(1, 30) {
                let cmd = if rng.chance(0.8) { rng.range(0, 10) as u8 } else { rng.below(256) as u8 };
                let sid = *rng.pick(&[0u32, 1, 2, 3, 1000, u32::MAX]);
                let len = *rng.pick(&[0usize, 1, 7, 100, 3000, 65535]);
                if cmd == refcodec::ALERT && rng.chance(0.7) {
                    continue; // alerts end the session: keep some, but let the rest of the burst be seen
                }
                v.extend_from_slice(&refcodec::encode(cmd, sid, &rng.bytes(len)));
            }
            (v, "command_id_length_cross_product")
        }
    };
    Hostile { victim_server, class, bytes, frag: rng.below(3) as u8, seed: rng.next() }
}

/// the full cmd x ids x lengths grid, one frame per case (plus a valid prelude so that ids 1..3 exist)
pub fn grid_case(cmd: u8, sid: u32, len: usize, victim_server: bool) -> Hostile {
    let mut rng = Rng::new(cmd as u64 * 977 + sid as u64 + len as u64);
    let mut bytes = valid_traffic(&mut rng, victim_server)[..4].concat();
    bytes.extend_from_slice(&refcodec::encode(cmd, sid, &rng.bytes(len)));
    bytes.extend_from_slice(&refcodec::encode(refcodec::PSH, 1, b"after"));
    Hostile { victim_server, class: "single_frame_grid", bytes, frag: 0, seed: 1 }
}

async fn sibling_ok() -> Result<(), String> {
    // an unrelated session pair in the same runtime must keep working
    let mut pair = engine::make_pair(PairCfg::plain()).await;
    let pat = Pattern::new(99, 1, 0);
    let (st, _rx) = engine::open_like_client(&pair.client, Bytes::from(pat.make(0, 600))).await.map_err(|e| format!("sibling open: {e}"))?;
    let srv = tokio::time::timeout(Duration::from_secs(30), pair.new_streams.recv()).await.map_err(|_| "sibling stream never arrived".to_string())?.ok_or("sibling channel closed")?;
    let mut buf = vec![0u8; 600];
    tokio::time::timeout(Duration::from_secs(30), async { srv.reader().lock().await.read_exact(&mut buf).await }).await.map_err(|_| "sibling read blocked".to_string())?.map_err(|e| e.to_string())?;
    if pat.first_mismatch(0, &buf).is_some() {
        return Err("sibling session delivered wrong bytes".into());
    }
    srv.send_data(Bytes::from(pat.make(600, 300))).map_err(|e| e.to_string())?;
    let mut buf2 = vec![0u8; 300];
    tokio::time::timeout(Duration::from_secs(30), async { st.reader().lock().await.read_exact(&mut buf2).await }).await.map_err(|_| "sibling reverse read blocked".to_string())?.map_err(|e| e.to_string())?;
    if pat.first_mismatch(600, &buf2).is_some() {
        return Err("sibling session delivered wrong bytes (reverse)".into());
    }
    let _ = tokio::time::timeout(Duration::from_secs(5), pair.client.close()).await;
    let _ = tokio::time::timeout(Duration::from_secs(5), pair.server.close()).await;
    tokio::time::sleep(Duration::from_secs(5)).await;
    Ok(())
}

async fn run_async(h: Hostile) -> Vec<(String, String)> {
    let mut problems = Vec::new();
    let pc = match h.frag {
        0 => PipeCfg::plain(),
        1 => PipeCfg { read_frag: Frag::Pool(vec![1, 6, 7, 8, 31]), ..PipeCfg::plain() },
        _ => PipeCfg { read_frag: Frag::Random(200), pending_prob: 0.1, seed: h.seed, ..PipeCfg::plain() },
    };
    let mut harness_tasks = Vec::new();
    let victim;
    let mut peer;
    let out_handle;
    let mut keep_server_tasks = Vec::new();
    if h.victim_server {
        let mut rv = engine::raw_vs_server(pc, PipeCfg::plain(), engine::default_padding());
        let mut ns = std::mem::replace(&mut rv.new_streams, tokio::sync::mpsc::unbounded_channel().1);
        harness_tasks.push(tokio::spawn(async move {
            while let Some(st) = ns.recv().await {
                tokio::spawn(async move {
                    let mut buf = vec![0u8; 4096];
                    loop {
                        let r = {
                            let mut g = st.reader().lock().await;
                            g.read(&mut buf).await
                        };
                        if !matches!(r, Ok(n) if n > 0) {
                            break;
                        }
                        let _ = st.send_data(Bytes::from_static(b"echo"));
                    }
                });
            }
        }));
        victim = rv.server.clone();
        out_handle = rv.s2c.clone();
        keep_server_tasks = rv.server_tasks;
        peer = rv.peer;
    } else {
        let cv = engine::client_vs_raw(PipeCfg::plain(), pc, engine::default_padding(), None).await;
        // scheme / settings fuzz: open a single stream first so that the writes that follow the hostile
        // input are packets 2, 3, ... and walk through every line of a pushed scheme
        let opens = if h.class == "settings_or_scheme_fuzz" { 1u8 } else { 3u8 };
        for i in 0..opens {
            if let Ok(Ok((st, _rx))) = tokio::time::timeout(Duration::from_secs(D), engine::open_like_client(&cv.client, Bytes::from(vec![i; 7]))).await {
                harness_tasks.push(tokio::spawn(async move {
                    let mut buf = vec![0u8; 4096];
                    loop {
                        let r = {
                            let mut g = st.reader().lock().await;
                            g.read(&mut buf).await
                        };
                        if !matches!(r, Ok(n) if n > 0) {
                            break;
                        }
                    }
                }));
            }
        }
        victim = cv.client.clone();
        out_handle = cv.c2s.clone();
        peer = cv.peer;
    }
    // feed the hostile bytes (the raw peer's writer is unbounded)
    let _ = peer.w.write_all(&h.bytes).await;
    tokio::time::sleep(Duration::from_secs(1)).await;
    // the victim keeps being used by its owner: none of these calls may block beyond D
    let owner_writes = if h.class == "settings_or_scheme_fuzz" { 12u32 } else { 3u32 };
    for k in 0..owner_writes {
        let r = tokio::time::timeout(Duration::from_secs(D), victim.write_data_frame(1, Bytes::from(vec![k as u8; 50 + 500 * (k as usize % 4)]))).await;
        if r.is_err() {
            problems.push(("owner_write_blocked".into(), format!("write_data_frame on the session that received the hostile input is still pending after {D} virtual seconds")));
            break;
        }
    }
    if !h.victim_server && tokio::time::timeout(Duration::from_secs(D), victim.open_stream()).await.is_err() {
        problems.push(("owner_open_blocked".into(), format!("open_stream is still pending after {D} virtual seconds")));
    }
    // whatever the victim wrote must still be a well-formed frame stream
    tokio::time::sleep(Duration::from_secs(1)).await;
    let wire = out_handle.log().bytes;
    let (_f, consumed) = refcodec::parse_all(&wire);
    if consumed != wire.len() && !victim.is_closed() {
        problems.push(("victim_wire_corrupted".into(), format!("the victim's own output stops parsing as frames at offset {consumed} of {}", wire.len())));
    }
    // the hostile peer goes away: the victim must wind down completely
    let _ = peer.w.shutdown().await;
    tokio::time::sleep(Duration::from_secs(D)).await;
    if !victim.is_closed() {
        problems.push(("not_closed_after_peer_left".into(), format!("session still open {D} virtual seconds after the peer closed the transport")));
    }
    drop(peer);
    for t in &harness_tasks {
        t.abort();
    }
    for t in harness_tasks {
        let _ = t.await;
    }
    tokio::time::sleep(Duration::from_secs(30)).await;
    let alive = run::alive_tasks();
    if alive > 0 {
        let srv: Vec<&str> = keep_server_tasks.iter().enumerate().filter(|(_, t)| !t.is_finished()).map(|(i, _)| if i == 0 { "recv_loop" } else { "process_stream_data" }).collect();
        problems.push(("task_wedged".into(), format!("{alive} task(s) still alive {D}+30 virtual seconds after the hostile peer left (server-side session tasks alive: {:?})", srv)));
    }
    if let Err(e) = sibling_ok().await {
        problems.push(("sibling_session_affected".into(), e));
    }
    problems
}

fn run_case(rep: &mut Report, h: &Hostile, sample: bool) {
    run::case_begin(&format!("C20 {} victim_server={} len={} seed={}", h.class, h.victim_server, h.bytes.len(), h.seed));
    let h2 = h.clone();
    let r = run::vt_block_on_deadline(Duration::from_secs(1_000_000), async move { run_async(h2).await });
    rep.case(Some(hash_str(&format!("{}{}{}", h.class, h.victim_server, hex(&h.bytes[..h.bytes.len().min(400)])))));
    rep.add("hostile_inputs", 1);
    rep.add("hostile_bytes", h.bytes.len() as u64);
    rep.add(&format!("class_{}", h.class), 1);
    let cause = format!("{}+{}", h.class, if h.victim_server { "server" } else { "client" });
    match r {
        None => rep.violate("robustness", &cause, "case_stuck", "monitor did not finish in 10^6 virtual seconds", h.describe()),
        Some(problems) => {
            for (sym, det) in problems {
                rep.violate("robustness", &cause, &sym, det, h.describe());
            }
        }
    }
    for p in run::take_thread_panics() {
        if run::is_harness_panic(&p) {
            rep.inconclusive(format!("harness panic: {p}"));
        } else {
            rep.violate("robustness", &cause, "panic", format!("panic: {p}"), h.describe());
        }
    }
    if sample {
        rep.sample(h.describe());
    }
}

pub fn run_frame_level(ctx: Ctx) -> Report {
    let n = ctx.tier.pick(200_000, 3_000_000);
    run::run_sharded("C20", ctx.shards, move |shard, nshards, rep| {
        let mut rng = Rng::new(ctx.seed.wrapping_mul(389).wrapping_add(shard as u64) ^ 0xC20);
        for i in 0..n / nshards {
            let h = gen_case(&mut rng, i);
            run_case(rep, &h, shard == 0 && i < 4);
        }
        // single-frame grid: every command byte x ids x lengths, both roles
        let mut job = 0usize;
        let cmds: Vec<u8> = if ctx.tier == crate::report::Tier::Quick { (0..=12).chain([100u8, 255]).collect() } else { (0..=255).collect() };
        for &cmd in &cmds {
            for sid in [0u32, 1, 2, 9, u32::MAX] {
                for len in [0usize, 1, 100, 65535] {
                    for vs in [true, false] {
                        job += 1;
                        if job % nshards != shard {
                            continue;
                        }
                        let h = grid_case(cmd, sid, len, vs);
                        rep.add("grid_frames", 1);
                        run_case(rep, &h, false);
                    }
                }
            }
        }
        run::case_end();
    })
}

pub fn meta() -> CheckMeta {
    CheckMeta {
        level: "exploration",
        rule: "frame level, virtual time, both roles: a real client or server Session (with open streams and readers) is fed by a raw peer with (i) uniform random bytes, (ii) valid traffic mutated by bit flips / truncation / frame duplication / frame reordering / length-field corruption / command-or-id corruption, (iii) Settings, ServerSettings and UpdatePaddingScheme payloads from a string-map and scheme fuzzer (invalid UTF-8, huge and negative numbers, thousands of keys, sizes >= 2^31, non-ASCII digits) followed by valid traffic, (iv) bursts from the command x id x length cross product incl. role-illegal frames, (v) the single-frame grid command byte x {0,1,2,9,2^32-1} x {0,1,100,65535}; 3 fragmentation classes. After the input the owner keeps using the session (writes, open) and then the hostile peer closes. Oracle: no panic anywhere (process-wide hook), owner calls return within 120 virtual seconds, the victim's own output still parses as frames, the session is closed and NO task is alive 150 virtual seconds after the peer left, and an unrelated sibling session pair in the same runtime then moves 900 tagged bytes correctly; a case that burns CPU without finishing is reported by the watchdog as a spin. Loopback part: hostile destination headers / datagram streams into the real TcpProxyHandler and UDP handler, hostile bytes into the real SOCKS5 and HTTP listeners. distinct_nontrivial = distinct (class, role, leading input bytes). Failing destinations: well-formed domain destinations of every length made of 1-, 2-, 3- and 4-byte characters, unresolvable or resolving to a closed port, into the real TcpProxyHandler: each open must be answered by a refusal, the handler must end, and nothing may panic while the refusal is composed.".into(),
        assumptions: vec!["'blocks beyond the documented timeouts' is decided as: still pending after 120 virtual seconds".into(), "alert frames legitimately end the session".into()],
        floors: vec![("hostile_inputs", 3000), ("class_uniform_random", 300), ("class_settings_or_scheme_fuzz", 300), ("class_command_id_length_cross_product", 300), ("grid_frames", 500), ("hostile_handler_inputs", 100), ("hostile_listener_inputs", 200), ("failing_destinations_refused", 200)],
        exhaustive: false,
    }
}

// ---------------------------------------------------------------------------
// (b) hostile destination headers / datagram streams into the real handlers,
// (c) hostile bytes into the real SOCKS5 and HTTP listeners (loopback, real time)

pub fn run_loopback(ctx: Ctx) -> Report {
    use crate::netkit::{self, SocksDest, Target};
    use anytls_rs::server::{StreamHandler, TcpProxyHandler};
    use tokio::io::AsyncReadExt;
    use tokio::net::TcpStream;
    let quick = ctx.tier == crate::report::Tier::Quick;
    let seed = ctx.seed;
    run::case_begin("C20 loopback");
    let mut rep = run::rt_block_on(8, async move {
        let mut rep = Report::new("C20");
        let Some(dns) = netkit::start_fake_dns().await else {
            rep.inconclusive("cannot start fake DNS");
            return rep;
        };
        let _ = netkit::use_fake_dns(&dns).await;
        let mut rng = Rng::new(seed ^ 0xB20);
        let mut panics_reported = run::panic_log().len();
        // ---- (b) handlers on a MemPipe server session
        let n_b = if quick { 150 } else { 4000 };
        for i in 0..n_b {
            let udp = i % 3 == 2;
            let mut rv = engine::raw_vs_server(PipeCfg { read_frag: Frag::Pool(vec![1, 2, 5, 64]), ..PipeCfg::plain() }, PipeCfg::plain(), engine::no_padding());
            let _ = rv.peer.send(refcodec::SETTINGS, 0, &engine::settings_payload("x")).await;
            let _ = rv.peer.send(refcodec::SYN, 1, &[]).await;
            let Some(st) = tokio::time::timeout(Duration::from_secs(5), rv.new_streams.recv()).await.ok().flatten() else { continue };
            let session = rv.server.clone();
            let handler = tokio::spawn(async move {
                if udp {
                    let _ = anytls_rs::server::handle_udp_over_tcp(st).await;
                } else {
                    let _ = TcpProxyHandler::new().handle_stream(st, session).await;
                }
            });
            // hostile header: random type/length bytes, truncated names, invalid UTF-8, then garbage records
            let mut bytes = match rng.below(6) {
                0 => rng.bytes_in(0, 40),
                1 => vec![3, 255],
                2 => {
                    let mut v = vec![3, 10];
                    v.extend_from_slice(&[0xFF, 0xFE, b'a', 0xC0, 0x80, b'.', b'x', 0xF5, b'y', b'z', 0, 80]);
                    v
                }
                3 => vec![rng.below(256) as u8],
                4 => {
                    let mut v = vec![1, 127, 0, 0, 1];
                    v.extend_from_slice(&rng.bytes_in(0, 1));
                    v
                }
                _ => {
                    let mut v = SocksDest::Name(format!("h{i}.hostile.test"), 9).encode();
                    v.extend_from_slice(&rng.bytes_in(0, 300));
                    v
                }
            };
            if udp {
                let mut v = vec![rng.below(3) as u8];
                v.append(&mut bytes);
                // length prefixes that lie
                v.extend_from_slice(&[0xFF, 0xFF, 1, 2, 3]);
                bytes = v;
            }
            let _ = rv.peer.send(refcodec::PSH, 1, &bytes).await;
            // the client side of the stream ends; the handler must not hang on the missing rest
            let _ = rv.peer.send(refcodec::FIN, 1, &[]).await;
            let done = tokio::time::timeout(Duration::from_secs(20), handler).await.is_ok();
            rep.case(Some(hash_str(&format!("handler:{udp}:{}", hex(&bytes[..bytes.len().min(40)])))));
            rep.add("hostile_handler_inputs", 1);
            if !done {
                rep.violate("robustness", if udp { "udp_handler" } else { "tcp_handler" }, "handler_wedged", format!("the stream handler is still running 20 s after its stream ended; input {}", hex(&bytes[..bytes.len().min(60)])), json!({"kind": "c20-handler", "udp": udp, "bytes_hex": hex(&bytes)}));
            }
            let _ = tokio::time::timeout(Duration::from_secs(2), rv.server.close()).await;
        }
        // ---- (b2) well-formed destinations on which every failure path of the TCP handler runs: names of every length
        // made of 1-, 2-, 3- and 4-byte characters, unresolvable (the fake DNS answers NXDOMAIN for "nx...") or
        // resolvable to a closed port; the peer is entitled to a refusal, the handler must survive composing it
        {
            let closed_port = crate::netkit::free_port();
            let mut n_done = 0u64;
            for ch in ["a", "\u{e9}", "\u{20ac}", "\u{1f600}"] {
                let max_n = (255 - 7) / ch.len();
                let step = if quick { 3 } else { 1 };
                for n in (1..=max_n).step_by(step) {
                    for unresolvable in [true, false] {
                        let name = if unresolvable { format!("nx{}.test", ch.repeat(n)) } else { format!("{}.c20.test", ch.repeat(n)) };
                        if name.len() > 255 {
                            continue;
                        }
                        let mut rv = engine::raw_vs_server(PipeCfg::plain(), PipeCfg::plain(), engine::no_padding());
                        let _ = rv.peer.send(refcodec::SETTINGS, 0, &engine::settings_payload("x")).await;
                        let _ = rv.peer.send(refcodec::SYN, 1, &[]).await;
                        let Some(st) = tokio::time::timeout(Duration::from_secs(5), rv.new_streams.recv()).await.ok().flatten() else { continue };
                        let session = rv.server.clone();
                        let handler = tokio::spawn(async move {
                            let _ = TcpProxyHandler::new().handle_stream(st, session).await;
                        });
                        let _ = rv.peer.send(refcodec::PSH, 1, &SocksDest::Name(name.clone(), closed_port).encode()).await;
                        // the refusal must arrive: an error SYNACK for the stream (no point in waiting once the handler is gone)
                        let mut handler = handler;
                        let wait_answer = async {
                            loop {
                                match rv.peer.recv().await {
                                    Some(f) if f.cmd == refcodec::SYNACK && f.sid == 1 => return true, // a refusal is expected; an acceptance (somebody does listen there) is an answer too
                                    Some(_) => {}
                                    None => return false,
                                }
                            }
                        };
                        let mut handler_done = false;
                        let answered = tokio::select! {
                            a = tokio::time::timeout(Duration::from_secs(15), wait_answer) => a.unwrap_or(false),
                            _ = &mut handler => {
                                handler_done = true;
                                false
                            }
                        };
                        let answered = if handler_done {
                            // the handler ended first: whatever it sent is already on its way
                            tokio::time::timeout(Duration::from_millis(200), async {
                                loop {
                                    match rv.peer.recv().await {
                                        Some(f) if f.cmd == refcodec::SYNACK && f.sid == 1 => return true, // a refusal is expected; an acceptance (somebody does listen there) is an answer too
                                        Some(_) => {}
                                        None => return false,
                                    }
                                }
                            })
                            .await
                            .unwrap_or(false)
                        } else {
                            answered
                        };
                        let _ = rv.peer.send(refcodec::FIN, 1, &[]).await;
                        let done = handler_done || tokio::time::timeout(Duration::from_secs(20), &mut handler).await.is_ok();
                        n_done += 1;
                        rep.case(Some(hash_str(&format!("failing-destination:{}:{n}:{unresolvable}", ch.len()))));
                        let case = json!({"kind": "c20-failing-destination", "char_bytes": ch.len(), "chars": n, "name_bytes": name.len(), "unresolvable": unresolvable});
                        if !answered {
                            rep.violate("robustness", "tcp_handler+failing_destination", "open_never_answered", format!("destination name of {} bytes ({n} characters of {} bytes each, {}): the handler never answered the open", name.len(), ch.len(), if unresolvable { "unresolvable" } else { "closed port" }), case.clone());
                        }
                        if !done {
                            rep.violate("robustness", "tcp_handler+failing_destination", "handler_wedged", format!("the stream handler is still running 20 s after its stream ended (destination name of {} bytes)", name.len()), case.clone());
                        }
                        for p in run::panic_log().into_iter().skip(panics_reported) {
                            panics_reported += 1;
                            if !run::is_harness_panic(&p) {
                                rep.violate("robustness", "tcp_handler+failing_destination", "panic", format!("{p} — while refusing an open for a destination name of {} bytes ({n} characters of {} bytes each)", name.len(), ch.len()), case.clone());
                            }
                        }
                        let _ = tokio::time::timeout(Duration::from_secs(2), rv.server.close()).await;
                    }
                }
            }
            rep.add("failing_destinations_refused", n_done);
        }
        // ---- (c) listeners
        let Some((server_addr, _sh)) = netkit::start_server(netkit::PASSWORD, engine::default_padding()).await else {
            rep.inconclusive("cannot start server");
            return rep;
        };
        // the pool sheds idle sessions quickly (1 s), so that "nothing left behind" can be read off the number of
        // live tasks: a session that was given back is reaped, one that was abandoned stays for ever
        let client = netkit::make_client(&server_addr, netkit::PASSWORD, engine::default_padding(), anytls_rs::client::SessionPoolConfig { check_interval: Duration::from_millis(500), idle_timeout: Duration::from_secs(1), min_idle_sessions: 0 });
        let (Some((socks, _h1)), Some((http, _h2))) = (netkit::start_socks5(client.clone()).await, netkit::start_http(client.clone()).await) else {
            rep.inconclusive("cannot start front-ends");
            return rep;
        };
        let Some(mut t) = Target::bind_v4(0).await else {
            rep.inconclusive("cannot bind target");
            return rep;
        };
        let tport = t.port;
        tokio::spawn(async move {
            while let Some(a) = t.rx.recv().await {
                netkit::spawn_echo(a.stream);
            }
        });
        // warm up + baseline
        let _ = netkit::socks5_connect(&socks, &SocksDest::V4(std::net::Ipv4Addr::new(127, 33, 0, 1), tport), Duration::from_secs(10)).await;
        tokio::time::sleep(Duration::from_millis(2600)).await; // the warm-up session has been reaped by now
        let baseline = run::alive_tasks();
        let n_c = if quick { 300 } else { 6000 };
        let mut inputs: Vec<(bool, Vec<u8>)> = Vec::new();
        for i in 0..n_c {
            let to_http = i % 2 == 0;
            let b = match rng.below(7) {
                0 => rng.bytes_in(0, 600),
                1 if to_http => format!("GET http://{}/ HTTP/1.1\r\n{}", "a".repeat(rng.usize(0, 300)), "X: y\r\n".repeat(rng.usize(0, 12000))).into_bytes(), // never terminated / over 64 KiB
                2 if to_http => b"CONNECT \r\n\r\n".to_vec(),
                3 if to_http => b"GET / HTTP/1.1\r\nHost: \xff\xfe\r\n\r\n".to_vec(),
                4 if to_http => format!("POST http://[::1:{}/x HTTP/1.1\r\nHost: [::1\r\nContent-Length: -5\r\n\r\n", rng.below(70000)).into_bytes(),
                1 => vec![5, 255],
                2 => {
                    let mut v = vec![5, 1, 0, 5, 1, 0, 3, 255];
                    v.extend_from_slice(&rng.bytes_in(0, 100));
                    v
                }
                3 => vec![5, 1, 0, 5, 1, 0, 4, 1, 2, 3],
                _ => {
                    let mut v = vec![5, 2, 0, 2, 5, rng.below(256) as u8, rng.below(256) as u8, rng.below(256) as u8];
                    v.extend_from_slice(&rng.bytes_in(0, 40));
                    v
                }
            };
            inputs.push((to_http, b));
        }
        // replay aid: VERIF_C20_RANGE=a:b sends only inputs a..b
        if let Some((a, b)) = std::env::var("VERIF_C20_RANGE").ok().and_then(|v| v.split_once(':').map(|(a, b)| (a.parse::<usize>().unwrap_or(0), b.parse::<usize>().unwrap_or(usize::MAX)))) {
            inputs = inputs.into_iter().enumerate().filter(|(i, _)| *i >= a && *i < b).map(|(_, x)| x).collect();
            for (to_http, b) in &inputs {
                eprintln!("input to_http={to_http} {}", hex(&b[..b.len().min(80)]));
            }
        }
        let socks2 = socks.clone();
        let http2 = http.clone();
        netkit::for_each_limited(inputs.clone(), 32, move |(to_http, b)| {
            let addr = if to_http { http2.clone() } else { socks2.clone() };
            async move {
                if let Ok(mut s) = TcpStream::connect(&addr).await {
                    let _ = s.write_all(&b).await;
                    let _ = s.shutdown().await;
                    let mut sink = [0u8; 1024];
                    let _ = tokio::time::timeout(Duration::from_secs(8), async { while matches!(s.read(&mut sink).await, Ok(n) if n > 0) {} }).await;
                }
            }
        })
        .await;
        rep.add("hostile_listener_inputs", inputs.len() as u64);
        rep.evaluations += inputs.len() as u64;
        rep.distinct.insert(hash_str("listeners"));
        rep.distinct.insert(hash_str("listeners2"));
        // a few peers that connect, send nothing or a fragment, and stay (slow loris): held open while the well-formed
        // requests below are served
        let mut held = Vec::new();
        for (addr, pre) in [(&socks, &b""[..]), (&socks, &[5u8][..]), (&socks, &[5u8, 1, 0, 5, 1][..]), (&http, &b""[..]), (&http, &b"GET http://a"[..]), (&http, &b"CONNECT 127.0.0.1:1 HTTP/1.1\r\nHost:"[..])] {
            if let Ok(mut s) = TcpStream::connect(addr).await {
                let _ = s.write_all(pre).await;
                held.push(s);
            }
        }
        tokio::time::sleep(Duration::from_millis(100)).await;
        // afterwards: both listeners still serve well-formed requests, and nothing was left behind
        let ok_socks = matches!(netkit::socks5_connect(&socks, &SocksDest::V4(std::net::Ipv4Addr::new(127, 33, 0, 2), tport), Duration::from_secs(10)).await, Ok((_, 0)));
        if !ok_socks {
            rep.violate("robustness", "socks5_listener", "well_formed_request_fails_after_hostile_input", "a well-formed CONNECT was not served after the hostile connections, with six stalled connections still open".to_string(), json!({"kind": "c20-listeners"}));
        }
        // well-formed CONNECTs in several deliveries: whole, cut at each point inside the header terminator, and with
        // heads whose terminator straddles the listener's read sizes; each must be answered, none may hang
        let mut variants: Vec<(String, Vec<u8>, Vec<usize>)> = Vec::new();
        let plain = format!("CONNECT 127.33.0.3:{tport} HTTP/1.1\r\nHost: x\r\n\r\n").into_bytes();
        variants.push(("whole".into(), plain.clone(), vec![]));
        for back in 1..=3usize {
            variants.push((format!("cut {back} byte(s) before the end of the terminator"), plain.clone(), vec![plain.len() - back]));
        }
        for total in [1022usize, 1023, 1024, 1025, 1026, 1027, 2049, 2050, 4097, 8193] {
            let base = format!("CONNECT 127.33.0.3:{tport} HTTP/1.1\r\nHost: x\r\nX-Fill: ");
            let fill = total.saturating_sub(base.len() + 4);
            let mut v = base.into_bytes();
            v.extend(std::iter::repeat_n(b'f', fill));
            v.extend_from_slice(b"\r\n\r\n");
            variants.push((format!("head of {} bytes in one piece", v.len()), v, vec![]));
        }
        for (what, bytes, cuts) in variants {
            let ok_http = async {
                let mut s = TcpStream::connect(&http).await.ok()?;
                let _ = s.set_nodelay(true);
                let mut prev = 0;
                for c in cuts.iter().copied().chain(std::iter::once(bytes.len())) {
                    s.write_all(&bytes[prev..c]).await.ok()?;
                    s.flush().await.ok()?;
                    prev = c;
                    tokio::time::sleep(Duration::from_millis(30)).await;
                }
                let mut b = [0u8; 12];
                tokio::time::timeout(Duration::from_secs(10), s.read_exact(&mut b)).await.ok()?.ok()?;
                Some(b.starts_with(b"HTTP/1.1 200"))
            }
            .await;
            rep.add("well_formed_http_requests_after_hostile_input", 1);
            if ok_http != Some(true) {
                rep.violate("robustness", "http_listener", "well_formed_request_fails_after_hostile_input", format!("a well-formed CONNECT ({what}) was not answered within 10 s after the hostile connections, with six stalled connections still open"), json!({"kind": "c20-listeners", "delivery": what}));
            }
        }
        drop(held);
        tokio::time::sleep(Duration::from_secs(3)).await;
        let mut after = run::alive_tasks();
        // a hostile request may have started an open that is still running its course (the server's connect
        // timeout, the client's 30 s wait for the answer): such tasks end by themselves. Only what is still there
        // after those bounds have passed was left behind.
        let t_settle = tokio::time::Instant::now();
        while (after > baseline + 20 && t_settle.elapsed() < Duration::from_secs(45)) || (after > baseline + 2 && t_settle.elapsed() < Duration::from_secs(9)) {
            tokio::time::sleep(Duration::from_secs(3)).await;
            after = run::alive_tasks();
        }
        rep.max("max_listener_tasks_settle_s", 3 + t_settle.elapsed().as_secs());
        rep.max("max_listener_tasks_above_baseline_after_settling", after.saturating_sub(baseline) as u64);
        rep.add("listener_tasks_baseline", baseline as u64);
        if after > baseline + 20 {
            rep.violate("robustness", "listeners", "task_wedged", format!("{} hostile connections (all closed by the sender) left {} additional tasks alive ({baseline} -> {after})", inputs.len(), after - baseline), json!({"kind": "c20-listeners"}));
        }
        rep
    });
    for p in run::panic_log() {
        if !run::is_harness_panic(&p) {
            rep.violate("robustness", "loopback", "panic", format!("panic: {p}"), json!({}));
        }
    }
    run::case_end();
    rep
}
