//! C18 — certificate hot-reload is all-or-nothing.
//! Fault enumeration over on-disk states of the certificate and key files,
//! with an in-memory TLS handshake against the current acceptor after every
//! step (the verifier records the presented leaf certificate).

use crate::prng::Rng;
use crate::report::{CheckMeta, Report, hash_str};
use crate::run::{self, Ctx};
use anytls_rs::util::{CertReloader, CertReloaderConfig};
use rustls::pki_types::{CertificateDer, ServerName, UnixTime};
use serde_json::{Value, json};
use std::path::PathBuf;
use std::sync::{Arc, Mutex};
use tokio::io::{AsyncReadExt, AsyncWriteExt};

#[derive(Clone)]
pub struct Pair {
    pub name: &'static str,
    pub cert_pem: String,
    pub key_pem: String,
    pub der: Vec<u8>,
    pub expired: bool,
}

fn make_pair(name: &'static str, expired: bool) -> Pair {
    let key = rcgen::KeyPair::generate().expect("keypair");
    let mut params = rcgen::CertificateParams::new(vec![format!("{name}.verif.test"), "localhost".to_string()]).expect("params");
    if expired {
        params.not_before = rcgen::date_time_ymd(2001, 1, 1);
        params.not_after = rcgen::date_time_ymd(2002, 1, 1);
    }
    let cert = params.self_signed(&key).expect("self sign");
    Pair { name, cert_pem: cert.pem(), key_pem: key.serialize_pem(), der: cert.der().to_vec(), expired }
}

#[derive(Debug)]
struct Recorder {
    seen: Mutex<Option<Vec<u8>>>,
}

impl rustls::client::danger::ServerCertVerifier for Recorder {
    fn verify_server_cert(&self, end_entity: &CertificateDer<'_>, _i: &[CertificateDer<'_>], _n: &ServerName<'_>, _o: &[u8], _now: UnixTime) -> Result<rustls::client::danger::ServerCertVerified, rustls::Error> {
        *self.seen.lock().unwrap() = Some(end_entity.as_ref().to_vec());
        Ok(rustls::client::danger::ServerCertVerified::assertion())
    }
    fn verify_tls12_signature(&self, _m: &[u8], _c: &CertificateDer<'_>, _d: &rustls::DigitallySignedStruct) -> Result<rustls::client::danger::HandshakeSignatureValid, rustls::Error> {
        Ok(rustls::client::danger::HandshakeSignatureValid::assertion())
    }
    fn verify_tls13_signature(&self, _m: &[u8], _c: &CertificateDer<'_>, _d: &rustls::DigitallySignedStruct) -> Result<rustls::client::danger::HandshakeSignatureValid, rustls::Error> {
        Ok(rustls::client::danger::HandshakeSignatureValid::assertion())
    }
    fn supported_verify_schemes(&self) -> Vec<rustls::SignatureScheme> {
        vec![
            rustls::SignatureScheme::ECDSA_NISTP256_SHA256,
            rustls::SignatureScheme::ECDSA_NISTP384_SHA384,
            rustls::SignatureScheme::ED25519,
            rustls::SignatureScheme::RSA_PSS_SHA256,
            rustls::SignatureScheme::RSA_PSS_SHA384,
            rustls::SignatureScheme::RSA_PSS_SHA512,
            rustls::SignatureScheme::RSA_PKCS1_SHA256,
            rustls::SignatureScheme::RSA_PKCS1_SHA384,
            rustls::SignatureScheme::RSA_PKCS1_SHA512,
        ]
    }
}

type ServerTls = tokio_rustls::server::TlsStream<tokio::io::DuplexStream>;
type ClientTls = tokio_rustls::client::TlsStream<tokio::io::DuplexStream>;

/// handshake against the reloader's current acceptor over an in-memory duplex; returns the presented leaf DER
async fn handshake(reloader: &CertReloader) -> Result<(Vec<u8>, ClientTls, ServerTls), String> {
    let acceptor = reloader.get_acceptor();
    let (a, b) = tokio::io::duplex(65536);
    let rec = Arc::new(Recorder { seen: Mutex::new(None) });
    let cfg = rustls::ClientConfig::builder().dangerous().with_custom_certificate_verifier(rec.clone()).with_no_client_auth();
    let connector = tokio_rustls::TlsConnector::from(Arc::new(cfg));
    let srv = tokio::spawn(async move { acceptor.accept(b).await });
    let name = ServerName::try_from("localhost").map_err(|e| e.to_string())?;
    let c = tokio::time::timeout(std::time::Duration::from_secs(10), connector.connect(name, a)).await.map_err(|_| "handshake timeout".to_string())?.map_err(|e| format!("client handshake: {e}"))?;
    let s = srv.await.map_err(|e| e.to_string())?.map_err(|e| format!("server handshake: {e}"))?;
    let der = rec.seen.lock().unwrap().clone().ok_or("no certificate presented")?;
    Ok((der, c, s))
}

#[derive(Clone, Debug)]
pub enum FileState {
    Full(usize),
    /// the first n bytes of pair k's file
    Prefix(usize, usize),
    Garbage,
    Empty,
    Missing,
    /// the OTHER kind of file of pair k (cert file holds a key or vice versa)
    Swapped(usize),
    /// certificate file holding a chain: pair k's certificate followed by pair j's (as a key file: pair k's key)
    Chain(usize, usize),
    /// the same chain with the second certificate cut n bytes into its body
    ChainCut(usize, usize, usize),
    /// the same chain with a few characters inside the second certificate's body replaced by '!'
    ChainGarbled(usize, usize),
}

#[derive(Clone, Debug)]
pub enum Step {
    WriteCert(FileState),
    WriteKey(FileState),
    Reload,
}

fn content(pairs: &[Pair], st: &FileState, is_cert: bool) -> Option<Vec<u8>> {
    let pick = |k: usize, cert: bool| if cert { pairs[k].cert_pem.clone().into_bytes() } else { pairs[k].key_pem.clone().into_bytes() };
    match st {
        FileState::Full(k) => Some(pick(*k, is_cert)),
        FileState::Prefix(k, n) => {
            let f = pick(*k, is_cert);
            Some(f[..(*n).min(f.len())].to_vec())
        }
        FileState::Garbage => Some(b"-----BEGIN CERTIFICATE-----\nnot base64 at all !!!\n-----END CERTIFICATE-----\nrandom trailing text".to_vec()),
        FileState::Empty => Some(Vec::new()),
        FileState::Missing => None,
        FileState::Swapped(k) => Some(pick(*k, !is_cert)),
        FileState::Chain(k, j) | FileState::ChainCut(k, j, _) | FileState::ChainGarbled(k, j) => {
            if !is_cert {
                return Some(pick(*k, false));
            }
            let mut f = pick(*k, true);
            if !f.ends_with(b"\n") {
                f.push(b'\n');
            }
            let mut second = pick(*j, true);
            match st {
                FileState::ChainCut(_, _, n) => {
                    // strictly inside the base64 body: after the BEGIN line, before the END line
                    let n = (*n).clamp(45, second.len().saturating_sub(45));
                    second.truncate(n);
                }
                FileState::ChainGarbled(..) => {
                    let mid = second.len() / 2;
                    for b in second.iter_mut().skip(mid).take(5) {
                        if *b != b'\n' {
                            *b = b'!';
                        }
                    }
                }
                _ => {}
            }
            f.extend_from_slice(&second);
            Some(f)
        }
    }
}

/// which pair (if any) a file content completely holds
fn holds(pairs: &[Pair], bytes: &Option<Vec<u8>>, is_cert: bool) -> Option<usize> {
    let b = bytes.as_ref()?;
    let text = String::from_utf8_lossy(b);
    for (k, p) in pairs.iter().enumerate() {
        let full = if is_cert { &p.cert_pem } else { &p.key_pem };
        // complete when the whole PEM block is there (a missing final newline does not matter)
        let trimmed = full.trim_end();
        if text.starts_with(trimmed) && text.trim_end() == trimmed {
            return Some(k);
        }
        // a certificate file may hold a chain: the leaf decides, and every further certificate must be whole
        if is_cert && text.starts_with(trimmed) {
            let rest = text[trimmed.len()..].trim();
            if pairs.iter().any(|q| q.cert_pem.trim() == rest) {
                return Some(k);
            }
        }
    }
    None
}

struct Sim {
    dir: PathBuf,
    cert: Option<Vec<u8>>,
    key: Option<Vec<u8>>,
}

impl Sim {
    fn write(&mut self, is_cert: bool, bytes: Option<Vec<u8>>) {
        let path = self.dir.join(if is_cert { "cert.pem" } else { "key.pem" });
        match &bytes {
            Some(b) => std::fs::write(&path, b).expect("write"),
            None => {
                let _ = std::fs::remove_file(&path);
            }
        }
        if is_cert {
            self.cert = bytes;
        } else {
            self.key = bytes;
        }
    }
}

pub struct SeqResult {
    pub problems: Vec<(String, String, String)>,
    pub reloads_ok: u64,
    pub reloads_err: u64,
    pub handshakes: u64,
    pub listener_handshakes: u64,
    pub returning_handshakes: u64,
    pub resumed_handshakes: u64,
}

/// a client that keeps its connector (and with it its TLS session cache) across the whole sequence, like the real
/// `Client` does: handshake against the current acceptor, exchange one byte (so that session tickets are taken in),
/// and report the leaf the connection is bound to — for a resumed session that is the certificate of the
/// ORIGINAL handshake. Returns (leaf DER, resumed?).
async fn handshake_returning(reloader: &CertReloader, connector: &tokio_rustls::TlsConnector) -> Result<(Vec<u8>, bool), String> {
    let acceptor = reloader.get_acceptor();
    let (a, b) = tokio::io::duplex(65536);
    let srv = tokio::spawn(async move { acceptor.accept(b).await });
    let name = ServerName::try_from("localhost").map_err(|e| e.to_string())?;
    let mut c = tokio::time::timeout(std::time::Duration::from_secs(10), connector.connect(name, a)).await.map_err(|_| "handshake timeout".to_string())?.map_err(|e| format!("client handshake: {e}"))?;
    let mut s = srv.await.map_err(|e| e.to_string())?.map_err(|e| format!("server handshake: {e}"))?;
    s.write_all(b"t").await.map_err(|e| e.to_string())?;
    s.flush().await.map_err(|e| e.to_string())?;
    let mut one = [0u8; 1];
    tokio::time::timeout(std::time::Duration::from_secs(5), c.read_exact(&mut one)).await.map_err(|_| "no byte from the server".to_string())?.map_err(|e| e.to_string())?;
    let conn = c.get_ref().1;
    let leaf = conn.peer_certificates().and_then(|v| v.first().map(|c| c.as_ref().to_vec())).ok_or("connection has no peer certificate")?;
    let resumed = matches!(conn.handshake_kind(), Some(rustls::HandshakeKind::Resumed));
    Ok((leaf, resumed))
}

/// handshake with the real `Server::listen` loop (reloadable TLS) over loopback TCP; returns the presented leaf DER
async fn handshake_listener(addr: &str) -> Result<Vec<u8>, String> {
    let rec = Arc::new(Recorder { seen: Mutex::new(None) });
    let cfg = rustls::ClientConfig::builder().dangerous().with_custom_certificate_verifier(rec.clone()).with_no_client_auth();
    let connector = tokio_rustls::TlsConnector::from(Arc::new(cfg));
    let tcp = tokio::net::TcpStream::connect(addr).await.map_err(|e| format!("connect: {e}"))?;
    let name = ServerName::try_from("localhost").map_err(|e| e.to_string())?;
    let _c = tokio::time::timeout(std::time::Duration::from_secs(10), connector.connect(name, tcp)).await.map_err(|_| "handshake timeout".to_string())?.map_err(|e| format!("client handshake: {e}"))?;
    rec.seen.lock().unwrap().clone().ok_or("no certificate presented".into())
}

pub async fn run_sequence(pairs: &[Pair], steps: &[Step], check_expiry: bool, tag: &str, via_listener: bool) -> SeqResult {
    let mut res = SeqResult { problems: Vec::new(), reloads_ok: 0, reloads_err: 0, handshakes: 0, listener_handshakes: 0, returning_handshakes: 0, resumed_handshakes: 0 };
    let dir = std::env::temp_dir().join(format!("verif-c18-{}-{}", std::process::id(), tag));
    let _ = std::fs::remove_dir_all(&dir);
    std::fs::create_dir_all(&dir).expect("tmp dir");
    let mut sim = Sim { dir: dir.clone(), cert: None, key: None };
    sim.write(true, Some(pairs[0].cert_pem.clone().into_bytes()));
    sim.write(false, Some(pairs[0].key_pem.clone().into_bytes()));
    let cfg = CertReloaderConfig { cert_path: dir.join("cert.pem"), key_path: dir.join("key.pem"), watch_enabled: false, debounce_ms: 0, check_expiry, expiry_warning_days: 30 };
    let reloader = match CertReloader::new(cfg) {
        Ok(r) => r,
        Err(e) => {
            res.problems.push(("setup".into(), "reloader_new_failed".into(), e.to_string()));
            let _ = std::fs::remove_dir_all(&dir);
            return res;
        }
    };
    let mut active = 0usize;
    let mut count = 0u64;
    // optionally: the real accept loop of a Server built on this reloader
    let mut listener: Option<(String, tokio::task::JoinHandle<()>)> = None;
    if via_listener {
        let addr = format!("127.0.0.1:{}", crate::netkit::free_port());
        let server = Arc::new(anytls_rs::server::Server::new_with_reloadable_tls("c18", reloader.get_acceptor_ref(), crate::engine::default_padding(), None));
        let a2 = addr.clone();
        let h = tokio::spawn(async move {
            let _ = server.listen(&a2).await;
        });
        if crate::netkit::wait_listening(&addr).await {
            listener = Some((addr, h));
        } else {
            h.abort();
            res.problems.push(("setup".into(), "listener_did_not_start".into(), addr));
        }
    }
    // a client that comes back again and again with the same connector (session cache and all)
    let returning = {
        let rec = Arc::new(Recorder { seen: Mutex::new(None) });
        let cfg = rustls::ClientConfig::builder().dangerous().with_custom_certificate_verifier(rec).with_no_client_auth();
        tokio_rustls::TlsConnector::from(Arc::new(cfg))
    };
    // a connection established before everything else must keep working
    let (_, mut old_c, mut old_s) = match handshake(&reloader).await {
        Ok(x) => x,
        Err(e) => {
            res.problems.push(("setup".into(), "initial_handshake_failed".into(), e));
            let _ = std::fs::remove_dir_all(&dir);
            return res;
        }
    };
    for (si, st) in steps.iter().enumerate() {
        let what = format!("step {si} {:?}", st);
        match st {
            Step::WriteCert(fs) => sim.write(true, content(pairs, fs, true)),
            Step::WriteKey(fs) => sim.write(false, content(pairs, fs, false)),
            Step::Reload => {
                let before_info = reloader.get_cert_info().map(|i| i.serial_number);
                let before_last = reloader.get_last_reload();
                let r = reloader.reload();
                let c = holds(pairs, &sim.cert, true);
                let k = holds(pairs, &sim.key, false);
                let disk_good = matches!((c, k), (Some(a), Some(b)) if a == b && !(check_expiry && pairs[a].expired));
                match (&r, disk_good) {
                    (Ok(()), true) => {
                        active = c.unwrap();
                        count += 1;
                        res.reloads_ok += 1;
                    }
                    (Ok(()), false) => {
                        res.problems.push(("reload".into(), "reload_ok_on_bad_disk_state".into(), format!("{what}: reload() returned Ok although the files hold cert={:?} key={:?} (not a complete, matching{} pair)", c.map(|i| pairs[i].name), k.map(|i| pairs[i].name), if check_expiry { ", unexpired" } else { "" })));
                        // follow the implementation so that later steps are judged against what it claims
                        if let Some(a) = c {
                            active = a;
                        }
                        count += 1;
                    }
                    (Err(e), true) => {
                        res.problems.push(("reload".into(), "reload_failed_on_good_pair".into(), format!("{what}: the files hold the complete pair {} but reload() failed: {e}", pairs[c.unwrap()].name)));
                    }
                    (Err(_), false) => {
                        res.reloads_err += 1;
                        // nothing may have changed
                        if reloader.get_cert_info().map(|i| i.serial_number) != before_info {
                            res.problems.push(("reload".into(), "failed_reload_changed_cert_info".into(), what.clone()));
                        }
                        if reloader.get_last_reload() != before_last {
                            res.problems.push(("reload".into(), "failed_reload_changed_last_reload".into(), what.clone()));
                        }
                    }
                }
            }
        }
        // after EVERY step: what do new connections get, and what do operators see?
        match handshake(&reloader).await {
            Ok((der, _c, _s)) => {
                res.handshakes += 1;
                if der != pairs[active].der {
                    let got = pairs.iter().find(|p| p.der == der).map(|p| p.name).unwrap_or("an unknown certificate");
                    res.problems.push(("handshake".into(), "wrong_certificate_presented".into(), format!("{what}: new connections are served with {got}, the active pair is {}", pairs[active].name)));
                }
            }
            Err(e) => res.problems.push(("handshake".into(), "handshake_failed".into(), format!("{what}: {e}"))),
        }
        // ... and a client that has been here before (it may offer to resume an earlier session)
        match handshake_returning(&reloader, &returning).await {
            Ok((leaf, resumed)) => {
                res.returning_handshakes += 1;
                if resumed {
                    res.resumed_handshakes += 1;
                }
                if leaf != pairs[active].der {
                    let got = pairs.iter().find(|p| p.der == leaf).map(|p| p.name).unwrap_or("an unknown certificate");
                    res.problems.push(("returning_client_handshake".into(), "wrong_certificate_presented".into(), format!("{what}: a client that connected earlier and reconnects with the same connector ends up on a connection bound to {got}{}, the active pair is {}", if resumed { " (resumed TLS session: no certificate was sent, the new key was never used)" } else { "" }, pairs[active].name)));
                }
            }
            Err(e) => res.problems.push(("returning_client_handshake".into(), "handshake_failed".into(), format!("{what}: {e}"))),
        }
        // ... and the very next connection accepted by the server's listen loop
        if let Some((addr, _)) = &listener {
            match handshake_listener(addr).await {
                Ok(der) => {
                    res.listener_handshakes += 1;
                    if der != pairs[active].der {
                        let got = pairs.iter().find(|p| p.der == der).map(|p| p.name).unwrap_or("an unknown certificate");
                        res.problems.push(("listener_handshake".into(), "wrong_certificate_presented".into(), format!("{what}: the next connection accepted by Server::listen is served with {got}, the active pair is {}", pairs[active].name)));
                    }
                }
                Err(e) => res.problems.push(("listener_handshake".into(), "handshake_failed".into(), format!("{what}: {e}"))),
            }
        }
        if reloader.get_reload_count() != count {
            res.problems.push(("reload".into(), "reload_count_wrong".into(), format!("{what}: get_reload_count()={} but {count} reloads succeeded", reloader.get_reload_count())));
            count = reloader.get_reload_count();
        }
        // the old connection still carries data
        let ping = [si as u8; 8];
        let ok = async {
            old_c.write_all(&ping).await.ok()?;
            old_c.flush().await.ok()?;
            let mut b = [0u8; 8];
            old_s.read_exact(&mut b).await.ok()?;
            if b != ping {
                return None;
            }
            old_s.write_all(&b).await.ok()?;
            old_s.flush().await.ok()?;
            old_c.read_exact(&mut b).await.ok()?;
            Some(b == ping)
        };
        if tokio::time::timeout(std::time::Duration::from_secs(5), ok).await.ok().flatten() != Some(true) {
            res.problems.push(("established_session".into(), "old_connection_disturbed".into(), format!("{what}: a TLS connection established before the reloads stopped carrying data")));
            break;
        }
    }
    if let Some((_, h)) = listener {
        h.abort();
    }
    let _ = std::fs::remove_dir_all(&dir);
    res
}

fn describe(steps: &[Step], check_expiry: bool) -> Value {
    json!({"kind": "c18", "check_expiry": check_expiry, "steps": steps.iter().map(|s| format!("{:?}", s)).collect::<Vec<_>>()})
}

pub fn run(ctx: Ctx) -> Report {
    let quick = ctx.tier == crate::report::Tier::Quick;
    let seed = ctx.seed;
    let shards = ctx.shards;
    run::run_sharded("C18", shards, move |shard, nshards, rep| {
        // pairs: 0 = A (initial), 1 = B, 2 = C, 3 = expired E
        let pairs = vec![make_pair("A", false), make_pair("B", false), make_pair("C", false), make_pair("E", true)];
        let mut seqs: Vec<(Vec<Step>, bool)> = Vec::new();
        use FileState::*;
        use Step::*;
        // two-file updates with a reload between every pair of writes, both orders
        for target in [1usize, 2, 3] {
            for expiry in [true, false] {
                seqs.push((vec![WriteCert(Full(target)), Reload, WriteKey(Full(target)), Reload], expiry));
                seqs.push((vec![WriteKey(Full(target)), Reload, WriteCert(Full(target)), Reload], expiry));
                seqs.push((vec![WriteCert(Full(target)), WriteKey(Full(target)), Reload, Reload], expiry));
            }
        }
        // chains: a complete chain is as good as a single certificate; a chain whose second certificate is cut or
        // garbled is a damaged file, however complete the leaf and the key are
        let second_len = pairs[2].cert_pem.len();
        for target in [1usize, 3] {
            for expiry in [true, false] {
                seqs.push((vec![WriteKey(Full(target)), WriteCert(Chain(target, 2)), Reload, WriteCert(Full(0)), WriteKey(Full(0)), Reload], expiry));
                seqs.push((vec![WriteKey(Full(target)), WriteCert(ChainGarbled(target, 2)), Reload, WriteCert(Chain(target, 2)), Reload], expiry));
                for cut in [45usize, 64, 65, 66, 130, second_len / 2, second_len - 100, second_len - 46, second_len - 45] {
                    seqs.push((vec![WriteKey(Full(target)), WriteCert(ChainCut(target, 2, cut)), Reload, WriteCert(Chain(target, 2)), Reload], expiry));
                }
            }
        }
        // each file replaced alone, garbage, empty, missing, swapped
        for fs in [Garbage, Empty, Missing, Swapped(0), Swapped(1), Full(1), Full(3)] {
            seqs.push((vec![WriteCert(fs.clone()), Reload, WriteCert(Full(0)), Reload], true));
            seqs.push((vec![WriteKey(fs.clone()), Reload, WriteKey(Full(0)), Reload], true));
            seqs.push((vec![WriteCert(fs.clone()), WriteKey(fs.clone()), Reload, WriteCert(Full(2)), WriteKey(Full(2)), Reload], true));
        }
        // truncation prefixes of the new certificate and key (a writer caught mid-write)
        let clen = pairs[1].cert_pem.len();
        let klen = pairs[1].key_pem.len();
        let mut cert_cuts: Vec<usize> = if quick { (0..clen).step_by(4).collect() } else { (0..=clen).collect() };
        let mut key_cuts: Vec<usize> = if quick { (0..klen).step_by(3).collect() } else { (0..=klen).collect() };
        for (i, ch) in pairs[1].cert_pem.char_indices() {
            if ch == '\n' {
                cert_cuts.extend([i, i + 1]);
            }
        }
        for (i, ch) in pairs[1].key_pem.char_indices() {
            if ch == '\n' {
                key_cuts.extend([i, i + 1]);
            }
        }
        cert_cuts.extend([clen.saturating_sub(1), clen.saturating_sub(2), clen]);
        key_cuts.extend([klen.saturating_sub(1), klen.saturating_sub(2), klen]);
        cert_cuts.sort();
        cert_cuts.dedup();
        key_cuts.sort();
        key_cuts.dedup();
        for chunk in cert_cuts.chunks(8) {
            // the key is already the new one: the certificate file grows
            let mut s = vec![WriteKey(Full(1))];
            for &n in chunk {
                s.push(WriteCert(Prefix(1, n)));
                s.push(Reload);
            }
            s.extend([WriteCert(Full(1)), Reload]);
            seqs.push((s, true));
        }
        for chunk in key_cuts.chunks(8) {
            let mut s = vec![WriteCert(Full(1))];
            for &n in chunk {
                s.push(WriteKey(Prefix(1, n)));
                s.push(Reload);
            }
            s.extend([WriteKey(Full(1)), Reload]);
            seqs.push((s, true));
        }
        // random sequences of 20-200 steps
        let mut rng = Rng::new(seed ^ 0xC18);
        for _ in 0..if quick { 120 } else { 12000 } {
            let n = rng.usize(20, if quick { 60 } else { 200 });
            let mut s = Vec::new();
            for _ in 0..n {
                let fs = match rng.below(10) {
                    0..=4 => Full(rng.usize(0, 3)),
                    5 => Prefix(rng.usize(0, 2), rng.usize(0, 900)),
                    6 => Garbage,
                    7 => Empty,
                    8 => Missing,
                    _ => Swapped(rng.usize(0, 2)),
                };
                s.push(match rng.below(3) {
                    0 => WriteCert(fs),
                    1 => WriteKey(fs),
                    _ => Reload,
                });
            }
            s.push(Reload);
            seqs.push((s, rng.chance(0.7)));
        }
        rep.note(format!("{} sequences in total", seqs.len()));
        let rt = tokio::runtime::Builder::new_current_thread().enable_all().build().expect("rt");
        for (i, (steps, expiry)) in seqs.iter().enumerate() {
            if i % nshards != shard {
                continue;
            }
            run::case_begin(&format!("C18 sequence {i}"));
            // the hand-written update sequences and every third other one also go through a real listen loop
            let r = rt.block_on(run_sequence(&pairs, steps, *expiry, &format!("{shard}-{i}"), i < 83 || i % 3 == 0));
            rep.case(Some(hash_str(&describe(steps, *expiry).to_string())));
            rep.add("reloads_succeeded", r.reloads_ok);
            rep.add("reloads_failed_as_they_must", r.reloads_err);
            rep.add("handshakes_inspected", r.handshakes);
            rep.add("listener_handshakes_inspected", r.listener_handshakes);
            rep.add("returning_client_handshakes_inspected", r.returning_handshakes);
            rep.add("returning_client_handshakes_resumed", r.resumed_handshakes);
            rep.add("steps", steps.len() as u64);
            if rep.samples.len() < 3 && shard == 0 {
                rep.sample(describe(&steps[..steps.len().min(10)], *expiry));
            }
            let mut seen = std::collections::HashSet::new();
            for (cause, sym, det) in r.problems {
                if cause == "setup" {
                    rep.inconclusive(format!("{sym}: {det}"));
                } else if seen.insert(sym.clone()) {
                    rep.violate("cert_reload", &cause, &sym, det, describe(steps, *expiry));
                }
            }
        }
        // thorough: a stress thread rewrites the files while reloads run; only all-or-nothing is judged
        if !quick && shard == 0 {
            let r = rt.block_on(stress(&pairs));
            rep.add("stress_reloads", r.1);
            rep.add("stress_handshakes", r.2);
            for det in r.0 {
                rep.violate("cert_reload", "concurrent_writer", "mixed_or_unknown_certificate_presented", det, json!({"kind": "c18-stress"}));
            }
        }
        for p in run::take_thread_panics() {
            if run::is_harness_panic(&p) {
                rep.inconclusive(format!("harness panic: {p}"));
            } else {
                rep.violate("cert_reload", "any", "panic", p, json!({}));
            }
        }
        run::case_end();
    })
}

async fn stress(pairs: &[Pair]) -> (Vec<String>, u64, u64) {
    let dir = std::env::temp_dir().join(format!("verif-c18-stress-{}", std::process::id()));
    let _ = std::fs::remove_dir_all(&dir);
    std::fs::create_dir_all(&dir).expect("tmp");
    std::fs::write(dir.join("cert.pem"), &pairs[0].cert_pem).unwrap();
    std::fs::write(dir.join("key.pem"), &pairs[0].key_pem).unwrap();
    let cfg = CertReloaderConfig { cert_path: dir.join("cert.pem"), key_path: dir.join("key.pem"), watch_enabled: false, debounce_ms: 0, check_expiry: true, expiry_warning_days: 30 };
    let Ok(reloader) = CertReloader::new(cfg) else { return (vec![], 0, 0) };
    let stop = Arc::new(std::sync::atomic::AtomicBool::new(false));
    let stop2 = stop.clone();
    let d2 = dir.clone();
    let p2: Vec<Pair> = pairs.to_vec();
    let writer = std::thread::spawn(move || {
        let mut k = 0usize;
        while !stop2.load(std::sync::atomic::Ordering::Relaxed) {
            k = (k + 1) % 3;
            let _ = std::fs::write(d2.join("cert.pem"), &p2[k].cert_pem);
            std::thread::yield_now();
            let _ = std::fs::write(d2.join("key.pem"), &p2[k].key_pem);
        }
    });
    let mut problems = Vec::new();
    let (mut reloads, mut hs) = (0u64, 0u64);
    let t0 = std::time::Instant::now();
    while t0.elapsed() < std::time::Duration::from_secs(8) {
        let _ = reloader.reload();
        reloads += 1;
        if let Ok((der, _c, _s)) = handshake(&reloader).await {
            hs += 1;
            // the handshake completing proves key and certificate match; the leaf must be one of ours
            if !pairs.iter().any(|p| p.der == der) {
                problems.push("a certificate that is none of the complete files was presented".to_string());
            }
        } else {
            problems.push("handshake against the active acceptor failed (key and certificate do not belong together?)".to_string());
        }
    }
    stop.store(true, std::sync::atomic::Ordering::Relaxed);
    let _ = writer.join();
    let _ = std::fs::remove_dir_all(&dir);
    problems.dedup();
    (problems, reloads, hs)
}

pub fn meta() -> CheckMeta {
    CheckMeta {
        level: "fault_enumeration",
        rule: "on-disk fault states of the certificate/key files driven against the real CertReloader (rcgen pairs A, B, C and an expired E): two-file updates with a reload between every pair of writes in both orders, each file replaced alone by another pair's file / garbage / empty / missing / the other kind of file, truncation prefixes of the new certificate and of the new key (quick: 64+32 evenly spaced cuts plus both sides of every line boundary and the last bytes; thorough: every byte) with a reload at each, random 20-200 step sequences, check_expiry on/off; thorough adds a thread rewriting both files while reloads run. After EVERY step an in-memory TLS handshake against get_acceptor() records the presented leaf; oracle: reload() is Ok iff the files hold a complete, matching (and, with check_expiry, unexpired) pair as known by construction; after Err the presented leaf, cert info, last-reload instant and reload count are unchanged; after Ok the leaf is the pair on disk; a TLS connection established at the start answers a ping after every step. distinct_nontrivial = distinct step sequences. For the hand-written update sequences and every third other one a real Server::new_with_reloadable_tls(..).listen() loop runs on the same reloader: after every step the next connection it accepts (loopback TCP + TLS) must present the active pair. A returning client (one connector with its TLS session cache kept for the whole sequence, one byte exchanged per connection so that session tickets are taken in) also handshakes after every step: the connection it ends up on must be bound to the active pair; resuming a session that was established under a replaced pair is a violation (most handshakes between reloads do resume, which is fine). Certificate files holding a chain (leaf + a second certificate): a complete chain reloads like a single certificate; a chain whose second certificate is cut inside its body (9 positions) or garbled must be refused although leaf and key are complete and matching.".into(),
        assumptions: vec!["a file counts as complete when the whole PEM block is present (a missing final newline does not matter)".into(), "rcgen/rustls generate and verify the pairs".into()],
        floors: vec![("reloads_succeeded", 50), ("reloads_failed_as_they_must", 150), ("handshakes_inspected", 500), ("listener_handshakes_inspected", 300), ("returning_client_handshakes_inspected", 1000)],
        exhaustive: false,
    }
}
