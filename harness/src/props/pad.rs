//! Shared padding workload for C04 / C05 / C19: real `send_authentication`
//! followed by a real client `Session` on a recording MemPipe that accepts
//! whole writes (one `write_all` = one record), driven by a single submitter
//! so that every session packet's frames and transport writes are known.

use crate::engine;
use crate::mempipe::{PipeCfg, pipe};
use crate::prng::{Pattern, Rng};
use crate::refcodec::{self, RFrame};
use crate::refscheme::Scheme;
use anytls_rs::session::Session;
use bytes::Bytes;
use serde_json::{Value, json};
use std::sync::Arc;
use std::time::Duration;

#[derive(Clone, Debug)]
pub enum Op {
    /// open a stream (SYN) and write a first data frame of `first` bytes
    Open { first: usize },
    /// open a stream only
    Syn,
    /// data frame on the n-th opened stream
    Data { stream: usize, len: usize },
    /// keep-alive request
    Heart,
}

#[derive(Clone, Debug)]
pub struct PadCase {
    pub seed: u64,
    pub scheme: Scheme,
    /// extra opens performed while the initial buffer is still collecting
    pub pre_opens: usize,
    pub ops: Vec<Op>,
    pub password: String,
}

impl PadCase {
    pub fn describe(&self) -> Value {
        json!({"kind": "pad", "seed": self.seed.to_string(), "scheme": self.scheme.text(), "pre_opens": self.pre_opens,
               "ops": self.ops.iter().map(|o| format!("{:?}", o)).collect::<Vec<_>>(), "password": self.password})
    }
}

#[derive(Clone, Debug)]
pub struct Packet {
    /// frames the session was asked to send in this packet
    pub frames: Vec<RFrame>,
    pub payload_len: usize,
    /// lengths of the transport writes observed for this packet
    pub writes: Vec<usize>,
    /// api call result
    pub error: Option<String>,
}

#[derive(Clone, Debug, Default)]
pub struct PadObs {
    pub preamble: Vec<u8>,
    pub preamble_error: Option<String>,
    pub packets: Vec<Packet>,
    /// all bytes after the preamble
    pub wire: Vec<u8>,
    pub s2c_wire: Vec<u8>,
    pub stuck: Option<String>,
    pub settings_md5: Option<String>,
}

pub fn gen_ops(rng: &mut Rng, n: usize, max_len: usize, payload_hint: &[u64]) -> Vec<Op> {
    let mut ops = vec![Op::Open { first: rng.usize(0, 40) }];
    let mut opened = 1usize;
    for _ in 0..n {
        let len = if !payload_hint.is_empty() && rng.chance(0.6) {
            // sizes around the scheme's own sizes hit every branch of the shaping loop
            let s = *rng.pick(payload_hint) as i64;
            let d = *rng.pick(&[-20i64, -8, -7, -6, -1, 0, 1, 7, 8, 30]);
            let mult = *rng.pick(&[1i64, 1, 1, 2, 3]);
            ((s * mult + d - 7).max(0) as usize).min(max_len)
        } else {
            match rng.below(6) {
                0 => 0,
                1 => rng.usize(0, 30),
                2 => rng.usize(0, 1000),
                3 => rng.usize(0, 5000),
                4 => rng.usize(0, max_len.min(20000)),
                _ => rng.usize(0, max_len),
            }
        };
        ops.push(match rng.below(12) {
            0 => Op::Heart,
            1 => {
                opened += 1;
                Op::Syn
            }
            2 => {
                opened += 1;
                Op::Open { first: len }
            }
            _ => Op::Data { stream: rng.usize(0, opened - 1), len },
        });
    }
    ops
}

fn settings_frame_len(md5: &str) -> usize {
    // "v=2\nclient=anytls-rs/0.1.0\npadding-md5=<32 hex>" in any order
    7 + "v=2".len() + 1 + "client=anytls-rs/0.1.0".len() + 1 + "padding-md5=".len() + md5.len()
}

/// Run one case under virtual time.
pub fn run_case(case: &PadCase) -> PadObs {
    let c = case.clone();
    crate::run::vt_block_on_deadline(Duration::from_secs(100_000), async move { run_async(&c).await }).unwrap_or_else(|| PadObs { stuck: Some("case still pending after 100000 virtual seconds with every task idle".into()), ..Default::default() })
}

async fn run_async(case: &PadCase) -> PadObs {
    let mut obs = PadObs::default();
    let text = case.scheme.text();
    let padding = match engine::padding_from(&text) {
        Ok(p) => p,
        Err(e) => {
            obs.stuck = Some(format!("scheme rejected by PaddingFactory::new: {e}"));
            return obs;
        }
    };
    let (mut c2s_w, c2s_r, c2s) = pipe(PipeCfg::plain());
    let (s2c_w, s2c_r, s2c) = pipe(PipeCfg::plain());
    let hash = anytls_rs::util::hash_password(&case.password);
    // server side as in server.rs: authenticate (consumes the preamble), then run a session
    // with the same scheme (no scheme push)
    {
        let pad2 = padding.clone();
        tokio::spawn(async move {
            let mut r = c2s_r;
            if anytls_rs::util::authenticate_client(&mut r, &hash, &pad2).await.is_ok() {
                let (server, mut ns, _t) = engine::start_server(r, s2c_w, pad2);
                while ns.recv().await.is_some() {}
                drop(server);
            }
        });
    }
    if let Err(e) = anytls_rs::util::send_authentication(&mut c2s_w, &hash, &padding).await {
        obs.preamble_error = Some(e.to_string());
    }
    let pre_len = c2s.accepted() as usize;
    let pre_writes = c2s.with_log(|l| l.writes.len());
    obs.preamble = c2s.with_log(|l| l.bytes.clone());

    let client = Arc::new(Session::new_client(s2c_r, c2s_w, padding.clone(), None));
    if let Err(e) = client.clone().start_client().await {
        obs.stuck = Some(format!("start_client failed: {e}"));
        return obs;
    }
    let md5 = padding.md5().to_string();
    obs.settings_md5 = Some(md5.clone());
    let seed = case.seed;
    let mut streams: Vec<Arc<anytls_rs::session::Stream>> = Vec::new();
    let mut offsets: Vec<u64> = Vec::new();
    let mut mark = pre_writes;
    let mut pending_frames: Vec<RFrame> = vec![RFrame::new(refcodec::SETTINGS, 0, &[0u8; 0])];
    let mut pending_len = settings_frame_len(&md5);
    let mut buffering = true;

    macro_rules! take_writes {
        () => {{
            let w: Vec<usize> = c2s.with_log(|l| l.writes[mark..].iter().map(|r| r.accepted).collect());
            mark += w.len();
            w
        }};
    }

    // extra opens while the initial buffer is collecting
    for _ in 0..case.pre_opens {
        match tokio::time::timeout(Duration::from_secs(1000), client.open_stream()).await {
            Ok(Ok((st, _rx))) => {
                pending_frames.push(RFrame::new(refcodec::SYN, st.id(), &[]));
                pending_len += 7;
                streams.push(st);
                offsets.push(0);
            }
            Ok(Err(e)) => {
                obs.stuck = Some(format!("open_stream (buffered) failed: {e}"));
                return obs;
            }
            Err(_) => {
                obs.stuck = Some("open_stream (buffered) blocked".into());
                return obs;
            }
        }
    }

    for op in &case.ops {
        // each arm performs exactly one write_frame call at a time and closes a packet after it
        let mut steps: Vec<(RFrame, u8)> = Vec::new(); // (frame, how: 0=open_stream,1=data,2=heart)
        match op {
            Op::Open { first } => {
                steps.push((RFrame::new(refcodec::SYN, 0, &[]), 0));
                steps.push((RFrame::new(refcodec::PSH, 0, &vec![0u8; *first]), 1));
            }
            Op::Syn => steps.push((RFrame::new(refcodec::SYN, 0, &[]), 0)),
            Op::Data { stream, len } => {
                if streams.is_empty() {
                    continue;
                }
                steps.push((RFrame::new(refcodec::PSH, (*stream % streams.len()) as u32, &vec![0u8; *len]), 1));
            }
            Op::Heart => steps.push((RFrame::new(refcodec::HEART_REQ, 0, &[]), 2)),
        }
        let mut opened_now: Option<usize> = None;
        for (tmpl, how) in steps {
            let fut = async {
                match how {
                    0 => {
                        let (st, _rx) = client.open_stream().await.map_err(|e| e.to_string())?;
                        let f = RFrame::new(refcodec::SYN, st.id(), &[]);
                        Ok::<(RFrame, Option<Arc<anytls_rs::session::Stream>>), String>((f, Some(st)))
                    }
                    1 => {
                        let idx = opened_now.unwrap_or(tmpl.sid as usize);
                        let st = streams[idx].clone();
                        let len = tmpl.data.len();
                        let data = Pattern::new(seed, st.id() as u64, 0).make(offsets[idx], len);
                        if buffering {
                            client.disable_buffering();
                        }
                        client.write_data_frame(st.id(), Bytes::from(data.clone())).await.map_err(|e| e.to_string())?;
                        Ok((RFrame::new(refcodec::PSH, st.id(), &data), None))
                    }
                    _ => {
                        client.write_control_frame(anytls_rs::protocol::Frame::control(anytls_rs::protocol::Command::HeartRequest, 0)).await.map_err(|e| e.to_string())?;
                        Ok((RFrame::new(refcodec::HEART_REQ, 0, &[]), None))
                    }
                }
            };
            let r = tokio::time::timeout(Duration::from_secs(1000), fut).await;
            match r {
                Ok(Ok((frame, st))) => {
                    if let Some(st) = st {
                        streams.push(st);
                        offsets.push(0);
                        opened_now = Some(streams.len() - 1);
                    }
                    if how == 1 {
                        let idx = opened_now.unwrap_or(tmpl.sid as usize);
                        offsets[idx] += frame.data.len() as u64;
                    }
                    pending_len += frame.total();
                    pending_frames.push(frame);
                    if buffering && how != 1 {
                        continue; // still collecting in the initial buffer
                    }
                    buffering = false;
                    let writes = take_writes!();
                    obs.packets.push(Packet { frames: std::mem::take(&mut pending_frames), payload_len: pending_len, writes, error: None });
                    pending_len = 0;
                }
                Ok(Err(e)) => {
                    let writes = take_writes!();
                    obs.packets.push(Packet { frames: std::mem::take(&mut pending_frames), payload_len: pending_len, writes, error: Some(e) });
                    pending_len = 0;
                    obs.wire = c2s.with_log(|l| l.bytes[pre_len..].to_vec());
                    return obs;
                }
                Err(_) => {
                    obs.stuck = Some(format!("session write blocked for 1000 virtual seconds at packet {} ({:?})", obs.packets.len() + 1, op));
                    obs.wire = c2s.with_log(|l| l.bytes[pre_len..].to_vec());
                    return obs;
                }
            }
        }
    }
    tokio::time::sleep(Duration::from_secs(1)).await;
    obs.wire = c2s.with_log(|l| l.bytes[pre_len..].to_vec());
    obs.s2c_wire = s2c.with_log(|l| l.bytes.clone());
    obs
}
