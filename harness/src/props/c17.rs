//! C17 — the HTTP proxy forwards each request to its authority, unchanged in
//! substance. Requests are generated from a grammar together with their
//! expected outcome; bytes observed at loopback origins (incl. ports 80/443)
//! and at the client are compared with it.

use crate::engine;
use crate::netkit::{self, Target};
use crate::prng::Rng;
use crate::report::{CheckMeta, Report, hash_str};
use crate::run::{self, Ctx};
use serde_json::{Value, json};
use std::net::{IpAddr, Ipv4Addr, Ipv6Addr, SocketAddr};
use std::sync::{Arc, Mutex};
use std::time::Duration;
use tokio::io::{AsyncReadExt, AsyncWriteExt};
use tokio::net::TcpStream;

#[derive(Clone, Debug)]
pub struct HttpCase {
    pub token: String,
    pub method: String,
    pub form: &'static str,
    pub host_kind: &'static str,
    pub host_header_name: Option<String>,
    /// bytes of the request head (request line + headers + CRLF CRLF)
    pub head: Vec<u8>,
    /// body / tunnel bytes that travel in the same segment as the head
    pub early: Vec<u8>,
    /// body / tunnel bytes sent afterwards
    pub late: Vec<u8>,
    pub expect_dest: SocketAddr,
    /// expected request line at the origin (non-CONNECT)
    pub expect_request_line: String,
    /// header lines as sent, in order (without the request line)
    pub header_lines: Vec<String>,
    /// host text of the authority as the request spelled it (for the Host value check)
    pub authority_host: String,
    pub delivery: u8,
    pub head_size_class: &'static str,
}

impl HttpCase {
    fn is_connect(&self) -> bool {
        self.method == "CONNECT"
    }
    fn describe(&self) -> Value {
        json!({"kind": "c17", "token": self.token, "method": self.method, "target_form": self.form, "host_kind": self.host_kind, "host_header_name": self.host_header_name, "head_bytes": self.head.len(), "head_size_class": self.head_size_class,
            "request_line": String::from_utf8_lossy(&self.head[..self.head.iter().position(|b| *b == b'\r').unwrap_or(0)]), "early_bytes": self.early.len(), "late_bytes": self.late.len(), "expected_destination": self.expect_dest.to_string(), "delivery": self.delivery, "headers": self.header_lines.len()})
    }
}

pub struct Ports {
    pub p4: u16,
    pub p6: u16,
}

pub fn gen_case(rng: &mut Rng, i: usize, ports: &Ports) -> HttpCase {
    let token = format!("tok{i:06}x{:08x}", rng.next() as u32);
    let connect = i % 3 == 0;
    let method = if connect { "CONNECT".to_string() } else { rng.pick(&["GET", "POST", "PUT", "DELETE", "HEAD", "OPTIONS", "PATCH"]).to_string() };
    // ---- authority
    let host_kind = *rng.pick(&["name", "ipv4", "ipv6"]);
    let (host_text, ip): (String, IpAddr) = match host_kind {
        "name" => {
            let n = format!("{}{}.origin{}.test", if rng.chance(0.3) { "Www" } else { "h" }, i, rng.below(50));
            let ip = IpAddr::V4(netkit::name_to_v4(&n));
            (n, ip)
        }
        "ipv4" => {
            let ip = netkit::uniq_ip(99, i as u32);
            (ip.to_string(), IpAddr::V4(ip))
        }
        _ => ("[::1]".to_string(), IpAddr::V6(Ipv6Addr::LOCALHOST)),
    };
    // explicit port or scheme default
    let form: &'static str = if connect { "authority" } else { *rng.pick(&["absolute_http", "absolute_https", "origin_form_with_host"]) };
    let default_port = match form {
        "authority" | "absolute_https" => 443,
        _ => 80,
    };
    let explicit = rng.chance(0.6);
    let port = if explicit { if ip.is_ipv6() { ports.p6 } else { ports.p4 } } else { default_port };
    let authority = if explicit { format!("{host_text}:{port}") } else { host_text.clone() };
    // every sixth request carries another URL, unescaped, in its path or query (redirectors, proxies of proxies): the
    // authority is the one of the request target itself
    let inner = match i % 12 {
        5 => "&next=http://127.250.1.1:9/landing",
        11 => "&u=https://decoy.c17.test/x://y",
        _ => "",
    };
    let path = format!("/{}/p{}?q={}&t={}{inner}", rng.pick(&["a", "index.html", "api/v1/items", "x%20y", "go/http://decoy.c17.test:1/z"]), i, rng.below(1000), token);
    let version = if rng.chance(0.85) { "HTTP/1.1" } else { "HTTP/1.0" };
    let target = match form {
        "authority" => authority.clone(),
        "absolute_http" => format!("http://{authority}{path}"),
        "absolute_https" => format!("https://{authority}{path}"),
        _ => path.clone(),
    };
    // ---- headers
    let host_name_spelling = rng.pick(&["Host", "Host", "host", "HOST", "hOsT", "HoSt"]).to_string();
    let with_host = form == "origin_form_with_host" || rng.chance(0.7);
    let mut lines: Vec<String> = Vec::new();
    let (n_headers, head_size_class): (usize, &'static str) = match rng.below(10) {
        0 => (0, "minimal"),
        1..=6 => (rng.usize(1, 12), "small"),
        7 => (rng.usize(13, 60), "many_lines"),
        _ => (rng.usize(3, 10), "near_64k"),
    };
    for k in 0..n_headers {
        let name = rng.pick(&["User-Agent", "Accept", "X-Custom", "Cookie", "accept-encoding", "X-Token", "Content-Type", "Hostname", "X-Host", "Proxy-Connection"]);
        lines.push(format!("{name}: v{k}-{}-{}", rng.below(100000), if k == 0 { token.as_str() } else { "z" }));
    }
    if head_size_class == "near_64k" {
        // one large block so that the head ends up just under the 64 KiB limit (filled in below)
        lines.push(String::from("X-Fill: "));
    }
    let host_pos = if lines.is_empty() { 0 } else { rng.usize(0, lines.len()) };
    // for absolute-URI targets the Host header may legitimately disagree with the URI (other port, port omitted,
    // another name): the URI names the authority
    let host_value = if with_host && form.starts_with("absolute") && rng.chance(0.35) {
        match rng.below(3) {
            0 => format!("{host_text}:{}", 1 + rng.below(60000)),
            1 => host_text.clone(),
            _ => format!("decoy{i}.other.test:{}", ports.p4),
        }
    } else {
        authority.clone()
    };
    if with_host {
        lines.insert(host_pos, format!("{host_name_spelling}:{}{host_value}", if rng.chance(0.8) { " " } else { "" }));
    }
    // body markers
    let end_marker = format!("<<END-{token}>>");
    let early_len = *rng.pick(&[0usize, 0, 1, 17, 300, 1023, 1024, 4000, 8192]);
    let mut early = rng.bytes(early_len);
    for b in early.iter_mut() {
        *b = b'a' + (*b % 26);
    }
    if !early.is_empty() {
        let tag = format!("<<EARLY-{token}>>");
        let n = tag.len().min(early.len());
        early[..n].copy_from_slice(&tag.as_bytes()[..n]);
    }
    let mut late = rng.bytes_in(0, 3000);
    for b in late.iter_mut() {
        *b = b'A' + (*b % 26);
    }
    late.extend_from_slice(end_marker.as_bytes());
    if !connect && (method == "POST" || method == "PUT" || method == "PATCH") {
        lines.push(format!("Content-Length: {}", early.len() + late.len()));
    }
    let request_line = format!("{method} {target} {version}");
    let build = |lines: &Vec<String>| {
        let mut h = request_line.clone().into_bytes();
        h.extend_from_slice(b"\r\n");
        for l in lines {
            h.extend_from_slice(l.as_bytes());
            h.extend_from_slice(b"\r\n");
        }
        h.extend_from_slice(b"\r\n");
        h
    };
    if head_size_class == "near_64k" {
        let base = build(&lines).len();
        let slack = *rng.pick(&[0usize, 1, 100, 600, 1023, 1500]);
        let want = 65536usize.saturating_sub(slack);
        let fill = want.saturating_sub(base);
        if let Some(l) = lines.iter_mut().find(|l| l.starts_with("X-Fill: ")) {
            l.push_str(&"f".repeat(fill));
        }
    }
    let head = build(&lines);
    let expect_request_line = format!("{method} {} {version}", if connect { String::new() } else { path.clone() });
    HttpCase {
        token,
        method,
        form,
        host_kind,
        host_header_name: if with_host { Some(host_name_spelling) } else { None },
        head,
        early,
        late,
        expect_dest: SocketAddr::new(ip, port),
        expect_request_line,
        header_lines: lines,
        authority_host: host_text,
        delivery: rng.below(3) as u8,
        head_size_class,
    }
}

type ConnLog = Arc<Mutex<Vec<(SocketAddr, Arc<Mutex<Vec<u8>>>)>>>;

fn spawn_origin(mut t: Target, log: ConnLog) -> tokio::task::JoinHandle<()> {
    tokio::spawn(async move {
        while let Some(mut a) = t.rx.recv().await {
            let buf = Arc::new(Mutex::new(Vec::new()));
            log.lock().unwrap().push((a.dialled, buf.clone()));
            tokio::spawn(async move {
                let mut tmp = vec![0u8; 16384];
                let mut answered = false;
                loop {
                    match tokio::time::timeout(Duration::from_secs(30), a.stream.read(&mut tmp)).await {
                        Ok(Ok(n)) if n > 0 => {
                            buf.lock().unwrap().extend_from_slice(&tmp[..n]);
                            if !answered {
                                answered = true;
                                let _ = a.stream.write_all(b"HTTP/1.1 200 OK\r\nContent-Length: 9\r\n\r\nORIGIN-OK").await;
                            }
                        }
                        _ => break,
                    }
                }
            });
        }
    })
}

struct World {
    http: String,
    ports: Ports,
    conns: ConnLog,
    _keep: Vec<tokio::task::JoinHandle<()>>,
}

async fn build_world(reserved: Vec<std::net::TcpListener>) -> Option<World> {
    let (server_addr, sh) = netkit::start_server(netkit::PASSWORD, engine::default_padding()).await?;
    let client = netkit::make_client(&server_addr, netkit::PASSWORD, engine::default_padding(), netkit::quiet_pool());
    let (http, h1) = netkit::start_http(client.clone()).await?;
    let conns: ConnLog = Arc::new(Mutex::new(Vec::new()));
    let mut keep = vec![sh, h1];
    let t4 = Target::bind_v4(0).await?;
    let t6 = Target::bind_v6_loopback(0).await?;
    let ports = Ports { p4: t4.port, p6: t6.port };
    keep.push(spawn_origin(t4, conns.clone()));
    keep.push(spawn_origin(t6, conns.clone()));
    for l in reserved {
        keep.push(spawn_origin(Target::from_std(l)?, conns.clone()));
    }
    Some(World { http, ports, conns, _keep: keep })
}

#[derive(Debug, Clone, Default)]
struct Outcome {
    client_got: Vec<u8>,
    origin: Option<(SocketAddr, Vec<u8>)>,
    note: String,
}

async fn run_case(w: &World, c: &HttpCase) -> Result<Outcome, String> {
    // the origin connection of this case is accepted after this point: only later entries are searched
    // (searching the whole log made a 10 000-request run quadratic)
    let mark = w.conns.lock().unwrap().len();
    let mut s = TcpStream::connect(&w.http).await.map_err(|e| e.to_string())?;
    let _ = s.set_nodelay(true);
    let mut first: Vec<u8> = c.head.clone();
    first.extend_from_slice(&c.early);
    match c.delivery {
        0 => s.write_all(&first).await.map_err(|e| e.to_string())?,
        1 => {
            // head split at a few places, the early bytes ride with the last piece of the head
            let cut1 = c.head.len() / 3;
            // the second cut lands inside the header terminator: after "\r", "\r\n" or "\r\n\r" (varies per case)
            let cut2 = c.head.len().saturating_sub(1 + (c.head.len() + c.early.len()) % 3).max(cut1);
            for part in [&first[..cut1], &first[cut1..cut2], &first[cut2..]] {
                s.write_all(part).await.map_err(|e| e.to_string())?;
                s.flush().await.ok();
                tokio::time::sleep(Duration::from_millis(8)).await;
            }
        }
        _ => {
            // dripped in small pieces up to the end of the request line, then the rest in one go
            let rl = c.head.iter().position(|b| *b == b'\n').map(|p| p + 1).unwrap_or(0).min(200);
            for b in &first[..rl] {
                s.write_all(&[*b]).await.map_err(|e| e.to_string())?;
            }
            s.write_all(&first[rl..]).await.map_err(|e| e.to_string())?;
        }
    }
    let mut out = Outcome::default();
    let mut buf = vec![0u8; 4096];
    if c.is_connect() {
        // wait for the proxy's verdict before sending more
        let deadline = tokio::time::Instant::now() + Duration::from_secs(20);
        while !out.client_got.windows(4).any(|w| w == b"\r\n\r\n") {
            match tokio::time::timeout_at(deadline, s.read(&mut buf)).await {
                Ok(Ok(n)) if n > 0 => out.client_got.extend_from_slice(&buf[..n]),
                _ => break,
            }
        }
        if !out.client_got.starts_with(b"HTTP/1.1 200") {
            out.note = "no 200 for CONNECT".into();
            return Ok(out);
        }
    }
    s.write_all(&c.late).await.map_err(|e| e.to_string())?;
    // wait until some origin connection has seen this case's end marker
    let marker = format!("<<END-{}>>", c.token);
    let deadline = tokio::time::Instant::now() + Duration::from_secs(12);
    loop {
        let found = {
            let conns = w.conns.lock().unwrap();
            conns.iter().skip(mark).find_map(|(addr, b)| {
                let b = b.lock().unwrap();
                if b.windows(marker.len()).any(|x| x == marker.as_bytes()) { Some((*addr, b.clone())) } else { None }
            })
        };
        if let Some(f) = found {
            out.origin = Some(f);
            break;
        }
        if tokio::time::Instant::now() > deadline {
            // maybe the request reached an origin without its tail: look for the token anywhere
            let conns = w.conns.lock().unwrap();
            out.origin = conns.iter().skip(mark).find_map(|(addr, b)| {
                let b = b.lock().unwrap();
                if b.windows(c.token.len()).any(|x| x == c.token.as_bytes()) { Some((*addr, b.clone())) } else { None }
            });
            out.note = "end marker never arrived at any origin".into();
            break;
        }
        tokio::time::sleep(Duration::from_millis(15)).await;
    }
    // collect whatever the proxy sent back (response or error)
    let _ = tokio::time::timeout(Duration::from_millis(150), async {
        loop {
            match s.read(&mut buf).await {
                Ok(n) if n > 0 => out.client_got.extend_from_slice(&buf[..n]),
                _ => break,
            }
        }
    })
    .await;
    Ok(out)
}

fn host_value_ok(value: &str, c: &HttpCase) -> bool {
    // lenient: must name the same host; the port may be omitted when it is 80 or 443
    let v = value.trim();
    let (h, p): (&str, Option<u16>) = if let Some(rest) = v.strip_prefix('[') {
        match rest.find(']') {
            Some(e) => (&v[..e + 2], rest[e + 1..].strip_prefix(':').and_then(|x| x.parse().ok())),
            None => (v, None),
        }
    } else if v.matches(':').count() > 1 {
        (v, None) // bare IPv6
    } else {
        match v.rfind(':') {
            Some(i) => (&v[..i], v[i + 1..].parse().ok()),
            None => (v, None),
        }
    };
    let want_host = c.authority_host.trim_matches(|x| x == '[' || x == ']').to_ascii_lowercase();
    let got_host = h.trim_matches(|x| x == '[' || x == ']').to_ascii_lowercase();
    let port_ok = match p {
        Some(p) => p == c.expect_dest.port(),
        None => c.expect_dest.port() == 80 || c.expect_dest.port() == 443,
    };
    got_host == want_host && port_ok
}

fn judge(rep: &mut Report, c: &HttpCase, o: &Outcome) {
    let cause = format!("{}+{}+{}", if c.is_connect() { "connect" } else { "forward" }, c.form, c.head_size_class);
    let case = c.describe();
    let Some((addr, bytes)) = &o.origin else {
        let client = String::from_utf8_lossy(&o.client_got[..o.client_got.len().min(60)]).to_string();
        let why = match (&c.host_header_name, c.form) {
            (Some(n), "origin_form_with_host") if n != "Host" && n != "host" => format!("host_header_spelled_{}", n.to_ascii_lowercase() == "host"),
            _ => "any".to_string(),
        };
        let _ = why;
        rep.violate(
            "http_proxy",
            &format!("{cause}{}", match (&c.host_header_name, c.form) { (Some(n), "origin_form_with_host") if n != "Host" && n != "host" => "+host_header_other_letter_case", _ => "" }),
            "request_not_forwarded",
            format!("well-formed request ({} {}, Host header name {:?}, head {} bytes + {} early bytes) never reached its origin {}; the client got {:?} ({})", c.method, c.form, c.host_header_name, c.head.len(), c.early.len(), c.expect_dest, client, o.note),
            case,
        );
        return;
    };
    rep.add("requests_seen_at_an_origin", 1);
    if *addr != c.expect_dest {
        rep.violate("http_proxy", &cause, "tunnel_to_wrong_authority", format!("request names {} but the connection arrived at {}", c.expect_dest, addr), case.clone());
        return;
    }
    rep.add("tunnels_to_the_named_authority", 1);
    let mut tail_expected: Vec<u8> = c.early.clone();
    tail_expected.extend_from_slice(&c.late);
    if c.is_connect() {
        if !o.client_got.starts_with(b"HTTP/1.1 200") {
            rep.violate("http_proxy", &cause, "connect_not_answered_200", String::from_utf8_lossy(&o.client_got[..o.client_got.len().min(40)]).to_string(), case.clone());
        }
        if *bytes != tail_expected {
            let sym = if !c.early.is_empty() && bytes.len() < tail_expected.len() && tail_expected.ends_with(bytes) { "bytes_sent_with_connect_header_dropped" } else { "tunnel_bytes_differ" };
            rep.violate("http_proxy", &format!("{cause}{}", if c.early.is_empty() { "" } else { "+early_bytes" }), sym, format!("origin received {} tunnel bytes, {} were sent ({} of them in the same segment as the CONNECT header)", bytes.len(), tail_expected.len(), c.early.len()), case.clone());
        } else {
            rep.add("connect_tunnels_byte_exact", 1);
        }
        return;
    }
    // forwarded request: split what the origin saw
    let Some(hend) = bytes.windows(4).position(|w| w == b"\r\n\r\n") else {
        rep.violate("http_proxy", &cause, "forwarded_head_incomplete", format!("origin saw {} bytes without a complete head", bytes.len()), case.clone());
        return;
    };
    let head_text = String::from_utf8_lossy(&bytes[..hend]).to_string();
    let mut got_lines = head_text.split("\r\n");
    let rl = got_lines.next().unwrap_or("");
    if rl != c.expect_request_line {
        rep.violate("http_proxy", &cause, "request_line_differs", format!("origin got request line {:?}, expected {:?}", rl, c.expect_request_line), case.clone());
    }
    let got_headers: Vec<&str> = got_lines.collect();
    let is_host = |l: &str| l.len() >= 5 && l[..5].eq_ignore_ascii_case("host:");
    let got_other: Vec<&str> = got_headers.iter().copied().filter(|l| !is_host(l)).collect();
    let sent_other: Vec<&str> = c.header_lines.iter().map(|s| s.as_str()).filter(|l| !is_host(l)).collect();
    if got_other != sent_other {
        let at = got_other.iter().zip(sent_other.iter()).position(|(a, b)| a != b).unwrap_or(got_other.len().min(sent_other.len()));
        rep.violate("http_proxy", &cause, "header_lines_changed", format!("{} non-Host header lines sent, {} arrived; first difference at line {at}: sent {:?}, got {:?}", sent_other.len(), got_other.len(), sent_other.get(at).map(|s| &s[..s.len().min(60)]), got_other.get(at).map(|s| &s[..s.len().min(60)])), case.clone());
    }
    let hosts: Vec<&str> = got_headers.iter().copied().filter(|l| is_host(l)).collect();
    if hosts.is_empty() {
        rep.violate("http_proxy", &cause, "host_header_missing_at_origin", "no Host header arrived".to_string(), case.clone());
    }
    for h in hosts {
        if !host_value_ok(&h[5..], c) {
            rep.violate("http_proxy", &cause, "host_header_names_another_authority", format!("origin got {:?}; the request's authority is {}:{}", h, c.authority_host, c.expect_dest.port()), case.clone());
        }
    }
    let body = &bytes[hend + 4..];
    if body != &tail_expected[..] {
        rep.violate("http_proxy", &cause, "body_bytes_differ", format!("origin received {} body bytes, {} were sent ({} with the head)", body.len(), tail_expected.len(), c.early.len()), case.clone());
    } else {
        rep.add("forwarded_requests_byte_exact", 1);
    }
}

pub fn run(ctx: Ctx) -> Report {
    let n = ctx.tier.pick(600, 40_000);
    let mut rep = Report::new("C17");
    let seed = ctx.seed;
    // the scheme-default ports are fixed by the protocol; another run of this check may hold them right now
    let Some(reserved) = netkit::reserve_ports(&["0.0.0.0:80", "0.0.0.0:443", "[::1]:80", "[::1]:443"], Duration::from_secs(ctx.tier.pick(1500, 7200))) else {
        rep.inconclusive("ports 80/443 on the loopback are held by another process");
        return rep;
    };
    run::case_begin("C17 e2e");
    let out = run::rt_block_on(8, async move {
        let mut rep = Report::new("C17");
        let Some(dns) = netkit::start_fake_dns().await else {
            rep.inconclusive("cannot start fake DNS");
            return rep;
        };
        if !netkit::use_fake_dns(&dns).await {
            rep.inconclusive("cannot install fake DNS");
            return rep;
        }
        let Some(w) = build_world(reserved).await else {
            rep.inconclusive("cannot build world");
            return rep;
        };
        let w = Arc::new(w);
        let mut rng = Rng::new(seed ^ 0xC17);
        let cases: Vec<HttpCase> = (0..n).map(|i| gen_case(&mut rng, i, &w.ports)).collect();
        let results = Arc::new(Mutex::new(Vec::new()));
        {
            let w = w.clone();
            let results = results.clone();
            netkit::for_each_limited(cases, 32, move |c| {
                let w = w.clone();
                let results = results.clone();
                async move {
                    let r = run_case(&w, &c).await;
                    results.lock().unwrap().push((c, r));
                }
            })
            .await;
        }
        let mut results = results.lock().unwrap().clone();
        // seen under 32-fold concurrency: confirm with little else going on (same bytes; a fresh token is not needed:
        // the earlier attempt never produced the end marker). At most 40 cases, 4 at a time: a tree on which more
        // than that fail is not suffering from load, and every retry may wait out its full bound.
        let retry: Vec<usize> = results.iter().enumerate().filter(|(_, (_, r))| matches!(r, Ok(o) if o.origin.is_none() || !o.note.is_empty()) || r.is_err()).map(|(i, _)| i).take(40).collect();
        if !retry.is_empty() {
            let again: Arc<Mutex<Vec<(usize, Result<Outcome, String>)>>> = Arc::new(Mutex::new(Vec::new()));
            let jobs: Vec<(usize, HttpCase)> = retry.iter().map(|i| (*i, results[*i].0.clone())).collect();
            {
                let w = w.clone();
                let again = again.clone();
                netkit::for_each_limited(jobs, 4, move |(i, c)| {
                    let w = w.clone();
                    let again = again.clone();
                    async move {
                        let r = run_case(&w, &c).await;
                        again.lock().unwrap().push((i, r));
                    }
                })
                .await;
            }
            for (i, r) in again.lock().unwrap().drain(..) {
                rep.add("requests_retried_in_isolation", 1);
                if r.is_ok() {
                    results[i].1 = r;
                }
            }
        }
        for (i, (c, r)) in results.iter().enumerate() {
            rep.case(Some(hash_str(&c.describe().to_string())));
            rep.add("requests", 1);
            rep.seen("target_forms", c.form);
            rep.seen("host_header_spellings", c.host_header_name.clone().unwrap_or("<none>".into()));
            rep.add(&format!("head_{}", c.head_size_class), 1);
            match r {
                Err(e) => rep.inconclusive(format!("{}: {e}", c.token)),
                Ok(o) => {
                    judge(&mut rep, c, o);
                    if i < 4 {
                        rep.sample(json!({"case": c.describe(), "origin_saw_bytes": o.origin.as_ref().map(|x| x.1.len()), "arrived_at": o.origin.as_ref().map(|x| x.0.to_string())}));
                    }
                }
            }
        }
        rep
    });
    rep.merge(out);
    for p in run::panic_log() {
        if !run::is_harness_panic(&p) {
            rep.violate("http_proxy", "any", "panic", p, json!({}));
        }
    }
    run::case_end();
    rep
}

pub fn meta() -> CheckMeta {
    CheckMeta {
        level: "exploration",
        rule: "requests generated from a grammar together with their expected outcome (no second parser): method in {CONNECT, GET, POST, PUT, DELETE, HEAD, OPTIONS, PATCH}, target form in {authority, absolute http URI, absolute https URI, origin-form + Host}, host spelled as name (fake DNS), IPv4 literal or bracketed IPv6, explicit port or scheme default (origins listen on 80 and 443 too), 0-60 header lines incl. head blocks 0-1500 bytes under the 64 KiB limit, Host header at any position and in any letter case or absent (for absolute URIs also naming another port / no port / another host than the URI, which wins), 0-8 KiB of body/tunnel bytes in the same segment as the head plus later bytes ending in a unique marker; head delivered whole / in three pieces / dripped. Observed through the real start_http_proxy_server + Client + Server: the origin connection carrying the case's token must have arrived at exactly the named (address, port); CONNECT answered 200 and the tunnel bytes (incl. those sent with the header) arrive exactly once, in order; for other methods request line = method origin-form version, non-Host header lines identical and in order, Host present and naming the same authority (port may be omitted for 80/443), body bytes identical. Only the first request per connection. distinct_nontrivial = distinct generated requests. Every sixth request carries another URL, unescaped, in its path or query (and a fifth of the paths contain one as a segment): the authority is still the one of the request target.".into(),
        assumptions: vec!["a head block above 64 KiB may be rejected (documented cap); blocks at or below it must be served".into()],
        floors: vec![("requests", 300), ("requests_seen_at_an_origin", 200), ("tunnels_to_the_named_authority", 200), ("head_near_64k", 20)],
        exhaustive: false,
    }
}
