//! C09 — a dying session releases everyone waiting on it, promptly.
//! Fault enumeration: (cause x side x byte offset / logical step) over a set
//! of scenarios, each repeated under forced pre-emptions around close().

use crate::engine::{self, PairCfg};
use crate::mempipe::{Frag, PipeCfg, ReadFault};
use crate::prng::Rng;
use crate::refcodec;
use crate::report::{CheckMeta, Report, hash_str};
use crate::run::{self, Ctx};
use crate::sched::{self, SchedMode};
use anytls_rs::client::{SessionPool, SessionPoolConfig};
use anytls_rs::protocol::{Command, Frame};
use anytls_rs::session::SessionHeartbeatConfig;
use bytes::Bytes;
use serde_json::{Value, json};
use std::collections::BTreeMap;
use std::io::ErrorKind;
use std::sync::atomic::{AtomicUsize, Ordering};
use std::sync::{Arc, Mutex};
use std::time::Duration;

/// bound (virtual seconds) within which everything must be released after the cause
const D: u64 = 120;

#[derive(Clone, Copy, Debug, PartialEq, Eq)]
pub enum Side {
    Client,
    Server,
}

#[derive(Clone, Copy, Debug, PartialEq, Eq)]
pub enum Cause {
    ReadEof,
    ReadUnexpectedEof,
    ReadReset,
    WriteBrokenPipe,
    WriteReset,
    Alert,
    OwnerClose,
    ReaperClose,
    HeartbeatGiveUp,
}

impl Cause {
    fn name(&self) -> &'static str {
        match self {
            Cause::ReadEof => "clean_eof",
            Cause::ReadUnexpectedEof => "unexpected_eof",
            Cause::ReadReset => "read_error",
            Cause::WriteBrokenPipe => "write_error_broken_pipe",
            Cause::WriteReset => "write_error_reset",
            Cause::Alert => "peer_alert",
            Cause::OwnerClose => "owner_close",
            Cause::ReaperClose => "reaper_close",
            Cause::HeartbeatGiveUp => "heartbeat_give_up",
        }
    }
    fn by_offset(&self) -> bool {
        matches!(self, Cause::ReadEof | Cause::ReadUnexpectedEof | Cause::ReadReset | Cause::WriteBrokenPipe | Cause::WriteReset | Cause::HeartbeatGiveUp)
    }
    fn on_read_side(&self) -> bool {
        matches!(self, Cause::ReadEof | Cause::ReadUnexpectedEof | Cause::ReadReset | Cause::HeartbeatGiveUp)
    }
}

#[derive(Clone, Debug)]
pub struct Scen {
    pub name: &'static str,
    pub streams: usize,
    pub chunks: usize,
    pub chunk: usize,
    /// 0 = write_data_frame, 1 = Stream::send_data
    pub api: u8,
    pub readers: bool,
    /// the peer of the subject stops reading after this many bytes and the subject's outbound pipe is tiny
    pub backpressure: bool,
    pub heartbeat: bool,
    /// the server has answered the opens before the fault: odd streams refused (SYNACK with text), even ones accepted
    pub verdicts: bool,
    /// the client pads with the default scheme (several transport writes per packet, padding frames on the wire)
    pub padded: bool,
    /// both directions fragment writes and reads at random and return spurious Pending
    pub frag: bool,
}

const SCENARIOS: &[Scen] = &[
    Scen { name: "before_first_write", streams: 0, chunks: 0, chunk: 0, api: 0, readers: false, backpressure: false, heartbeat: false, verdicts: false, padded: false, frag: false },
    Scen { name: "opens_pending", streams: 2, chunks: 0, chunk: 0, api: 0, readers: true, backpressure: false, heartbeat: false, verdicts: false, padded: false, frag: false },
    Scen { name: "streams_idle", streams: 2, chunks: 1, chunk: 30, api: 0, readers: true, backpressure: false, heartbeat: false, verdicts: false, padded: false, frag: false },
    Scen { name: "mid_transfer_direct", streams: 2, chunks: 4, chunk: 700, api: 0, readers: true, backpressure: false, heartbeat: false, verdicts: false, padded: false, frag: false },
    Scen { name: "mid_transfer_queued", streams: 3, chunks: 4, chunk: 300, api: 1, readers: true, backpressure: false, heartbeat: false, verdicts: false, padded: false, frag: false },
    Scen { name: "concurrent_writers", streams: 4, chunks: 3, chunk: 100, api: 0, readers: false, backpressure: false, heartbeat: true, verdicts: false, padded: false, frag: false },
    Scen { name: "opens_answered_then_idle", streams: 3, chunks: 0, chunk: 0, api: 0, readers: true, backpressure: false, heartbeat: false, verdicts: true, padded: false, frag: false },
    Scen { name: "opens_answered_mid_transfer", streams: 3, chunks: 3, chunk: 200, api: 1, readers: true, backpressure: false, heartbeat: false, verdicts: true, padded: false, frag: false },
    Scen { name: "writer_backpressured", streams: 1, chunks: 6, chunk: 400, api: 0, readers: true, backpressure: true, heartbeat: false, verdicts: false, padded: false, frag: false },
    Scen { name: "queued_writer_backpressured", streams: 2, chunks: 6, chunk: 400, api: 1, readers: true, backpressure: true, heartbeat: false, verdicts: false, padded: false, frag: false },
    Scen { name: "mid_transfer_padded", streams: 2, chunks: 4, chunk: 700, api: 0, readers: true, backpressure: false, heartbeat: false, verdicts: false, padded: true, frag: false },
    Scen { name: "queued_padded_fragmented", streams: 3, chunks: 3, chunk: 500, api: 1, readers: true, backpressure: false, heartbeat: true, verdicts: true, padded: true, frag: true },
];

/// the hand-written scenarios plus generated ones (fixed generator seed: a scenario name identifies its
/// parameters in every run, so replay files stay valid)
fn all_scen() -> &'static Vec<Scen> {
    static ALL: std::sync::OnceLock<Vec<Scen>> = std::sync::OnceLock::new();
    ALL.get_or_init(|| {
        let mut v: Vec<Scen> = SCENARIOS.to_vec();
        let mut rng = Rng::new(0x5CE9_A810);
        for i in 0..40 {
            let streams = rng.usize(0, 6);
            let chunks = if streams == 0 { 0 } else { rng.usize(0, 5) };
            let chunk = *rng.pick(&[1usize, 9, 120, 700, 3000, 20_000, 70_000]);
            let api = rng.below(2) as u8;
            let readers = rng.chance(0.7);
            let backpressure = streams > 0 && chunks > 0 && rng.chance(0.3);
            let heartbeat = rng.chance(0.3);
            let verdicts = rng.chance(0.4);
            let padded = rng.chance(0.5);
            let frag = rng.chance(0.4);
            let name: &'static str = Box::leak(format!("gen{i}_s{streams}_c{chunks}x{chunk}_api{api}{}{}{}{}{}{}", if readers { "_rd" } else { "" }, if backpressure { "_bp" } else { "" }, if heartbeat { "_hb" } else { "" }, if verdicts { "_vd" } else { "" }, if padded { "_pad" } else { "" }, if frag { "_frag" } else { "" }).into_boxed_str());
            v.push(Scen { name, streams, chunks, chunk, api, readers, backpressure, heartbeat, verdicts, padded, frag });
        }
        v
    })
}

#[derive(Clone, Debug)]
pub struct FaultCase {
    pub scen: usize,
    pub side: Side,
    pub cause: Cause,
    /// byte offset (offset causes) or logical step (others)
    pub at: u64,
    pub plan: BTreeMap<usize, u32>,
}

impl FaultCase {
    pub fn from_json(v: &Value) -> Option<FaultCase> {
        let scen = all_scen().iter().position(|s| Some(s.name) == v.get("scenario").and_then(|x| x.as_str()))?;
        let side = if v.get("side")?.as_str()? == "Client" { Side::Client } else { Side::Server };
        let cname = v.get("cause")?.as_str()?;
        let cause = [Cause::ReadEof, Cause::ReadUnexpectedEof, Cause::ReadReset, Cause::WriteBrokenPipe, Cause::WriteReset, Cause::Alert, Cause::OwnerClose, Cause::ReaperClose, Cause::HeartbeatGiveUp].into_iter().find(|c| c.name() == cname)?;
        let mut plan = BTreeMap::new();
        for y in v.get("forced_yields")?.as_array()? {
            plan.insert(y.get(0)?.as_u64()? as usize, y.get(1)?.as_u64()? as u32);
        }
        Some(FaultCase { scen, side, cause, at: v.get("at")?.as_u64()?, plan })
    }
    fn describe(&self) -> Value {
        json!({"kind": "c09", "scenario": all_scen()[self.scen].name, "side": format!("{:?}", self.side), "cause": self.cause.name(), "at": self.at, "forced_yields": self.plan.iter().map(|(k, v)| json!([k, v])).collect::<Vec<_>>()})
    }
}

#[derive(Default, Debug)]
pub struct Observed {
    pub fired: bool,
    pub problems: Vec<(String, String)>, // (symptom, detail)
    pub c2s_boundaries: Vec<u64>,
    pub s2c_boundaries: Vec<u64>,
    pub steps: usize,
    pub waiters: usize,
    pub hits: usize,
    pub sched_names: Vec<&'static str>,
}

type Table = Arc<Mutex<BTreeMap<String, Option<String>>>>;

fn waiter(table: &Table, name: String) -> impl FnOnce(String) + Send + use<> {
    table.lock().unwrap().insert(name.clone(), None);
    let t = table.clone();
    move |res: String| {
        t.lock().unwrap().insert(name, Some(res));
    }
}

async fn run_async(fc: Option<FaultCase>, scen: Scen, clean: bool) -> Observed {
    let mut obs = Observed::default();
    let side = fc.as_ref().map(|f| f.side).unwrap_or(Side::Client);
    let cause = fc.as_ref().map(|f| f.cause);
    // pipes: the subject's outbound pipe is tiny in back-pressure scenarios
    let tiny = PipeCfg { capacity: 256, write_frag: Frag::All, read_frag: Frag::All, pending_prob: 0.0, seed: 1 };
    let base = if scen.frag { PipeCfg { capacity: 4096, write_frag: Frag::Random(900), read_frag: Frag::Pool(vec![1, 7, 8, 64, 1000]), pending_prob: 0.15, seed: 7 } } else { PipeCfg::plain() };
    let (c2s_cfg, s2c_cfg) = match (scen.backpressure, side) {
        (true, Side::Client) => (tiny.clone(), base.clone()),
        (true, Side::Server) => (base.clone(), tiny.clone()),
        _ => (base.clone(), base.clone()),
    };
    let hb = if scen.heartbeat || cause == Some(Cause::HeartbeatGiveUp) { Some(SessionHeartbeatConfig { interval: Duration::from_secs(10), timeout: Duration::from_secs(25) }) } else { None };
    let mut pair = engine::make_pair(PairCfg { c2s: c2s_cfg, s2c: s2c_cfg, client_padding: if scen.padded { engine::default_padding() } else { engine::no_padding() }, server_padding: engine::no_padding(), heartbeat: hb }).await;
    let (subject, peer) = match side {
        Side::Client => (pair.client.clone(), pair.server.clone()),
        Side::Server => (pair.server.clone(), pair.client.clone()),
    };
    // subject reads `inb`, writes `outb`
    let (inb, outb) = match side {
        Side::Client => (pair.s2c.clone(), pair.c2s.clone()),
        Side::Server => (pair.c2s.clone(), pair.s2c.clone()),
    };
    if scen.backpressure {
        // the peer stops draining the subject's outbound direction after 300 bytes
        outb.set_read_fault(300, ReadFault::BlackHole);
    }
    if let Some(f) = &fc
        && f.cause.by_offset()
        && !clean
    {
        match f.cause {
            Cause::ReadEof => inb.set_read_fault(f.at, ReadFault::Eof),
            Cause::ReadUnexpectedEof => inb.set_read_fault(f.at, ReadFault::Err(ErrorKind::UnexpectedEof)),
            Cause::ReadReset => inb.set_read_fault(f.at, ReadFault::Err(ErrorKind::ConnectionReset)),
            Cause::HeartbeatGiveUp => inb.set_read_fault(f.at, ReadFault::BlackHole),
            Cause::WriteBrokenPipe => outb.set_write_fault(f.at, ErrorKind::BrokenPipe),
            Cause::WriteReset => outb.set_write_fault(f.at, ErrorKind::ConnectionReset),
            _ => {}
        }
    }
    let table: Table = Arc::new(Mutex::new(BTreeMap::new()));
    let (steps_tx, steps_rx) = tokio::sync::watch::channel(0usize);
    let steps_tx = Arc::new(steps_tx);
    let mut harness_tasks: Vec<tokio::task::JoinHandle<()>> = Vec::new();

    // --- open streams the way the client does; keep the pending-open receivers
    let mut client_streams = Vec::new();
    for i in 0..scen.streams {
        // the open runs in its own task: if it blocks (back-pressure) it stays alive as a waiter that the
        // session's death must release, instead of being cancelled by the monitor
        let mut open_task = {
            let c = pair.client.clone();
            tokio::spawn(async move { engine::open_like_client(&c, Bytes::from(vec![i as u8; 9])).await })
        };
        let r = match tokio::time::timeout(Duration::from_secs(D), &mut open_task).await {
            Ok(Ok(r)) => Ok(r),
            Ok(Err(_)) => Ok(Err(anytls_rs::util::AnyTlsError::Protocol("open task panicked".into()))),
            Err(_) => Err(open_task),
        };
        match r {
            Ok(Ok((st, rx))) => {
                if side == Side::Client {
                    let done = waiter(&table, format!("pending_open[{}]", st.id()));
                    harness_tasks.push(tokio::spawn(async move {
                        done(match rx.await {
                            Ok(Ok(())) => "resolved_ok".into(),
                            Ok(Err(e)) => format!("err:{e}"),
                            Err(_) => "err:channel closed".into(),
                        });
                    }));
                } else {
                    drop(rx);
                }
                client_streams.push(st);
            }
            Ok(Err(_)) => break, // the fault hit during the opens: later checks still apply
            Err(open_task) => {
                let done = waiter(&table, format!("open_like_client[{i}]"));
                harness_tasks.push(tokio::spawn(async move {
                    done(match open_task.await {
                        Ok(Ok(_)) => "resolved_ok".into(),
                        Ok(Err(e)) => format!("err:{e}"),
                        Err(_) => "err:task ended".into(),
                    });
                }));
                break;
            }
        }
        steps_tx.send_modify(|v| *v += 1);
    }
    if scen.streams == 0 {
        // nothing written yet: the session's first frames are still buffered
    }
    // --- accept on the server
    let mut server_streams = Vec::new();
    for _ in 0..client_streams.len() {
        match tokio::time::timeout(Duration::from_secs(5), pair.new_streams.recv()).await {
            Ok(Some(s)) => server_streams.push(s),
            _ => break,
        }
    }
    if scen.verdicts {
        // the server answers: a refusal for odd stream ids, success for even ones (the readers stay parked)
        for st in &client_streams {
            let f = if st.id() % 2 == 1 { Frame::with_data(Command::SynAck, st.id(), Bytes::from_static(b"refused by scenario")) } else { Frame::control(Command::SynAck, st.id()) };
            let _ = tokio::time::timeout(Duration::from_secs(D), pair.server.write_control_frame(f)).await;
        }
        tokio::time::sleep(Duration::from_millis(10)).await;
    }
    let (subj_streams, peer_streams) = match side {
        Side::Client => (client_streams.clone(), server_streams.clone()),
        Side::Server => (server_streams.clone(), client_streams.clone()),
    };
    // --- blocked readers on the subject's streams; draining readers on the peer's
    if scen.readers {
        for st in &subj_streams {
            let done = waiter(&table, format!("reader[{}]", st.id()));
            let st = st.clone();
            harness_tasks.push(tokio::spawn(async move {
                let mut buf = vec![0u8; 4096];
                loop {
                    let r = {
                        let mut g = st.reader().lock().await;
                        g.read(&mut buf).await
                    };
                    match r {
                        Ok(0) => {
                            done("eof".into());
                            break;
                        }
                        Ok(_) => {}
                        Err(e) => {
                            done(format!("err:{e}"));
                            break;
                        }
                    }
                }
            }));
        }
    }
    for st in &peer_streams {
        let st = st.clone();
        harness_tasks.push(tokio::spawn(async move {
            let mut buf = vec![0u8; 4096];
            loop {
                let r = {
                    let mut g = st.reader().lock().await;
                    g.read(&mut buf).await
                };
                if !matches!(r, Ok(n) if n > 0) {
                    break;
                }
            }
        }));
    }
    // --- writers in both directions (each is a waiter on the subject's side: it must finish)
    for (who, sess, streams) in [("subject", subject.clone(), subj_streams.clone()), ("peer", peer.clone(), peer_streams.clone())] {
        for st in streams {
            let done: Box<dyn FnOnce(String) + Send> = if who == "subject" { Box::new(waiter(&table, format!("writer[{}]", st.id()))) } else { Box::new(|_| {}) };
            let sess = sess.clone();
            let steps = steps_tx.clone();
            let scen = scen.clone();
            harness_tasks.push(tokio::spawn(async move {
                let mut res = "done".to_string();
                for k in 0..scen.chunks {
                    let data = Bytes::from(vec![k as u8; scen.chunk]);
                    let r = if scen.api == 0 { sess.write_data_frame(st.id(), data).await.map_err(|e| e.to_string()) } else { st.send_data(data).map_err(|e| e.to_string()) };
                    steps.send_modify(|v| *v += 1);
                    if let Err(e) = r {
                        res = format!("err:{e}");
                        break;
                    }
                    tokio::task::yield_now().await;
                }
                done(res);
            }));
        }
    }
    // --- logical-step causes
    let fired = Arc::new(AtomicUsize::new(0));
    let mut pool_keep: Option<Arc<SessionPool>> = None;
    if let Some(f) = &fc
        && !f.cause.by_offset()
        && !clean
    {
        let at = f.at as usize;
        let mut steps2 = steps_rx.clone();
        let fired2 = fired.clone();
        let subject2 = subject.clone();
        let peer2 = peer.clone();
        let cause = f.cause;
        let pool = if cause == Cause::ReaperClose {
            let p = Arc::new(SessionPool::with_config(SessionPoolConfig { check_interval: Duration::from_secs(100_000), idle_timeout: Duration::from_secs(0), min_idle_sessions: 0 }));
            pool_keep = Some(p.clone());
            Some(p)
        } else {
            None
        };
        let done = waiter(&table, format!("cause_action[{}]", cause.name()));
        let n_streams_for_alert = scen.streams;
        harness_tasks.push(tokio::spawn(async move {
            if steps2.wait_for(|v| *v >= at).await.is_err() {
                return;
            }
            fired2.store(1, Ordering::SeqCst);
            match cause {
                Cause::Alert => {
                    peer2.disable_buffering(); // make sure the alert really reaches the wire
                    // the alert text is the peer's to choose: nothing, ASCII, multi-byte text (whole and cut inside a
                    // character), bytes that are no text at all, a long one — picked by the position of the fault
                    let texts: [&[u8]; 7] = [b"boom", b"", "\u{4f1a}\u{8bdd}\u{5173}\u{95ed}".as_bytes(), &"\u{4f1a}\u{8bdd}".as_bytes()[..4], &[0xff, 0xfe, 0x00, 0x80], &[0x80; 300], b"x"];
                    let text = texts[(at + n_streams_for_alert) % texts.len()];
                    let _ = peer2.write_control_frame(Frame::with_data(Command::Alert, 0, Bytes::copy_from_slice(text))).await;
                    done("sent".into());
                }
                Cause::OwnerClose => {
                    let r = subject2.close().await;
                    done(format!("close returned {:?}", r.is_ok()));
                }
                Cause::ReaperClose => {
                    let p = pool.unwrap();
                    p.add_idle_session(subject2.clone()).await;
                    p.cleanup_expired().await;
                    done("cleanup returned".into());
                }
                _ => {}
            }
        }));
    }

    // clean recording: quiescence, frame boundaries, no verdict
    let Some(fc) = fc.filter(|_| !clean) else {
        tokio::time::sleep(Duration::from_secs(40)).await;
        for (h, out) in [(&pair.c2s, &mut obs.c2s_boundaries), (&pair.s2c, &mut obs.s2c_boundaries)] {
            let bytes = h.log().bytes;
            let (frames, _) = refcodec::parse_all(&bytes);
            for f in frames {
                out.push(f.off as u64);
            }
            out.push(bytes.len() as u64);
        }
        obs.steps = *steps_rx.borrow();
        for t in harness_tasks {
            t.abort();
        }
        return obs;
    };

    // --- let the cause happen, then give everything D virtual seconds
    let hb_allow = if fc.cause == Cause::HeartbeatGiveUp { 25 + 10 + 10 } else { 0 };
    tokio::time::sleep(Duration::from_secs(D + hb_allow)).await;
    obs.fired = match fc.cause {
        c if c.on_read_side() => inb.log().read_faults_fired > 0,
        Cause::WriteBrokenPipe | Cause::WriteReset => outb.log().write_errors > 0,
        _ => fired.load(Ordering::SeqCst) == 1,
    };
    if !obs.fired {
        for t in harness_tasks {
            t.abort();
        }
        return obs;
    }
    // R1: visibly closed
    if !subject.is_closed() {
        obs.problems.push(("not_visibly_closed".into(), format!("is_closed() is still false {} virtual seconds after the cause", D + hb_allow)));
    }
    // R2: transport shut down (shutdown call or writer dropped)
    let l = outb.log();
    if l.shutdown_calls == 0 && !l.writer_dropped {
        obs.problems.push(("transport_not_shut_down".into(), "no shutdown and no drop was recorded on the session's write half".into()));
    }
    // R3: every waiter finished, pending opens resolved with an error
    let snapshot = table.lock().unwrap().clone();
    obs.waiters = snapshot.len();
    for (name, res) in &snapshot {
        match res {
            None => {
                let sym = if name.starts_with("reader") {
                    "reader_not_released"
                } else if name.starts_with("pending_open") {
                    "pending_open_unresolved"
                } else if name.starts_with("writer") {
                    "concurrent_write_blocked"
                } else if name.starts_with("cause_action") {
                    "close_call_blocked"
                } else {
                    "waiter_blocked"
                };
                obs.problems.push((sym.into(), format!("{name} is still pending {} virtual seconds after the cause", D + hb_allow)));
            }
            Some(r) if name.starts_with("pending_open") && r == "resolved_ok" && !scen.verdicts => {
                obs.problems.push(("pending_open_resolved_ok".into(), format!("{name} completed with success although no SYNACK was ever sent")));
            }
            _ => {}
        }
    }
    // R4: later attempts fail with an error, and do so promptly
    if let Some(st) = subj_streams.first() {
        match tokio::time::timeout(Duration::from_secs(D), subject.write_data_frame(st.id(), Bytes::from_static(b"late"))).await {
            Ok(Err(_)) => {}
            Ok(Ok(())) => obs.problems.push(("later_write_ok".into(), "write_data_frame on the dead session returned Ok".into())),
            Err(_) => obs.problems.push(("later_write_blocked".into(), format!("write_data_frame on the dead session is still pending after {D} virtual seconds"))),
        }
    }
    match tokio::time::timeout(Duration::from_secs(D), subject.open_stream()).await {
        Ok(Err(_)) => {}
        Ok(Ok(_)) => obs.problems.push(("later_open_ok".into(), "open_stream on the dead session returned Ok".into())),
        Err(_) => obs.problems.push(("later_open_blocked".into(), format!("open_stream on the dead session is still pending after {D} virtual seconds"))),
    }
    // R5: no session task survives (harness tasks aborted first; only session-owned tasks can remain)
    for t in &harness_tasks {
        t.abort();
    }
    for t in harness_tasks {
        let _ = t.await;
    }
    drop(pool_keep);
    // the network does not stay black-holed forever after both ends gave up: lift the black holes
    // (a stalled TCP connection is eventually torn down by keep-alive / RST), so that a receive
    // loop parked on a dead direction can observe the end of the connection
    inb.clear_read_fault();
    outb.clear_read_fault();
    let _ = tokio::time::timeout(Duration::from_secs(5), peer.close()).await; // the peer may legitimately outlive (e.g. black-holed): end it
    tokio::time::sleep(Duration::from_secs(30)).await;
    let server_alive = pair.server_tasks.iter().enumerate().filter(|(_, t)| !t.is_finished()).map(|(i, _)| if i == 0 { "server recv_loop" } else { "server process_stream_data" }).collect::<Vec<_>>().join("+");
    let alive = run::alive_tasks();
    if alive > 0 {
        obs.problems.push(("session_task_retained".into(), format!("{alive} task(s) spawned by the sessions are still alive after both sessions ended (server-side: [{server_alive}])")));
    }
    let (a, b) = subject.verif_table_sizes().await;
    if a + b > 0 {
        obs.problems.push(("stream_table_retained".into(), format!("dead session still holds {a} stream / {b} receiver entries")));
    }
    obs
}

pub fn run_fault(fc: &FaultCase) -> Observed {
    let guard = sched::install(if fc.plan.is_empty() { SchedMode::Observe } else { SchedMode::Plan(fc.plan.clone()) }, 0);
    let scen = all_scen()[fc.scen].clone();
    let fc2 = fc.clone();
    let r = run::vt_block_on_deadline(Duration::from_secs(200_000), async move { run_async(Some(fc2), scen, false).await });
    let st = guard.state.borrow();
    let mut o = r.unwrap_or_else(|| Observed { fired: true, problems: vec![("case_stuck".into(), "the monitor itself could not finish within 200000 virtual seconds".into())], ..Default::default() });
    o.hits = st.hits.len();
    o.sched_names = st.hits.clone();
    o
}

fn clean_recording(scen: usize, side: Side) -> Observed {
    let s = all_scen()[scen].clone();
    let _g = sched::install(SchedMode::Observe, 0);
    // the clean run uses the same side so that pipe configurations match
    let probe = FaultCase { scen, side, cause: Cause::OwnerClose, at: u64::MAX, plan: BTreeMap::new() };
    run::vt_block_on_deadline(Duration::from_secs(100_000), async move { run_async(Some(probe), s, true).await }).unwrap_or_default()
}

fn record(rep: &mut Report, fc: &FaultCase, o: &Observed) {
    let scen = &all_scen()[fc.scen];
    if !o.fired {
        rep.add("fault_not_reached", 1);
        return;
    }
    rep.add("faults_fired", 1);
    rep.add(&format!("fired_{}", fc.cause.name()), 1);
    rep.add("waiters_observed", o.waiters as u64);
    rep.add("sched_point_hits", o.hits as u64);
    rep.seen("scenario_x_cause_x_side", format!("{}/{}/{:?}", scen.name, fc.cause.name(), fc.side));
    let condition = if scen.backpressure { "writer_backpressured" } else { "normal" };
    let mut seen = std::collections::HashSet::new();
    for (sym, det) in &o.problems {
        if seen.insert(sym.clone()) {
            rep.violate(
                "dying_session",
                &format!("{}+{}", fc.cause.name(), condition),
                sym,
                format!("[{} / {:?} side / {} at {}{}] {det}", scen.name, fc.side, fc.cause.name(), fc.at, if fc.plan.is_empty() { String::new() } else { format!(" / forced yields {:?}", fc.plan) }),
                fc.describe(),
            );
        }
    }
    for p in run::take_thread_panics() {
        if run::is_harness_panic(&p) {
            rep.inconclusive(format!("harness panic: {p}"));
        } else {
            rep.violate("dying_session", fc.cause.name(), "panic", p, fc.describe());
        }
    }
}

pub fn run(ctx: Ctx) -> Report {
    let quick = ctx.tier == crate::report::Tier::Quick;
    run::run_sharded("C09", ctx.shards, move |shard, nshards, rep| {
        let mut rng = Rng::new(ctx.seed.wrapping_mul(77).wrapping_add(shard as u64) ^ 0xC09);
        let mut job = 0usize;
        for (si, scen) in all_scen().iter().enumerate().take(SCENARIOS.len() + if quick { 3 } else { 40 }) {
            for side in [Side::Client, Side::Server] {
                let clean = clean_recording(si, side);
                let (inb, outb) = match side {
                    Side::Client => (&clean.s2c_boundaries, &clean.c2s_boundaries),
                    Side::Server => (&clean.c2s_boundaries, &clean.s2c_boundaries),
                };
                let offsets = |b: &Vec<u64>, rng: &mut Rng| -> Vec<u64> {
                    let mut v = Vec::new();
                    let total = b.last().copied().unwrap_or(0);
                    for (i, &x) in b.iter().enumerate() {
                        if false && quick && i + 1 != b.len() {
                            continue;
                        }
                        for d in [0u64, 1, 3, 7] {
                            if x + d <= total {
                                v.push(x + d);
                            }
                        }
                        if let Some(&nx) = b.get(i + 1)
                            && nx > x + 9
                        {
                            v.push(x + 7 + rng.range(1, nx - x - 8));
                        }
                    }
                    v.sort();
                    v.dedup();
                    v
                };
                let mut cases: Vec<FaultCase> = Vec::new();
                for cause in [Cause::ReadEof, Cause::ReadUnexpectedEof, Cause::ReadReset] {
                    for at in offsets(inb, &mut rng) {
                        cases.push(FaultCase { scen: si, side, cause, at, plan: BTreeMap::new() });
                    }
                }
                for cause in [Cause::WriteBrokenPipe, Cause::WriteReset] {
                    for at in offsets(outb, &mut rng) {
                        cases.push(FaultCase { scen: si, side, cause, at, plan: BTreeMap::new() });
                    }
                }
                for cause in [Cause::Alert, Cause::OwnerClose, Cause::ReaperClose] {
                    if cause == Cause::ReaperClose && side == Side::Server {
                        continue;
                    }
                    for at in 0..=clean.steps as u64 {
                        cases.push(FaultCase { scen: si, side, cause, at, plan: BTreeMap::new() });
                    }
                }
                if side == Side::Client {
                    let offs = offsets(inb, &mut rng);
                    for at in offs.iter().step_by(if quick { 4 } else { 1 }) {
                        cases.push(FaultCase { scen: si, side, cause: Cause::HeartbeatGiveUp, at: *at, plan: BTreeMap::new() });
                    }
                }
                for fc in cases {
                    job += 1;
                    if job % nshards != shard {
                        continue;
                    }
                    run::case_begin(&format!("C09 {:?}", fc.describe().to_string()));
                    let o = run_fault(&fc);
                    rep.case(if o.fired { Some(hash_str(&fc.describe().to_string())) } else { None });
                    record(rep, &fc, &o);
                    if rep.samples.len() < 3 && o.fired && shard == 0 {
                        rep.sample(json!({"case": fc.describe(), "waiters": o.waiters, "sched_points_hit_after_start": o.hits, "problems": o.problems.len()}));
                    }
                    // repeat under single forced pre-emptions around close / handle_io_error / the write path
                    if o.fired {
                        let interesting: Vec<usize> = o.sched_names.iter().enumerate().filter(|(_, n)| n.starts_with("close") || n.starts_with("handle_io")).map(|(i, _)| i).collect();
                        let mut idxs = interesting.clone();
                        if !quick {
                            // plus a sample of write-path positions
                            for _ in 0..10 {
                                if o.hits > 0 {
                                    idxs.push(rng.usize(0, o.hits - 1));
                                }
                            }
                        }
                        idxs.sort();
                        idxs.dedup();
                        let lens: &[u32] = if quick { &[1, 3] } else { &[1, 2, 4, 8] };
                        for idx in idxs.into_iter().take(if quick { 6 } else { 20 }) {
                            for &y in lens {
                                let mut fc2 = fc.clone();
                                fc2.plan = BTreeMap::from([(idx, y)]);
                                let o2 = run_fault(&fc2);
                                rep.case(if o2.fired { Some(hash_str(&fc2.describe().to_string())) } else { None });
                                rep.add("preempted_fault_runs", 1);
                                record(rep, &fc2, &o2);
                            }
                        }
                    }
                }
                let _ = scen;
            }
        }
        run::case_end();
    })
}

pub fn meta() -> CheckMeta {
    CheckMeta {
        level: "fault_enumeration",
        rule: format!("fault run = (scenario, side, cause, position[, forced pre-emption]). Scenarios: {}. A clean recording of each scenario gives the frame boundaries of both directions; offset causes (clean EOF, UnexpectedEof, read error, two write errors, black-hole for the heartbeat give-up) are injected at every boundary, boundary+1/+3/+7 and mid-payload; step causes (peer Alert, owner close(), pool reaper close) after every logical step; each fired run is repeated with a forced pre-emption at the close()/handle_io_error scheduling points (thorough: 4 yield lengths and sampled write-path points). Oracle, {D} virtual seconds after the cause: is_closed, shutdown/drop recorded on the transport, every blocked reader / in-flight writer / pending open / close call completed, pending opens not Ok, a later write and a later open fail promptly, no session task alive, stream tables empty. distinct_nontrivial = distinct fault runs whose fault actually fired. The peer's Alert carries, depending on the position, no text, ASCII, multi-byte text whole or cut inside a character, bytes that are not text, or 300 bytes.", format!("{} + 40 generated ones (0-6 streams, 0-5 chunks of 1-70000 bytes, either data path, readers / back-pressure / keep-alive / answered opens / default padding / fragmenting transports at random; quick uses 3 of them)", SCENARIOS.iter().map(|s| s.name).collect::<Vec<_>>().join(", "))),
        assumptions: vec!["bounded progress: a release later than 120 virtual seconds counts as never; an earlier one is not distinguished from immediate".into(), "tokio's paused clock advances only when every task is idle".into()],
        floors: vec![("faults_fired", 300), ("waiters_observed", 600), ("fired_clean_eof", 20), ("fired_write_error_broken_pipe", 20), ("fired_peer_alert", 10), ("fired_owner_close", 10), ("fired_heartbeat_give_up", 5), ("fired_reaper_close", 5)],
        exhaustive: false,
    }
}
