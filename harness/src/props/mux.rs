//! Shared multiplexing workload: N streams over one client/server session
//! pair on MemPipes, tagged position-addressable payloads in both directions,
//! online prefix checking at every reader.

use crate::engine::{self, PairCfg};
use crate::mempipe::{Frag, PipeCfg};
use crate::prng::{Pattern, Rng};
use crate::refscheme::{self, GenCfg};
use crate::report::Report;
use crate::run;
use crate::sched::{self, SchedMode};
use anytls_rs::session::{Session, Stream, StreamReader};
use bytes::Bytes;
use serde_json::{Value, json};
use std::collections::HashMap;
use std::sync::Arc;
use std::time::Duration;
use tokio::io::{AsyncReadExt, AsyncWriteExt};

pub const UP: u64 = 0; // client -> server
pub const DOWN: u64 = 1; // server -> client

#[derive(Clone, Debug)]
pub struct DirPlan {
    pub chunks: Vec<usize>,
    /// 0 = Session::write_data_frame, 1 = Stream::send_data, 2 = AsyncWrite on a bridged Stream
    pub write_api: u8,
    /// 0 = StreamReader::read, 1 = StreamReader::read_exact, 2 = AsyncRead on a bridged Stream
    pub read_api: u8,
    pub read_bufs: Vec<usize>,
}

impl DirPlan {
    pub fn total(&self) -> u64 {
        self.chunks.iter().map(|c| *c as u64).sum()
    }
}

#[derive(Clone, Debug)]
pub struct MuxCase {
    pub seed: u64,
    pub streams: Vec<(DirPlan, DirPlan)>,
    pub c2s: PipeCfg,
    pub s2c: PipeCfg,
    pub scheme: Option<String>,
    pub sched_p: f64,
    pub inline_first: bool,
    /// where the generator produced this case (shard, index) — replay locator
    pub locator: (usize, usize),
    /// open all streams from concurrent tasks (overlapping open_stream calls) instead of one after the other
    pub concurrent_opens: bool,
    /// per stream: 0 = nobody ends a direction; 1 = the client ends its direction (FIN) after its last chunk and
    /// the server writes its data only afterwards; 2 = the same with the roles swapped. The direction that is
    /// still open must deliver every byte (a FIN ends one direction only).
    pub half_close: Vec<u8>,
    /// the server side starts writing on a stream the moment the stream appears, while the client may still be busy
    /// opening it or later ones (a peer that greets on connect); only with sequential opens
    pub eager_server: bool,
    /// (direction 0 = client->server / 1 = server->client, byte offset, milliseconds): the transport of that direction
    /// stops delivering once `offset` bytes have been delivered, stays open, and resumes after the given (virtual) time
    pub stall: Option<(u8, u64, u64)>,
}

impl MuxCase {
    pub fn describe(&self) -> Value {
        let d = |p: &DirPlan| json!({"chunks": p.chunks, "write_api": p.write_api, "read_api": p.read_api, "read_bufs": p.read_bufs});
        json!({
            "kind": "mux",
            "seed": self.seed.to_string(),
            "streams": self.streams.iter().map(|(u, dn)| json!({"up": d(u), "down": d(dn)})).collect::<Vec<_>>(),
            "c2s": self.c2s.to_json(), "s2c": self.s2c.to_json(),
            "c2s_desc": self.c2s.describe(), "s2c_desc": self.s2c.describe(),
            "scheme": self.scheme, "sched_p": self.sched_p, "inline_first": self.inline_first,
            "locator": {"shard": self.locator.0 as u64, "index": self.locator.1 as u64}, "concurrent_opens": self.concurrent_opens,
            "half_close": self.half_close,
            "eager_server": self.eager_server,
            "stall": self.stall.map(|(d, o, m)| json!([d, o, m])),
        })
    }
    pub fn from_json(v: &Value) -> Option<MuxCase> {
        let d = |x: &Value| -> Option<DirPlan> {
            Some(DirPlan {
                chunks: x.get("chunks")?.as_array()?.iter().filter_map(|c| c.as_u64()).map(|c| c as usize).collect(),
                write_api: x.get("write_api")?.as_u64()? as u8,
                read_api: x.get("read_api")?.as_u64()? as u8,
                read_bufs: x.get("read_bufs")?.as_array()?.iter().filter_map(|c| c.as_u64()).map(|c| c as usize).collect(),
            })
        };
        let mut streams = Vec::new();
        for s in v.get("streams")?.as_array()? {
            streams.push((d(s.get("up")?)?, d(s.get("down")?)?));
        }
        Some(MuxCase {
            seed: v.get("seed")?.as_str()?.parse().ok()?,
            streams,
            c2s: PipeCfg::from_json(v.get("c2s")?),
            s2c: PipeCfg::from_json(v.get("s2c")?),
            scheme: v.get("scheme").and_then(|x| x.as_str()).map(|x| x.to_string()),
            sched_p: v.get("sched_p").and_then(|x| x.as_f64()).unwrap_or(0.0),
            inline_first: v.get("inline_first").and_then(|x| x.as_bool()).unwrap_or(false),
            locator: (0, 0),
            concurrent_opens: v.get("concurrent_opens").and_then(|x| x.as_bool()).unwrap_or(false),
            half_close: v.get("half_close").and_then(|x| x.as_array()).map(|a| a.iter().filter_map(|x| x.as_u64()).map(|x| x as u8).collect()).unwrap_or_default(),
            eager_server: v.get("eager_server").and_then(|x| x.as_bool()).unwrap_or(false),
            stall: v.get("stall").and_then(|x| x.as_array()).and_then(|a| Some((a.first()?.as_u64()? as u8, a.get(1)?.as_u64()?, a.get(2)?.as_u64()?))),
        })
    }
    pub fn shape_key(&self) -> String {
        let mut s = String::new();
        for (u, d) in &self.streams {
            s.push_str(&format!("{:?}/{}{}|{:?}/{}{};", u.chunks, u.write_api, u.read_api, d.chunks, d.write_api, d.read_api));
        }
        s.push_str(&self.c2s.describe());
        s.push_str(&self.s2c.describe());
        s
    }
    pub fn crosses_frame_boundary(&self) -> bool {
        // non-trivial: some chunk is split by the transport, i.e. any fragmentation other than whole delivery,
        // or a chunk above one frame
        let frag = !matches!(self.c2s.read_frag, Frag::All) || !matches!(self.s2c.read_frag, Frag::All) || self.c2s.capacity < 70000 || self.s2c.capacity < 70000;
        let big = self.streams.iter().any(|(u, d)| u.chunks.iter().chain(d.chunks.iter()).any(|c| *c > 65535));
        frag || big
    }
}

const SIZE_POOL: &[usize] = &[
    0, 1, 2, 6, 7, 8, 8191, 8192, 8193, 16383, 16384, 16385, 65528, 65529, 65534, 65535, 65536, 65537, 70000, 131071, 131072, 131073, 200000,
];

pub fn gen_chunks(rng: &mut Rng, budget: &mut usize, big_ok: bool) -> Vec<usize> {
    let n = match rng.below(10) {
        0 => 0,
        1..=3 => 1,
        4..=7 => rng.usize(2, 6),
        _ => rng.usize(7, 30),
    };
    let mut v = Vec::new();
    for _ in 0..n {
        let mut c = match rng.below(10) {
            0..=2 => *rng.pick(SIZE_POOL),
            3..=5 => rng.usize(0, 64),
            6..=7 => rng.usize(0, 2000),
            8 => rng.usize(0, 20000),
            _ => rng.usize(0, 140000),
        };
        if !big_ok && c > 20000 {
            c %= 20000;
        }
        if *budget == 0 && !v.is_empty() {
            break;
        }
        if c > *budget {
            c = *budget;
        }
        *budget -= c;
        v.push(c);
    }
    v
}

pub fn gen_pipe(rng: &mut Rng) -> PipeCfg {
    let capacity = match rng.below(10) {
        0 => 1,
        1 => rng.usize(2, 16),
        2 => rng.usize(17, 4096),
        3 => 65536,
        _ => usize::MAX,
    };
    let frag = |rng: &mut Rng| match rng.below(10) {
        0 => Frag::One,
        1 => Frag::Pool(vec![6, 7, 8]),
        2 => Frag::Pool(vec![1, 6, 7, 8, 13, 14, 15, 100]),
        3 => Frag::Random(32),
        4 => Frag::Random(5000),
        5 => Frag::Max(16384),
        _ => Frag::All,
    };
    let write_frag = frag(rng);
    let read_frag = frag(rng);
    let pending_prob = match rng.below(4) {
        0 => 0.3,
        1 => 0.05,
        _ => 0.0,
    };
    PipeCfg { capacity, write_frag, read_frag, pending_prob, seed: rng.next() }
}

pub fn gen_case(rng: &mut Rng, max_streams: usize, budget_bytes: usize) -> MuxCase {
    let n = match rng.below(6) {
        0 | 1 => 1,
        2 => 2,
        _ => rng.usize(1, max_streams),
    };
    let mut budget = budget_bytes;
    let mut c2s = gen_pipe(rng);
    let mut s2c = gen_pipe(rng);
    // 1-byte drip over megabytes is too slow to be useful: cap the budget for the finest fragmentations
    let fine = |p: &PipeCfg| matches!(p.read_frag, Frag::One | Frag::Pool(_)) || matches!(p.write_frag, Frag::One | Frag::Pool(_)) || p.capacity < 64;
    let big_ok = !(fine(&c2s) || fine(&s2c));
    if !big_ok {
        budget = budget.min(60_000);
        if rng.chance(0.3) {
            // allow one > 64 KiB chunk with fine fragmentation on a fast path
            c2s.pending_prob = 0.0;
            s2c.pending_prob = 0.0;
        }
    }
    let mut streams = Vec::new();
    for i in 0..n {
        let dir = |rng: &mut Rng, budget: &mut usize, force_first: bool| {
            let mut chunks = gen_chunks(rng, budget, big_ok);
            if force_first && chunks.is_empty() {
                chunks.push(rng.usize(0, 40));
            }
            let nb = rng.usize(1, 4);
            let read_bufs = (0..nb)
                .map(|_| match rng.below(8) {
                    0 => 1,
                    1 => rng.usize(2, 9),
                    2 => 8192,
                    3 => 65535,
                    4 => 70000,
                    _ => rng.usize(1, 20000),
                })
                .collect();
            DirPlan { chunks, write_api: rng.below(3) as u8, read_api: rng.below(3) as u8, read_bufs }
        };
        let up = dir(rng, &mut budget, i == 0);
        let down = dir(rng, &mut budget, false);
        streams.push((up, down));
    }
    let scheme = if rng.chance(0.5) {
        let s = refscheme::gen_scheme(rng, &GenCfg { max_size: 3000, boundary_heavy: false, allow_junk: true, sane_line0: false });
        Some(s.text())
    } else {
        None
    };
    // half-close: only a direction written with the awaited data path can be ended right after its last chunk
    // (a FIN written directly would overtake chunks still queued by send_data / the bridged writer)
    let half_close: Vec<u8> = streams
        .iter()
        .map(|(u, d)| {
            if !rng.chance(0.3) {
                0
            } else if u.write_api == 0 && !d.chunks.is_empty() && rng.chance(0.6) {
                1
            } else if d.write_api == 0 && !u.chunks.is_empty() {
                2
            } else {
                0
            }
        })
        .collect();
    MuxCase { seed: rng.next(), streams, c2s, s2c, scheme, sched_p: if rng.chance(0.5) { 0.3 } else { 0.0 }, inline_first: rng.chance(0.3), locator: (0, 0), concurrent_opens: rng.chance(0.25), half_close, eager_server: rng.chance(0.3), stall: if rng.chance(0.15) { Some((rng.below(2) as u8, rng.range(0, 60_000), *rng.pick(&[3_000u64, 12_000, 40_000, 130_000]))) } else { None } }
}

/// Build an owned `Stream` (so that its AsyncRead/AsyncWrite impls are reachable)
/// bridged to a real session stream.
pub fn bridge(real: Arc<Stream>, forward_reads: bool) -> Stream {
    let id = real.id();
    let (tx_in, rx_in) = tokio::sync::mpsc::unbounded_channel::<Bytes>();
    let (tx_out, mut rx_out) = tokio::sync::mpsc::unbounded_channel::<(u32, Bytes)>();
    let (own, _rx) = Stream::new(id, StreamReader::new(id, rx_in), tx_out);
    let r = real.clone();
    if !forward_reads {
        // keep the inbound channel open but never feed it: the real reader stays with its owner
        tokio::spawn(async move {
            let _keep = tx_in;
            std::future::pending::<()>().await;
        });
        tokio::spawn(async move {
            while let Some((_, b)) = rx_out.recv().await {
                if real.send_data(b).is_err() {
                    break;
                }
            }
        });
        return own;
    }
    tokio::spawn(async move {
        let mut buf = vec![0u8; 8192];
        loop {
            let n = {
                let mut g = r.reader().lock().await;
                match g.read(&mut buf).await {
                    Ok(0) | Err(_) => break,
                    Ok(n) => n,
                }
            };
            if tx_in.send(Bytes::copy_from_slice(&buf[..n])).is_err() {
                break;
            }
        }
    });
    tokio::spawn(async move {
        while let Some((_, b)) = rx_out.recv().await {
            if real.send_data(b).is_err() {
                break;
            }
        }
    });
    own
}

#[derive(Debug, Clone)]
pub struct ReadOutcome {
    pub received: u64,
    pub problem: Option<(String, String)>, // (symptom, detail)
}

/// Read `expected` bytes from the stream and check them online against the pattern.
pub type OwnedR = tokio::io::ReadHalf<Stream>;
pub type OwnedW = tokio::io::WriteHalf<Stream>;

/// one bridge per side of a stream, shared by its reader and its writer
pub fn make_bridge(real: &Arc<Stream>, read_api: u8, write_api: u8) -> (Option<OwnedR>, Option<OwnedW>) {
    if read_api != 2 && write_api != 2 {
        return (None, None);
    }
    let own = bridge(real.clone(), read_api == 2);
    let (r, w) = tokio::io::split(own);
    (if read_api == 2 { Some(r) } else { None }, if write_api == 2 { Some(w) } else { None })
}

pub async fn checked_reader(stream: Arc<Stream>, pat: Pattern, expected: u64, api: u8, bufs: Vec<usize>, mut owned: Option<OwnedR>) -> ReadOutcome {
    let mut received = 0u64;
    let mut k = 0usize;
    while received < expected {
        let want = bufs[k % bufs.len()].max(1);
        k += 1;
        let mut buf = vec![0u8; want];
        let res: std::io::Result<usize> = match api {
            1 => {
                let n = want.min((expected - received) as usize);
                let mut g = stream.reader().lock().await;
                g.read_exact(&mut buf[..n]).await.map(|_| n)
            }
            2 => owned.as_mut().unwrap().read(&mut buf).await,
            _ => {
                let mut g = stream.reader().lock().await;
                g.read(&mut buf).await
            }
        };
        match res {
            Ok(0) => {
                return ReadOutcome { received, problem: Some(("spurious_eof".into(), format!("0-byte read (end of stream) after {received} of {expected} bytes while the stream is open and the caller's buffer has {want} bytes"))) };
            }
            Ok(n) => {
                if let Some(i) = pat.first_mismatch(received, &buf[..n]) {
                    return ReadOutcome { received: received + i as u64, problem: Some(("content_mismatch".into(), format!("byte at stream offset {} differs from the byte written there (got {:#04x}, want {:#04x}); read returned {n} bytes at offset {received}", received + i as u64, buf[i], pat.byte(received + i as u64)))) };
                }
                received += n as u64;
            }
            Err(e) => {
                return ReadOutcome { received, problem: Some(("read_error".into(), format!("read failed after {received} of {expected} bytes: {e}"))) };
            }
        }
    }
    if received > expected {
        return ReadOutcome { received, problem: Some(("extra_bytes".into(), format!("{received} bytes read, only {expected} written"))) };
    }
    ReadOutcome { received, problem: None }
}

/// After everything arrived: the reader must not produce anything more.
pub async fn check_no_more(stream: &Arc<Stream>, expected: u64, ended_by_writer: bool) -> Option<(String, String)> {
    let mut buf = [0u8; 64];
    let r = tokio::time::timeout(Duration::from_secs(2), async {
        let mut g = stream.reader().lock().await;
        g.read(&mut buf).await
    })
    .await;
    match r {
        Err(_) => None,
        Ok(Ok(0)) if ended_by_writer => None,
        Ok(Ok(0)) => Some(("eof_without_close".into(), format!("reader reports end of stream after {expected} bytes although nobody closed the stream"))),
        Ok(Ok(n)) => Some(("extra_bytes".into(), format!("{n} more byte(s) delivered after all {expected} written bytes had been read"))),
        Ok(Err(e)) => Some(("read_error_after_data".into(), format!("{e}"))),
    }
}

pub async fn write_dir(session: Arc<Session>, stream: Arc<Stream>, pat: Pattern, plan: DirPlan, skip_first: bool, mut owned: Option<OwnedW>) -> Result<(), String> {
    let mut off = 0u64;
    for (i, &c) in plan.chunks.iter().enumerate() {
        let data = pat.make(off, c);
        off += c as u64;
        if i == 0 && skip_first {
            continue;
        }
        match plan.write_api {
            0 => session.write_data_frame(stream.id(), Bytes::from(data)).await.map_err(|e| format!("write_data_frame({c} bytes): {e}"))?,
            1 => stream.send_data(Bytes::from(data)).map_err(|e| format!("send_data({c} bytes): {e}"))?,
            _ => owned.as_mut().unwrap().write_all(&data).await.map_err(|e| format!("AsyncWrite::write_all({c} bytes): {e}"))?,
        }
        if i % 4 == 3 {
            tokio::task::yield_now().await;
        }
    }
    Ok(())
}

pub struct MuxResult {
    pub problems: Vec<(String, String, String)>, // (cause, symptom, detail)
    pub bytes_checked: u64,
    pub frames_c2s: u64,
    pub sched_hits: u64,
    pub interleaving: u64,
    pub finished: bool,
}

fn cause_of(case: &MuxCase, dir: u64, si: usize) -> String {
    // a chunk above one frame desynchronises the whole session, both directions
    let any_big = case.streams.iter().any(|(u, d)| u.chunks.iter().chain(d.chunks.iter()).any(|c| *c > 65535));
    let plan = if dir == UP { &case.streams[si].0 } else { &case.streams[si].1 };
    if case.stall.is_some() {
        "transport_stalled_and_recovered".into()
    } else if any_big {
        "chunk_gt_65535".into()
    } else if case.half_close.get(si).copied().unwrap_or(0) != 0 {
        "other_direction_ended_first".into()
    } else if plan.chunks.contains(&0) {
        "empty_chunk".into()
    } else {
        "general".into()
    }
}

/// Run one mux case under virtual time on the current thread.
pub fn run_case(case: &MuxCase) -> MuxResult {
    let guard = if case.sched_p > 0.0 { Some(sched::install(SchedMode::Random { p: case.sched_p, max: 4 }, case.seed)) } else { Some(sched::install(SchedMode::Observe, case.seed)) };
    let case2 = case.clone();
    let mut res = run::vt_block_on(async move { run_case_async(&case2).await });
    if let Some(g) = guard {
        let st = g.state.borrow();
        res.sched_hits = st.hits.len() as u64;
        res.interleaving = st.interleaving_id();
    }
    res
}

async fn run_case_async(case: &MuxCase) -> MuxResult {
    let mut problems: Vec<(String, String, String)> = Vec::new();
    let client_padding = match &case.scheme {
        Some(t) => engine::padding_from(t).unwrap_or_else(|_| engine::no_padding()),
        None => engine::default_padding(),
    };
    // same scheme on both sides: no scheme push, so the process-wide default scheme is never touched here
    let mut pair = engine::make_pair(PairCfg { c2s: case.c2s.clone(), s2c: case.s2c.clone(), client_padding: client_padding.clone(), server_padding: client_padding, heartbeat: None }).await;
    let n = case.streams.len();
    let seed = case.seed;

    let hc = |i: usize| case.half_close.get(i).copied().unwrap_or(0);
    // "this stream's first direction has been ended" signals (a stored permit: order of notify/wait does not matter)
    let ended: Vec<Arc<tokio::sync::Notify>> = (0..n).map(|_| Arc::new(tokio::sync::Notify::new())).collect();
    // a transport that stalls for a while and recovers
    let stall_task = case.stall.map(|(dir, off, ms)| {
        let h = if dir == 0 { pair.c2s.clone() } else { pair.s2c.clone() };
        h.set_read_fault(off, crate::mempipe::ReadFault::BlackHole);
        tokio::spawn(async move {
            for _ in 0..100_000 {
                if h.delivered() >= off {
                    break;
                }
                tokio::time::sleep(Duration::from_millis(50)).await;
            }
            tokio::time::sleep(Duration::from_millis(ms)).await;
            h.clear_read_fault();
        })
    });
    // eager server: a task that takes every stream the moment it appears and starts the server's writer and reader
    // for it at once (the k-th stream to appear is the k-th one opened: opens are sequential in this mode)
    let eager = if case.eager_server && !case.concurrent_opens {
        let mut ns = std::mem::replace(&mut pair.new_streams, tokio::sync::mpsc::unbounded_channel().1);
        let server = pair.server.clone();
        let plans = case.streams.clone();
        let hcv = case.half_close.clone();
        let ended2 = ended.clone();
        Some(tokio::spawn(async move {
            let mut out = Vec::new();
            for (k, (up, down)) in plans.iter().enumerate() {
                let Some(st) = ns.recv().await else { break };
                let id = st.id() as u64;
                let (br, bw) = make_bridge(&st, up.read_api, down.write_api);
                let mode = hcv.get(k).copied().unwrap_or(0);
                let w = tokio::spawn(write_dir_hc(server.clone(), st.clone(), Pattern::new(seed, id, DOWN), down.clone(), false, bw, mode == 2, mode == 1, ended2[k].clone()));
                let r = tokio::spawn(checked_reader(st.clone(), Pattern::new(seed, id, UP), up.total(), up.read_api, up.read_bufs.clone(), br));
                out.push((k, st, w, r));
            }
            out
        }))
    } else {
        None
    };
    // open streams (first data frame = first up chunk when there is one)
    let mut client_streams: Vec<Arc<Stream>> = Vec::new();
    let mut first_sent = vec![false; n];
    let open_concurrently = async {
        // overlapping opens: every task opens its stream and writes the first chunk, like concurrent requests do
        let mut hs = Vec::new();
        for (i, (up, _)) in case.streams.iter().enumerate() {
            let client = pair.client.clone();
            let first = up.chunks.first().copied();
            hs.push(tokio::spawn(async move {
                let (st, _rx) = client.open_stream().await.map_err(|e| format!("open_stream #{i}: {e}"))?;
                client.disable_buffering();
                let mut sent = false;
                if let Some(c) = first {
                    let data = Pattern::new(seed, st.id() as u64, UP).make(0, c);
                    client.write_data_frame(st.id(), Bytes::from(data)).await.map_err(|e| format!("first write on stream {}: {e}", st.id()))?;
                    sent = true;
                }
                Ok::<_, String>((st, sent))
            }));
        }
        let mut out = Vec::new();
        for h in hs {
            out.push(h.await.map_err(|e| e.to_string())??);
        }
        let mut ids: Vec<u32> = out.iter().map(|(s, _): &(Arc<Stream>, bool)| s.id()).collect();
        ids.sort();
        if ids.windows(2).any(|w| w[0] == w[1]) {
            return Err(format!("DUPLICATE-ID two concurrently opened live streams were given the same stream id: {:?}", ids));
        }
        Ok(out)
    };
    let open_all = async {
        if case.concurrent_opens {
            return open_concurrently.await;
        }
        let mut out = Vec::new();
        for (i, (up, _)) in case.streams.iter().enumerate() {
            let (st, _rx) = match pair.client.open_stream().await {
                Ok(x) => x,
                Err(e) => return Err(format!("open_stream #{i}: {e}")),
            };
            pair.client.disable_buffering();
            let mut sent = false;
            if i == 0 || case.inline_first {
                // the first request of a session always writes its first data frame right after the open
                if let Some(&c) = up.chunks.first() {
                    let data = Pattern::new(seed, st.id() as u64, UP).make(0, c);
                    if let Err(e) = pair.client.write_data_frame(st.id(), Bytes::from(data)).await {
                        return Err(format!("first write on stream {}: {e}", st.id()));
                    }
                    sent = true;
                }
            }
            out.push((st, sent));
        }
        Ok(out)
    };
    match tokio::time::timeout(Duration::from_secs(600), open_all).await {
        Ok(Ok(v)) => {
            for (i, (s, sent)) in v.into_iter().enumerate() {
                client_streams.push(s);
                first_sent[i] = sent;
            }
        }
        Ok(Err(e)) => {
            let sym = if e.starts_with("DUPLICATE-ID") { "same_id_for_two_live_streams" } else { "open_failed" };
            problems.push(("general".into(), sym.into(), e));
            return MuxResult { problems, bytes_checked: 0, frames_c2s: 0, sched_hits: 0, interleaving: 0, finished: false };
        }
        Err(_) => {
            problems.push((cause_of(case, UP, 0), "open_blocked".into(), "opening the streams did not finish within 600 virtual seconds".into()));
            return MuxResult { problems, bytes_checked: 0, frames_c2s: 0, sched_hits: 0, interleaving: 0, finished: false };
        }
    }

    let mut tasks: Vec<(u64, usize, tokio::task::JoinHandle<ReadOutcome>)> = Vec::new();
    let mut writers: Vec<tokio::task::JoinHandle<Result<(), String>>> = Vec::new();
    // a writer that ends its direction afterwards / that starts only after the other direction was ended
    async fn write_dir_hc(session: Arc<Session>, stream: Arc<Stream>, pat: Pattern, plan: DirPlan, skip_first: bool, owned: Option<OwnedW>, ends: bool, waits: bool, ended: Arc<tokio::sync::Notify>) -> Result<(), String> {
        if waits {
            ended.notified().await;
            // let the peer's FIN be processed on this side before anything is written (1 virtual second = quiescence)
            tokio::time::sleep(Duration::from_secs(1)).await;
        }
        write_dir(session.clone(), stream.clone(), pat, plan, skip_first, owned).await?;
        if ends {
            session.write_control_frame(anytls_rs::protocol::Frame::control(anytls_rs::protocol::Command::Fin, stream.id())).await.map_err(|e| format!("FIN: {e}"))?;
            ended.notify_one();
        }
        Ok(())
    }

    // client side: up writers, down readers
    for (i, (up, down)) in case.streams.iter().enumerate() {
        let st = client_streams[i].clone();
        let id = st.id() as u64;
        let (br, bw) = make_bridge(&st, down.read_api, up.write_api);
        writers.push(tokio::spawn(write_dir_hc(pair.client.clone(), st.clone(), Pattern::new(seed, id, UP), up.clone(), first_sent[i], bw, hc(i) == 1, hc(i) == 2, ended[i].clone())));
        tasks.push((DOWN, i, tokio::spawn(checked_reader(st, Pattern::new(seed, id, DOWN), down.total(), down.read_api, down.read_bufs.clone(), br))));
    }
    // server side: accept streams as they appear, start down writers / up readers
    let id_to_idx: HashMap<u32, usize> = client_streams.iter().enumerate().map(|(i, s)| (s.id(), i)).collect();
    let mut server_streams: std::collections::BTreeMap<usize, Arc<Stream>> = std::collections::BTreeMap::new();
    let mut eager_started = false;
    let accepted = if let Some(h) = eager {
        eager_started = true;
        match tokio::time::timeout(Duration::from_secs(900), h).await {
            Ok(Ok(v)) => {
                for (k, st, w, r) in v {
                    server_streams.insert(k, st);
                    writers.push(w);
                    tasks.push((UP, k, r));
                }
                server_streams.len() == n
            }
            _ => false,
        }
    } else {
        let accept = async {
            while server_streams.len() < n {
                match pair.new_streams.recv().await {
                    Some(s) => {
                        if let Some(&i) = id_to_idx.get(&s.id()) {
                            server_streams.insert(i, s);
                        }
                    }
                    None => break,
                }
            }
        };
        let in_time = tokio::time::timeout(Duration::from_secs(900), accept).await.is_ok();
        in_time && server_streams.len() == n
    };
    if !accepted {
        problems.push((cause_of(case, UP, 0), "stream_never_reached_peer".into(), format!("only {} of {n} opened streams appeared at the server within 900 virtual seconds", server_streams.len())));
    }
    for (i, st) in server_streams.iter().filter(|_| !eager_started) {
        let (up, down) = &case.streams[*i];
        let id = st.id() as u64;
        let (br, bw) = make_bridge(st, up.read_api, down.write_api);
        writers.push(tokio::spawn(write_dir_hc(pair.server.clone(), st.clone(), Pattern::new(seed, id, DOWN), down.clone(), false, bw, hc(*i) == 2, hc(*i) == 1, ended[*i].clone())));
        tasks.push((UP, *i, tokio::spawn(checked_reader(st.clone(), Pattern::new(seed, id, UP), up.total(), up.read_api, up.read_bufs.clone(), br))));
    }

    // wait for all readers under a generous virtual deadline
    let mut bytes_checked = 0u64;
    let mut finished = true;
    let deadline = tokio::time::Instant::now() + Duration::from_secs(3600);
    for (dir, i, h) in tasks {
        let aborter = h.abort_handle();
        match tokio::time::timeout_at(deadline, h).await {
            Ok(Ok(out)) => {
                bytes_checked += out.received;
                if let Some((sym, det)) = out.problem {
                    problems.push((cause_of(case, dir, i), sym, format!("stream #{i} {}: {det}", if dir == UP { "client->server" } else { "server->client" })));
                }
            }
            Ok(Err(e)) => {
                problems.push(("general".into(), "reader_task_failed".into(), format!("{e}")));
            }
            Err(_) => {
                finished = false;
                aborter.abort();
                let plan = if dir == UP { &case.streams[i].0 } else { &case.streams[i].1 };
                problems.push((
                    cause_of(case, dir, i),
                    "bytes_missing_at_quiescence".into(),
                    format!("stream #{i} {}: reader still waiting after 3600 virtual seconds with every task idle; {} bytes were written in chunks {:?}", if dir == UP { "client->server" } else { "server->client" }, plan.total(), &plan.chunks[..plan.chunks.len().min(12)]),
                ));
            }
        }
    }
    for w in writers {
        let ab = w.abort_handle();
        // (a writer whose payload has arrived may still be busy with the padding of its packet; behind a stalled transport
        // that takes as long as the stall)
        match tokio::time::timeout(Duration::from_secs(5) + Duration::from_millis(case.stall.map(|s| s.2 + 5_000).unwrap_or(0)), w).await {
            Ok(Ok(Ok(()))) => {}
            Ok(Ok(Err(e))) => problems.push((cause_of(case, UP, 0), "write_failed".into(), e)),
            Ok(Err(_)) => {}
            Err(_) => {
                ab.abort();
                if finished {
                    problems.push((cause_of(case, UP, 0), "writer_blocked".into(), "a writer task is still blocked although every reader has received all its data".into()));
                }
            }
        }
    }
    if finished && problems.is_empty() {
        for (i, st) in client_streams.iter().enumerate() {
            if case.streams[i].1.read_api != 2
                && let Some((sym, det)) = check_no_more(st, case.streams[i].1.total(), hc(i) == 2).await
            {
                problems.push((cause_of(case, DOWN, i), sym, format!("stream #{i} server->client: {det}")));
            }
        }
        for (i, st) in &server_streams {
            if case.streams[*i].0.read_api != 2
                && let Some((sym, det)) = check_no_more(st, case.streams[*i].0.total(), hc(*i) == 1).await
            {
                problems.push((cause_of(case, UP, *i), sym, format!("stream #{i} client->server: {det}")));
            }
        }
    }
    // run until every task is idle (no timers are involved in the pipes, so a 1 s virtual sleep = quiescence)
    // (with a stalling transport, only once the stall is over)
    tokio::time::sleep(Duration::from_secs(1) + Duration::from_millis(case.stall.map(|s| s.2 + 1_000).unwrap_or(0))).await;
    // the wire itself must be a sequence of complete frames
    let log = pair.c2s.log();
    let (frames, consumed) = crate::refcodec::parse_all(&log.bytes);
    if finished && consumed != log.bytes.len() && problems.is_empty() {
        problems.push(("general".into(), "wire_not_whole_frames".into(), format!("client->server recording has {} trailing bytes that are not a complete frame", log.bytes.len() - consumed)));
    }
    if let Some(t) = stall_task {
        t.abort();
    }
    let _ = tokio::time::timeout(Duration::from_secs(5), pair.client.close()).await;
    let _ = tokio::time::timeout(Duration::from_secs(5), pair.server.close()).await;
    MuxResult { problems, bytes_checked, frames_c2s: frames.len() as u64, sched_hits: 0, interleaving: 0, finished }
}

pub fn record(rep: &mut Report, prop_class: &str, case: &MuxCase, res: &MuxResult) {
    rep.add("bytes_compared", res.bytes_checked);
    rep.add("frames_parsed_c2s", res.frames_c2s);
    rep.add("sched_point_hits", res.sched_hits);
    rep.add("streams_with_one_direction_ended_first", case.half_close.iter().filter(|m| **m != 0).count() as u64);
    rep.add("cases_with_a_transport_that_stalls_and_recovers", case.stall.is_some() as u64);
    rep.add("cases_with_a_server_that_writes_as_soon_as_a_stream_appears", (case.eager_server && !case.concurrent_opens) as u64);
    rep.seen("interleavings", format!("{:016x}", res.interleaving));
    rep.seen("fragmentation_classes", format!("{} / {}", case.c2s.describe(), case.s2c.describe()));
    let mut seen = std::collections::HashSet::new();
    for (cause, sym, det) in &res.problems {
        if seen.insert((cause.clone(), sym.clone())) {
            rep.violate(prop_class, cause, sym, det.clone(), case.describe());
        }
    }
    for p in run::take_thread_panics() {
        if run::is_harness_panic(&p) {
            rep.inconclusive(format!("harness panic: {p}"));
        } else {
            rep.violate(prop_class, "general", "panic", format!("panic while running the case: {p}"), case.describe());
        }
    }
}
