//! C01 — every stream is a lossless, ordered, exact byte pipe.

use super::mux::{self, DirPlan, MuxCase};
use crate::mempipe::{Frag, PipeCfg};
use crate::prng::Rng;
use crate::report::{CheckMeta, Report, Tier, hash_str};
use crate::run::{self, Ctx};

fn plan(chunks: &[usize], w: u8, r: u8, bufs: &[usize]) -> DirPlan {
    DirPlan { chunks: chunks.to_vec(), write_api: w, read_api: r, read_bufs: bufs.to_vec() }
}

/// deterministic boundary cases that every run must exercise
fn witness_cases(seed: u64) -> Vec<MuxCase> {
    let mut v = Vec::new();
    let plain = PipeCfg::plain();
    let frag = PipeCfg { capacity: 4096, write_frag: Frag::Random(3000), read_frag: Frag::Pool(vec![1, 6, 7, 8, 100, 5000]), pending_prob: 0.05, seed };
    for (k, sizes) in [vec![70000usize], vec![10, 65535, 65536, 3], vec![131073], vec![5, 0, 7], vec![0], vec![0, 0, 9, 0], vec![65535], vec![200000, 1]].into_iter().enumerate() {
        for w in 0..3u8 {
            for (pi, pc) in [plain.clone(), frag.clone()].into_iter().enumerate() {
                let up = plan(&sizes, w, (k as u8 + w) % 3, &[8192]);
                let down = plan(&sizes, w.min(1), (k as u8 + w + 1) % 3, &[1000, 70000]);
                v.push(MuxCase { seed: seed ^ (k as u64 * 31 + w as u64 * 7 + pi as u64), streams: vec![(up, down)], c2s: pc.clone(), s2c: pc, scheme: None, sched_p: 0.0, inline_first: w == 0, locator: (usize::MAX, v.len()), concurrent_opens: false, half_close: vec![], eager_server: false, stall: None });
            }
        }
    }
    v
}

pub fn run(ctx: Ctx) -> Report {
    let n_cases: usize = ctx.tier.pick(6400, 240_000);
    run::run_sharded("C01", ctx.shards, move |shard, nshards, rep| {
        let mut rng = Rng::new(ctx.seed.wrapping_mul(0x9E37).wrapping_add(shard as u64) ^ 0xC01);
        let only: Option<(usize, usize)> = std::env::var("VERIF_ONLY").ok().and_then(|s| {
            let mut it = s.split(':');
            Some((it.next()?.parse().ok()?, it.next()?.parse().ok()?))
        });
        let wit = witness_cases(ctx.seed);
        for (i, case) in wit.iter().enumerate() {
            if i % nshards != shard || only.is_some_and(|o| o != (usize::MAX, i)) {
                continue;
            }
            run::case_begin(&format!("C01 witness {i}"));
            let res = mux::run_case(case);
            rep.case(Some(hash_str(&case.shape_key())));
            rep.add("witness_cases", 1);
            mux::record(rep, "mux", case, &res);
            if i < 2 {
                rep.sample(case.describe());
            }
        }
        let per = n_cases / nshards;
        for i in 0..per {
            let budget = if ctx.tier == Tier::Quick { 400_000 } else { 2 << 20 };
            let mut case = mux::gen_case(&mut rng, 8, budget);
            case.locator = (shard, i);
            if let Some((rs, ri)) = only && (rs, ri) != (shard, i) {
                continue;
            }
            run::case_begin(&format!("C01 shard {shard} case {i} seed {}", case.seed));
            let res = mux::run_case(&case);
            rep.case(if case.crosses_frame_boundary() { Some(hash_str(&case.shape_key())) } else { None });
            mux::record(rep, "mux", &case, &res);
            if shard == 0 && (2..5).contains(&i) {
                rep.sample(case.describe());
            }
            let apis: String = case.streams.iter().map(|(u, d)| format!("w{}r{}/w{}r{}", u.write_api, u.read_api, d.write_api, d.read_api)).collect::<Vec<_>>().join(",");
            rep.seen("api_combinations", apis.chars().take(19).collect::<String>());
            rep.max("max_streams_in_a_case", case.streams.len() as u64);
            if case.streams.iter().any(|(u, d)| u.chunks.iter().chain(d.chunks.iter()).any(|c| *c > 65535)) {
                rep.add("cases_with_chunk_above_65535", 1);
            }
            if case.streams.iter().any(|(u, d)| u.chunks.contains(&0) || d.chunks.contains(&0)) {
                rep.add("cases_with_empty_chunk", 1);
            }
        }
        run::case_end();
    })
}

pub fn meta() -> CheckMeta {
    CheckMeta {
        level: "exploration",
        rule: "each case = one client/server Session pair over two seeded MemPipes (capacity, write/read fragmentation, spurious Pending), 1-8 streams, per stream and direction a chunk-size sequence from a boundary-heavy pool (0,1,7,8,8192,16384,65535,65536,70000,131072,200000,...), one of 3 submission paths and 3 read paths, optional random padding scheme and random sched-point yields; in about a quarter of the streams one side ends its direction (FIN) after its last chunk and the other side writes its data only after that FIN has been processed (a FIN ends one direction only: the open direction must still deliver every byte); every byte read is compared online with the position-addressable pattern written at that offset; completeness and 'nothing more' are checked at quiescence under virtual time. distinct_nontrivial counts distinct (chunk sequences, APIs, pipe configs) whose transport fragments frames or that contain a chunk above one frame. End to end: real Client -> real Server with its default TCP handler -> loopback target; uploads of 1 byte to 6 MB (thorough 20 MB) in chunks of 1000-200000 bytes through write_data_frame, ended by a FIN on the stream / by closing the session right after the last write returned (with or without stopping the client's housekeeping; the sockets are dropped only after the target has seen the end, so that the connection ends in order and is not reset), towards a target that starts reading at once or after 400 ms: the target must receive exactly the uploaded bytes (length and FNV hash). In 30% of the cases with sequential opens the server side starts writing on a stream the moment the stream appears, while the client may still be inside open_stream for it or for a later one (a peer that greets on connect). In 15% of the cases the transport of one direction stops delivering at a random byte offset, stays open, and resumes 3-130 virtual seconds later: nothing may be lost, torn or misdelivered because of the wait.".into(),
        assumptions: vec!["tokio's paused clock only advances when every task is idle, so 'still waiting after 3600 virtual s' means blocked forever".into(), "streams are never closed in this workload (C08 covers closing)".into()],
        floors: vec![("bytes_compared", 1_000_000), ("witness_cases", 40), ("cases_with_chunk_above_65535", 5), ("cases_with_empty_chunk", 20), ("streams_with_one_direction_ended_first", 100), ("e2e_uploads_checked", 20), ("e2e_front_end_downloads_checked", 3)],
        exhaustive: false,
    }
}

// ---------------------------------------------------------------------------
// end to end: the real Client, the real Server with its default TCP handler, a loopback target. What was
// accepted by the tunnel before the uploading side went away must reach the target, all of it, however the
// upload ends and however slow the target is.

pub fn run_e2e(ctx: Ctx) -> Report {
    use crate::engine;
    use crate::netkit::{self, Target};
    use crate::prng::Pattern;
    use bytes::Bytes;
    use serde_json::json;
    use std::sync::{Arc, Mutex};
    use std::time::Duration;
    use tokio::io::AsyncReadExt;
    let quick = ctx.tier == Tier::Quick;
    let seed = ctx.seed;
    run::case_begin("C01 e2e");
    let mut rep = run::rt_block_on(8, async move {
        let mut rep = Report::new("C01");
        let Some((server_addr, _sh)) = netkit::start_server(netkit::PASSWORD, engine::default_padding()).await else {
            rep.inconclusive("cannot start server");
            return rep;
        };
        let Some(mut target) = Target::bind_v4(0).await else {
            rep.inconclusive("cannot bind target");
            return rep;
        };
        let tport = target.port;
        let server_addr_fe = server_addr.clone();
        // target: per connection (told apart by the dialled address) wait, then read to the end
        let got: Arc<Mutex<std::collections::HashMap<std::net::SocketAddr, (u64, u64, bool)>>> = Arc::new(Mutex::new(Default::default()));
        let delays: Arc<Mutex<std::collections::HashMap<std::net::SocketAddr, u64>>> = Arc::new(Mutex::new(Default::default()));
        {
            let got = got.clone();
            let delays = delays.clone();
            tokio::spawn(async move {
                while let Some(a) = target.rx.recv().await {
                    let got = got.clone();
                    let delay = delays.lock().unwrap().get(&a.dialled).copied().unwrap_or(0);
                    tokio::spawn(async move {
                        let mut s = a.stream;
                        tokio::time::sleep(Duration::from_millis(delay)).await;
                        let mut buf = vec![0u8; 65536];
                        let mut n_total = 0u64;
                        let mut h = 0xcbf29ce484222325u64;
                        let mut eof = false;
                        loop {
                            match tokio::time::timeout(Duration::from_secs(30), s.read(&mut buf)).await {
                                Ok(Ok(0)) => {
                                    eof = true;
                                    break;
                                }
                                Ok(Ok(n)) => {
                                    for b in &buf[..n] {
                                        h = (h ^ *b as u64).wrapping_mul(0x100000001b3);
                                    }
                                    n_total += n as u64;
                                    got.lock().unwrap().insert(a.dialled, (n_total, h, false));
                                }
                                _ => break,
                            }
                        }
                        got.lock().unwrap().insert(a.dialled, (n_total, h, eof));
                    });
                }
            });
        }
        #[derive(Clone, Debug)]
        struct Case {
            uniq: u32,
            size: usize,
            delay_ms: u64,
            /// 0 = FIN on the stream, session stays; 1 = session.close() right after the last write returned;
            /// 2 = the same after the client's housekeeping was stopped (the objects themselves are dropped only after the
            ///     target has seen the end: an early drop can reset the connection)
            ending: u8,
            chunk: usize,
        }
        let mut rng = Rng::new(seed ^ 0xE01);
        let mut cases = Vec::new();
        let tiny = std::env::var("VERIF_C01_E2E_TINY").is_ok(); // replay aid: many repetitions of the smallest uploads
        let sizes: Vec<usize> = if tiny { vec![1, 7] } else if quick { vec![1, 70_000, 1_500_000, 6_000_000] } else { vec![1, 7, 70_000, 300_000, 1_500_000, 6_000_000, 20_000_000] };
        let mut uniq = 0u32;
        for rep_i in 0..if tiny { 80 } else if quick { 1 } else { 6 } {
            for &size in &sizes {
                for delay_ms in [0u64, 400] {
                    for ending in 0..3u8 {
                        uniq += 1;
                        let _ = rep_i;
                        cases.push(Case { uniq, size, delay_ms, ending, chunk: *rng.pick(&[1000usize, 16_384, 65_535, 200_000]) });
                    }
                }
            }
        }
        let results: Arc<Mutex<Vec<(Case, Result<(u64, u64, bool), String>, u64)>>> = Arc::new(Mutex::new(Vec::new()));
        {
            let results = results.clone();
            let got = got.clone();
            let delays = delays.clone();
            netkit::for_each_limited(cases, 4, move |c| {
                let results = results.clone();
                let got = got.clone();
                let delays = delays.clone();
                let server_addr = server_addr.clone();
                async move {
                    let ip = netkit::uniq_ip(61, c.uniq);
                    let dest = std::net::SocketAddr::new(ip.into(), tport);
                    delays.lock().unwrap().insert(dest, c.delay_ms);
                    let pat = Pattern::new(seed, c.uniq as u64, 0);
                    let mut want_h = 0xcbf29ce484222325u64;
                    // the objects that own the TCP connection are kept until the target has seen the end of the upload:
                    // dropping the socket right after close() can turn the orderly end (close_notify, FIN) into a reset
                    // when something unread sits in its receive buffer, and what a reset may cost is TCP's business
                    let mut keep_alive: Vec<Box<dyn std::any::Any + Send>> = Vec::new();
                    let r: Result<(), String> = async {
                        let client = netkit::make_client(&server_addr, netkit::PASSWORD, engine::default_padding(), netkit::quiet_pool());
                        let (stream, session) = tokio::time::timeout(Duration::from_secs(20), client.create_proxy_stream((ip.to_string(), tport))).await.map_err(|_| "open timeout".to_string())?.map_err(|e| format!("open failed: {e}"))?;
                        let mut off = 0usize;
                        while off < c.size {
                            let n = c.chunk.min(c.size - off);
                            let data = pat.make(off as u64, n);
                            for b in &data {
                                want_h = (want_h ^ *b as u64).wrapping_mul(0x100000001b3);
                            }
                            tokio::time::timeout(Duration::from_secs(30), session.write_data_frame(stream.id(), Bytes::from(data))).await.map_err(|_| format!("write blocked for 30 s at offset {off}"))?.map_err(|e| format!("write failed at offset {off}: {e}"))?;
                            off += n;
                        }
                        match c.ending {
                            0 => {
                                session.write_control_frame(anytls_rs::protocol::Frame::control(anytls_rs::protocol::Command::Fin, stream.id())).await.map_err(|e| format!("FIN: {e}"))?;
                            }
                            1 => {
                                let _ = tokio::time::timeout(Duration::from_secs(10), session.close()).await;
                            }
                            _ => {
                                client.stop_session_pool_cleanup().await;
                                let _ = tokio::time::timeout(Duration::from_secs(10), session.close()).await;
                            }
                        }
                        keep_alive.push(Box::new(stream));
                        keep_alive.push(Box::new(session));
                        keep_alive.push(Box::new(client));
                        Ok(())
                    }
                    .await;
                    // wait until the target saw the end of the upload (or nothing moves any more)
                    let t0 = tokio::time::Instant::now();
                    let mut last = (0u64, 0u64, false);
                    let mut last_change = tokio::time::Instant::now();
                    while t0.elapsed() < Duration::from_secs(40) {
                        let cur = got.lock().unwrap().get(&dest).copied().unwrap_or((0, 0, false));
                        if cur != last {
                            last = cur;
                            last_change = tokio::time::Instant::now();
                        }
                        if cur.2 || last_change.elapsed() > Duration::from_secs(6) {
                            break;
                        }
                        tokio::time::sleep(Duration::from_millis(20)).await;
                    }
                    drop(keep_alive);
                    results.lock().unwrap().push((c, r.map(|_| last), want_h));
                }
            })
            .await;
        }
        let results = std::mem::take(&mut *results.lock().unwrap());
        for (c, r, want_h) in results {
            let ending = ["fin_on_stream", "session_closed_after_last_write", "session_closed_and_client_stopped_after_last_write"][c.ending as usize];
            let case = json!({"kind": "c01-e2e", "size": c.size, "chunk": c.chunk, "target_read_delay_ms": c.delay_ms, "ending": ending, "seed": seed.to_string()});
            rep.case(Some(hash_str(&case.to_string())));
            match r {
                Err(e) => rep.inconclusive(format!("e2e upload {:?}: {e}", case)),
                Ok((n, h, eof)) => {
                    rep.add("e2e_uploads_checked", 1);
                    rep.add("e2e_bytes_compared", n);
                    let cause = format!("e2e+{ending}{}", if c.delay_ms > 0 { "+slow_target" } else { "" });
                    if n != c.size as u64 {
                        rep.violate("mux", &cause, if n < c.size as u64 { "upload_truncated_at_target" } else { "extra_bytes" }, format!("real Client -> Server (default TCP handler) -> loopback target: {} bytes were accepted by write_data_frame in chunks of {} before the upload ended ({ending}); the target (starts reading after {} ms) received {n} bytes{}", c.size, c.chunk, c.delay_ms, if eof { " and then end of stream" } else { " and no end of stream" }), case);
                    } else if h != want_h {
                        rep.violate("mux", &cause, "content_mismatch", format!("the target received {n} bytes, as many as were uploaded, but not the same bytes"), case);
                    }
                }
            }
        }
        // ---- downloads through the front-ends to an application that reads late and in bursts: the local socket
        // fills up, so the front-end's relay meets partial progress and back-pressure on the application's side
        {
            use tokio::io::AsyncWriteExt;
            let client = netkit::make_client(&server_addr_fe, netkit::PASSWORD, engine::default_padding(), netkit::quiet_pool());
            let fronts = (netkit::start_socks5(client.clone()).await, netkit::start_http(client.clone()).await);
            let source = tokio::net::TcpListener::bind("127.0.0.1:0").await;
            if let ((Some((socks, _h1)), Some((http, _h2))), Ok(source)) = (fronts, source) {
                let sport = source.local_addr().map(|a| a.port()).unwrap_or(0);
                // the source learns how much to send from the first 8 bytes it is sent (size, little endian) and then
                // streams Pattern(seed, 0xD0, 0) as fast as the connection takes it, and closes
                tokio::spawn(async move {
                    loop {
                        let Ok((mut s, _)) = source.accept().await else { continue };
                        tokio::spawn(async move {
                            let mut sz = [0u8; 8];
                            if s.read_exact(&mut sz).await.is_err() {
                                return;
                            }
                            let size = u64::from_le_bytes(sz);
                            let pat = Pattern::new(seed, 0xD0, 0);
                            let mut off = 0u64;
                            while off < size {
                                let n = (size - off).min(256 * 1024) as usize;
                                if s.write_all(&pat.make(off, n)).await.is_err() {
                                    return;
                                }
                                off += n as u64;
                            }
                            let _ = s.shutdown().await;
                            let mut rest = Vec::new();
                            let _ = tokio::time::timeout(Duration::from_secs(60), s.read_to_end(&mut rest)).await;
                        });
                    }
                });
                let plans: Vec<(bool, u64, u64, usize)> = if quick { vec![(false, 24 << 20, 1500, 1 << 20), (true, 24 << 20, 1500, 1 << 20), (false, 3 << 20, 300, 4096)] } else { vec![(false, 24 << 20, 1500, 1 << 20), (true, 24 << 20, 1500, 1 << 20), (false, 3 << 20, 300, 4096), (true, 3 << 20, 300, 4096), (false, 64 << 20, 3000, 1 << 16), (true, 64 << 20, 3000, 1 << 16), (false, 8 << 20, 0, 700), (true, 8 << 20, 0, 700)] };
                for (via_http, size, late_ms, burst) in plans {
                    let front = if via_http { "http_connect" } else { "socks5" };
                    let case = json!({"kind": "c01-e2e-download", "front": front, "size": size, "application_starts_reading_after_ms": late_ms, "burst": burst, "seed": seed.to_string()});
                    rep.case(Some(hash_str(&case.to_string())));
                    let r: Result<(u64, u64, u64, bool), String> = async {
                        let mut s = if via_http {
                            let mut s = tokio::net::TcpStream::connect(&http).await.map_err(|e| e.to_string())?;
                            s.write_all(format!("CONNECT 127.0.0.1:{sport} HTTP/1.1\r\nHost: 127.0.0.1:{sport}\r\n\r\n").as_bytes()).await.map_err(|e| e.to_string())?;
                            let mut head = Vec::new();
                            let mut b = [0u8; 1];
                            while !head.ends_with(b"\r\n\r\n") {
                                let n = tokio::time::timeout(Duration::from_secs(20), s.read(&mut b)).await.map_err(|_| "no CONNECT answer".to_string())?.map_err(|e| e.to_string())?;
                                if n == 0 || head.len() > 4096 {
                                    return Err("CONNECT answer incomplete".into());
                                }
                                head.push(b[0]);
                            }
                            if !head.starts_with(b"HTTP/1.1 200") {
                                return Err(format!("CONNECT refused: {}", String::from_utf8_lossy(&head)));
                            }
                            s
                        } else {
                            let (s, code) = netkit::socks5_connect(&socks, &netkit::SocksDest::V4(std::net::Ipv4Addr::LOCALHOST, sport), Duration::from_secs(20)).await?;
                            if code != 0 {
                                return Err(format!("socks reply {code}"));
                            }
                            s
                        };
                        s.write_all(&size.to_le_bytes()).await.map_err(|e| e.to_string())?;
                        tokio::time::sleep(Duration::from_millis(late_ms)).await;
                        let pat = Pattern::new(seed, 0xD0, 0);
                        let mut buf = vec![0u8; burst];
                        let mut got = 0u64;
                        let mut first_diff: Option<u64> = None;
                        let mut eof = false;
                        let mut reads = 0u64;
                        loop {
                            match tokio::time::timeout(Duration::from_secs(20), s.read(&mut buf)).await {
                                Ok(Ok(0)) => {
                                    eof = true;
                                    break;
                                }
                                Ok(Ok(n)) => {
                                    if first_diff.is_none() {
                                        let want = pat.make(got, n);
                                        if want != buf[..n] {
                                            first_diff = Some(got + want.iter().zip(&buf[..n]).position(|(a, b)| a != b).unwrap_or(0) as u64);
                                        }
                                    }
                                    got += n as u64;
                                    reads += 1;
                                    if reads % 64 == 0 {
                                        tokio::time::sleep(Duration::from_millis(2)).await; // bursts
                                    }
                                    if got >= size {
                                        // everything is here; a short look for anything extra, then done
                                        if let Ok(Ok(m)) = tokio::time::timeout(Duration::from_millis(300), s.read(&mut buf)).await {
                                            got += m as u64;
                                            eof = m == 0;
                                        }
                                        break;
                                    }
                                }
                                _ => break,
                            }
                        }
                        Ok((got, first_diff.unwrap_or(u64::MAX), reads, eof))
                    }
                    .await;
                    match r {
                        Err(e) => rep.inconclusive(format!("e2e download {:?}: {e}", case)),
                        Ok((got, first_diff, reads, eof)) => {
                            rep.add("e2e_front_end_downloads_checked", 1);
                            rep.add("e2e_bytes_compared", got);
                            rep.add("e2e_download_reads", reads);
                            let cause = format!("e2e_download+{front}+late_bursty_reader");
                            if first_diff != u64::MAX {
                                rep.violate("mux", &cause, "content_mismatch", format!("source -> Server -> Client -> {front} front-end -> application (starts reading after {late_ms} ms, reads of <= {burst} bytes): of {size} bytes sent the application received {got}; the first byte that differs from what was sent is at offset {first_diff}"), case);
                            } else if got != size {
                                rep.violate("mux", &cause, if got < size { "download_truncated_at_application" } else { "extra_bytes" }, format!("source -> Server -> Client -> {front} front-end -> application (starts reading after {late_ms} ms): {size} bytes sent, {got} received{}", if eof { ", then end of stream" } else { ", no end of stream within 20 s" }), case);
                            }
                        }
                    }
                }
                client.stop_session_pool_cleanup().await;
            } else {
                rep.inconclusive("cannot start the front-ends for the download part");
            }
        }
        rep
    });
    for p in run::panic_log() {
        if !run::is_harness_panic(&p) {
            rep.violate("mux", "e2e", "panic", p, serde_json::json!({}));
        }
    }
    run::case_end();
    rep
}
