//! C01 — every stream is a lossless, ordered, exact byte pipe.

use super::mux::{self, DirPlan, MuxCase};
use crate::mempipe::{Frag, PipeCfg};
use crate::prng::Rng;
use crate::report::{CheckMeta, Report, Tier, hash_str};
use crate::run::{self, Ctx};

fn plan(chunks: &[usize], w: u8, r: u8, bufs: &[usize]) -> DirPlan {
    DirPlan { chunks: chunks.to_vec(), write_api: w, read_api: r, read_bufs: bufs.to_vec() }
}

/// deterministic boundary cases that every run must exercise
fn witness_cases(seed: u64) -> Vec<MuxCase> {
    let mut v = Vec::new();
    let plain = PipeCfg::plain();
    let frag = PipeCfg { capacity: 4096, write_frag: Frag::Random(3000), read_frag: Frag::Pool(vec![1, 6, 7, 8, 100, 5000]), pending_prob: 0.05, seed };
    for (k, sizes) in [vec![70000usize], vec![10, 65535, 65536, 3], vec![131073], vec![5, 0, 7], vec![0], vec![0, 0, 9, 0], vec![65535], vec![200000, 1]].into_iter().enumerate() {
        for w in 0..3u8 {
            for (pi, pc) in [plain.clone(), frag.clone()].into_iter().enumerate() {
                let up = plan(&sizes, w, (k as u8 + w) % 3, &[8192]);
                let down = plan(&sizes, w.min(1), (k as u8 + w + 1) % 3, &[1000, 70000]);
                v.push(MuxCase { seed: seed ^ (k as u64 * 31 + w as u64 * 7 + pi as u64), streams: vec![(up, down)], c2s: pc.clone(), s2c: pc, scheme: None, sched_p: 0.0, inline_first: w == 0, locator: (usize::MAX, v.len()), concurrent_opens: false, half_close: vec![] });
            }
        }
    }
    v
}

pub fn run(ctx: Ctx) -> Report {
    let n_cases: usize = ctx.tier.pick(6400, 240_000);
    run::run_sharded("C01", ctx.shards, move |shard, nshards, rep| {
        let mut rng = Rng::new(ctx.seed.wrapping_mul(0x9E37).wrapping_add(shard as u64) ^ 0xC01);
        let only: Option<(usize, usize)> = std::env::var("VERIF_ONLY").ok().and_then(|s| {
            let mut it = s.split(':');
            Some((it.next()?.parse().ok()?, it.next()?.parse().ok()?))
        });
        let wit = witness_cases(ctx.seed);
        for (i, case) in wit.iter().enumerate() {
            if i % nshards != shard || only.is_some_and(|o| o != (usize::MAX, i)) {
                continue;
            }
            run::case_begin(&format!("C01 witness {i}"));
            let res = mux::run_case(case);
            rep.case(Some(hash_str(&case.shape_key())));
            rep.add("witness_cases", 1);
            mux::record(rep, "mux", case, &res);
            if i < 2 {
                rep.sample(case.describe());
            }
        }
        let per = n_cases / nshards;
        for i in 0..per {
            let budget = if ctx.tier == Tier::Quick { 400_000 } else { 2 << 20 };
            let mut case = mux::gen_case(&mut rng, 8, budget);
            case.locator = (shard, i);
            if let Some((rs, ri)) = only && (rs, ri) != (shard, i) {
                continue;
            }
            run::case_begin(&format!("C01 shard {shard} case {i} seed {}", case.seed));
            let res = mux::run_case(&case);
            rep.case(if case.crosses_frame_boundary() { Some(hash_str(&case.shape_key())) } else { None });
            mux::record(rep, "mux", &case, &res);
            if shard == 0 && (2..5).contains(&i) {
                rep.sample(case.describe());
            }
            let apis: String = case.streams.iter().map(|(u, d)| format!("w{}r{}/w{}r{}", u.write_api, u.read_api, d.write_api, d.read_api)).collect::<Vec<_>>().join(",");
            rep.seen("api_combinations", apis.chars().take(19).collect::<String>());
            rep.max("max_streams_in_a_case", case.streams.len() as u64);
            if case.streams.iter().any(|(u, d)| u.chunks.iter().chain(d.chunks.iter()).any(|c| *c > 65535)) {
                rep.add("cases_with_chunk_above_65535", 1);
            }
            if case.streams.iter().any(|(u, d)| u.chunks.contains(&0) || d.chunks.contains(&0)) {
                rep.add("cases_with_empty_chunk", 1);
            }
        }
        run::case_end();
    })
}

pub fn meta() -> CheckMeta {
    CheckMeta {
        level: "exploration",
        rule: "each case = one client/server Session pair over two seeded MemPipes (capacity, write/read fragmentation, spurious Pending), 1-8 streams, per stream and direction a chunk-size sequence from a boundary-heavy pool (0,1,7,8,8192,16384,65535,65536,70000,131072,200000,...), one of 3 submission paths and 3 read paths, optional random padding scheme and random sched-point yields; in about a quarter of the streams one side ends its direction (FIN) after its last chunk and the other side writes its data only after that FIN has been processed (a FIN ends one direction only: the open direction must still deliver every byte); every byte read is compared online with the position-addressable pattern written at that offset; completeness and 'nothing more' are checked at quiescence under virtual time. distinct_nontrivial counts distinct (chunk sequences, APIs, pipe configs) whose transport fragments frames or that contain a chunk above one frame.".into(),
        assumptions: vec!["tokio's paused clock only advances when every task is idle, so 'still waiting after 3600 virtual s' means blocked forever".into(), "streams are never closed in this workload (C08 covers closing)".into()],
        floors: vec![("bytes_compared", 1_000_000), ("witness_cases", 40), ("cases_with_chunk_above_65535", 5), ("cases_with_empty_chunk", 20), ("streams_with_one_direction_ended_first", 100)],
        exhaustive: false,
    }
}
