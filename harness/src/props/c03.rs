//! C03 — frame encoding is a faithful, chunking-independent bijection.
//! Differential monitor: the crate's `FrameCodec` against `refcodec` on frames,
//! byte counts and the exact leftover buffer after every feed.

use crate::prng::Rng;
use crate::refcodec::{self, RFrame};
use crate::report::{CheckMeta, Report, hash_str, hex};
use crate::run::Ctx;
use anytls_rs::protocol::{Command, Frame, FrameCodec};
use bytes::{Bytes, BytesMut};
use serde_json::json;
use tokio_util::codec::{Decoder, Encoder};

const ENCODABLE: [Command; 11] = [
    Command::Waste,
    Command::Syn,
    Command::Push,
    Command::Fin,
    Command::Settings,
    Command::Alert,
    Command::UpdatePaddingScheme,
    Command::SynAck,
    Command::HeartRequest,
    Command::HeartResponse,
    Command::ServerSettings,
];

fn expected_cmd(byte: u8) -> u8 {
    if byte <= 10 { byte } else { 0 }
}

/// Feed `stream` to a fresh decoder in the given pieces; after every feed the
/// frames decoded so far and the leftover buffer must equal the reference.
fn feed_and_compare(stream: &[u8], cuts: &[usize]) -> Result<usize, String> {
    // "every byte string is decodable without failure": a panic in the decoder is a verdict, not a crash of the monitor
    match std::panic::catch_unwind(std::panic::AssertUnwindSafe(|| feed_and_compare_inner(stream, cuts))) {
        Ok(r) => r,
        Err(_) => {
            let _ = crate::run::take_thread_panics();
            Err(format!("decoder panicked on a fragmented stream ({})", crate::run::last_panic()))
        }
    }
}

fn feed_and_compare_inner(stream: &[u8], cuts: &[usize]) -> Result<usize, String> {
    let mut codec = FrameCodec;
    let mut buf = BytesMut::new();
    let mut got: Vec<(u8, u32, Vec<u8>)> = Vec::new();
    let mut fed = 0usize;
    let mut bounds: Vec<usize> = cuts.iter().copied().filter(|c| *c <= stream.len()).collect();
    bounds.push(stream.len());
    for b in bounds {
        if b < fed {
            continue;
        }
        buf.extend_from_slice(&stream[fed..b]);
        fed = b;
        loop {
            match codec.decode(&mut buf) {
                Ok(Some(f)) => got.push((u8::from(f.cmd), f.stream_id, f.data.to_vec())),
                Ok(None) => break,
                Err(e) => return Err(format!("decode returned Err({e}) after {fed} bytes fed")),
            }
        }
        let (rf, consumed) = refcodec::parse_all(&stream[..fed]);
        if got.len() != rf.len() {
            return Err(format!("after feeding {fed} bytes: decoded {} frames, reference {}", got.len(), rf.len()));
        }
        if buf.as_ref() != &stream[consumed..fed] {
            return Err(format!(
                "after feeding {fed} bytes: leftover buffer has {} bytes, reference unconsumed suffix has {} (content differs or count differs)",
                buf.len(),
                fed - consumed
            ));
        }
    }
    let (rf, _) = refcodec::parse_all(stream);
    for (i, (g, r)) in got.iter().zip(rf.iter()).enumerate() {
        if g.0 != expected_cmd(r.cmd) || g.1 != r.sid || g.2 != r.data {
            return Err(format!("frame {i}: decoded cmd={} sid={} len={}, reference cmd={} (byte {}) sid={} len={}", g.0, g.1, g.2.len(), expected_cmd(r.cmd), r.cmd, r.sid, r.data.len()));
        }
    }
    Ok(got.len())
}

fn gen_frame(rng: &mut Rng, max_len: usize) -> RFrame {
    let cmd = match rng.below(10) {
        0 => rng.below(256) as u8,
        1 => 0,
        _ => rng.range(0, 10) as u8,
    };
    let sid = match rng.below(6) {
        0 => 0,
        1 => 1,
        2 => u32::MAX,
        3 => 0x7FFF_FFFF + rng.below(3) as u32,
        _ => rng.next() as u32,
    };
    let len = match rng.below(12) {
        0 => 0,
        1 => 1,
        2 => *rng.pick(&[6usize, 7, 8, 255, 256, 257]),
        3 => max_len.min(*rng.pick(&[16383usize, 16384, 65534, 65535])),
        _ => rng.usize(0, max_len.min(300)),
    };
    RFrame::new(cmd, sid, &rng.bytes(len))
}

pub fn run(ctx: Ctx, rep: &mut Report) {
    run_scaled(ctx, rep, false)
}

/// `tiny` = the reduced workload replayed under Miri (an interpreter, ~1000x slower)
pub fn run_scaled(ctx: Ctx, rep: &mut Report, tiny: bool) {
    let quick = ctx.tier == crate::report::Tier::Quick;
    let mut rng = Rng::new(ctx.seed ^ 0xC03);

    // (a) header-only path: every command byte x every length value
    {
        let lens: Vec<u32> = if tiny {
            vec![0, 1, 7, 65535]
        } else if quick {
            let mut v: Vec<u32> = vec![0, 1, 2, 6, 7, 8, 255, 256, 257, 16383, 16384, 16385, 32767, 32768, 65534, 65535];
            for _ in 0..112 {
                v.push(rng.below(65536) as u32);
            }
            v
        } else {
            (0..65536u32).collect()
        };
        let mut codec = FrameCodec;
        let mut n = 0u64;
        for cmd in 0..=255u8 {
            if tiny && cmd > 12 && cmd % 16 != 5 {
                continue;
            }
            for &len in &lens {
                let sid = if (len ^ cmd as u32) & 1 == 0 { 0x0102_0304 } else { u32::MAX };
                let hdr = [cmd, (sid >> 24) as u8, (sid >> 16) as u8, (sid >> 8) as u8, sid as u8, (len >> 8) as u8, len as u8];
                let mut buf = BytesMut::from(&hdr[..]);
                n += 1;
                match codec.decode(&mut buf) {
                    Ok(None) => {
                        if len == 0 {
                            rep.violate("codec", "header_only", "complete_frame_not_decoded", format!("cmd byte {cmd} len 0: decode returned None"), json!({"header": hex(&hdr)}));
                        } else if buf.as_ref() != &hdr[..] {
                            rep.violate("codec", "header_only", "incomplete_frame_consumed", format!("cmd byte {cmd} len {len}: buffer changed although the frame is incomplete ({} bytes left)", buf.len()), json!({"header": hex(&hdr)}));
                        }
                    }
                    Ok(Some(f)) => {
                        if len != 0 || u8::from(f.cmd) != expected_cmd(cmd) || f.stream_id != sid || !f.data.is_empty() || !buf.is_empty() {
                            rep.violate("codec", "header_only", "wrong_frame", format!("cmd byte {cmd} len {len}: decoded {:?}, {} bytes left", f, buf.len()), json!({"header": hex(&hdr)}));
                        }
                    }
                    Err(e) => rep.violate("codec", "header_only", "decode_error", format!("cmd byte {cmd} len {len}: {e}"), json!({"header": hex(&hdr)})),
                }
                // shorter than a header: nothing may be consumed
                if len % 4099 == 0 {
                    for cut in 0..7 {
                        let mut b = BytesMut::from(&hdr[..cut]);
                        if !matches!(codec.decode(&mut b), Ok(None)) || b.len() != cut {
                            rep.violate("codec", "short_header", "consumed_or_failed", format!("{cut} header bytes of cmd {cmd}"), json!({"header": hex(&hdr), "cut": cut}));
                        }
                    }
                }
            }
        }
        rep.add("header_only_decodes", n);
        rep.evaluations += n;
        rep.distinct.insert(hash_str("header-only-grid"));
        if !quick {
            rep.note("header-only path enumerated exhaustively: 256 command bytes x 65536 length values");
        }
    }

    // (b) encode / decode round trip on the encodable commands x boundary ids x boundary lengths
    {
        let ids: Vec<u32> = vec![0, 1, 2, 0x7FFF_FFFE, 0x7FFF_FFFF, 0x8000_0000, 0x8000_0001, u32::MAX - 1, u32::MAX, rng.next() as u32, rng.next() as u32];
        let mut lens: Vec<usize> = vec![0, 1, 6, 7, 8, 255, 256, 16384, 65534, 65535];
        for _ in 0..if tiny { 0 } else if quick { 4 } else { 40 } {
            lens.push(rng.usize(0, 65535));
        }
        if tiny {
            lens.retain(|l| *l <= 256 || *l == 65535);
        }
        let mut n = 0u64;
        let ids: Vec<u32> = if tiny { vec![0, 0x8000_0000, u32::MAX] } else { ids };
        for cmd in ENCODABLE {
            for &sid in &ids {
                for &len in &lens {
                    let data = rng.bytes(len);
                    let frame = Frame::with_data(cmd, sid, Bytes::from(data.clone()));
                    let mut out = BytesMut::new();
                    let mut codec = FrameCodec;
                    n += 1;
                    rep.case(Some(hash_str(&format!("rt:{}:{}:{}", u8::from(cmd), sid, len))));
                    if let Err(e) = codec.encode(frame.clone(), &mut out) {
                        rep.violate("codec", "roundtrip", "encode_error", format!("encode({:?},{sid},{len} bytes) = Err({e})", cmd), json!({"cmd": u8::from(cmd), "sid": sid, "len": len}));
                        continue;
                    }
                    let want = refcodec::encode(u8::from(cmd), sid, &data);
                    if out.as_ref() != &want[..] {
                        rep.violate("codec", "roundtrip", "encoding_differs_from_reference", format!("encode({:?},{sid},{len} bytes): {} bytes vs reference {}", cmd, out.len(), want.len()), json!({"cmd": u8::from(cmd), "sid": sid, "len": len}));
                        continue;
                    }
                    match codec.decode(&mut out) {
                        Ok(Some(f)) if f == frame && out.is_empty() => {}
                        other => rep.violate("codec", "roundtrip", "decode_differs", format!("decode(encode(f)) = {:?} with {} bytes left", other.map(|o| o.map(|f| (f.cmd, f.stream_id, f.data.len()))), out.len()), json!({"cmd": u8::from(cmd), "sid": sid, "len": len})),
                    }
                }
            }
        }
        rep.add("roundtrips", n);
        rep.sample(json!({"kind": "roundtrip", "cmd": "Push", "sid": u32::MAX, "len": 65535}));
    }

    // (b2) attempted lengths above the 16-bit limit: Err, or a self-consistent encoding
    for &len in if tiny { &[65536usize][..] } else { &[65536usize, 65537, 70000, 131071, 131072, 65535 + 7][..] } {
        for cmd in [Command::Push, Command::Settings, Command::Waste] {
            let data = rng.bytes(len);
            // the destination already holds a frame; a refused frame must leave nothing behind, so that what is encoded
            // next still follows the earlier frame directly
            let before = refcodec::encode(refcodec::PSH, 9, b"earlier frame");
            let mut out = BytesMut::from(&before[..]);
            let mut codec = FrameCodec;
            rep.case(Some(hash_str(&format!("oversize:{}:{}", u8::from(cmd), len))));
            rep.add("oversize_attempts", 1);
            let r = codec.encode(Frame::with_data(cmd, 7, Bytes::from(data.clone())), &mut out);
            if r.is_err() {
                let after_refusal = out.len();
                let _ = codec.encode(Frame::with_data(Command::Push, 11, Bytes::from_static(b"later frame")), &mut out);
                let mut want = before.clone();
                want.extend_from_slice(&refcodec::encode(refcodec::PSH, 11, b"later frame"));
                if out[..] != want[..] {
                    rep.violate(
                        "codec",
                        "oversize_payload",
                        "refused_frame_left_bytes_in_the_buffer",
                        format!("encode of a {len}-byte payload returned Err but the destination buffer grew from {} to {after_refusal} bytes; a frame encoded afterwards no longer follows the earlier one (stray bytes {:02x?})", before.len(), &out[before.len()..after_refusal.min(before.len() + 12)]),
                        json!({"cmd": u8::from(cmd), "len": len}),
                    );
                }
            }
            let out = BytesMut::from(&out[before.len().min(out.len())..]);
            if let Ok(()) = r {
                // accepted: the emitted bytes must parse into frames whose payloads concatenate to the input
                let (frames, consumed) = refcodec::parse_all(&out);
                let joined: Vec<u8> = frames.iter().flat_map(|f| f.data.clone()).collect();
                let ok = consumed == out.len() && joined == data && frames.iter().all(|f| f.cmd == u8::from(cmd) && f.sid == 7);
                if !ok {
                    let hdr_len = if out.len() >= 7 { ((out[5] as usize) << 8) | out[6] as usize } else { 0 };
                    rep.violate(
                        "codec",
                        "oversize_payload",
                        "header_length_differs_from_payload",
                        format!("encode of a {len}-byte payload returned Ok with header length field {hdr_len}; the {} emitted bytes do not parse back to the payload", out.len()),
                        json!({"cmd": u8::from(cmd), "len": len}),
                    );
                }
            }
        }
    }

    // (b3) the encoder appends: several frames encoded into ONE buffer (optionally after foreign bytes)
    // must equal the reference concatenation, and decode back to the same frames
    {
        let n = if tiny { 6 } else if quick { 600 } else { 20_000 };
        let mut batched = 0u64;
        for i in 0..n {
            let k = rng.usize(1, 8);
            let prefix = if i % 3 == 0 { rng.bytes_in(1, 40) } else { Vec::new() };
            let mut dst = BytesMut::from(&prefix[..]);
            let mut want = prefix.clone();
            let mut frames = Vec::new();
            let mut ok = true;
            for _ in 0..k {
                let cmd = *rng.pick(&ENCODABLE);
                let sid = rng.next() as u32;
                let len = *rng.pick(&[0usize, 1, 7, 100, 300, 5000]);
                let data = rng.bytes(if tiny { len.min(100) } else { len });
                let mut codec = FrameCodec;
                if codec.encode(Frame::with_data(cmd, sid, Bytes::from(data.clone())), &mut dst).is_err() {
                    ok = false;
                    break;
                }
                want.extend_from_slice(&refcodec::encode(u8::from(cmd), sid, &data));
                frames.push((u8::from(cmd), sid, data));
            }
            rep.case(Some(hash_str(&format!("batch:{i}:{k}:{}", prefix.len()))));
            batched += k as u64;
            if !ok {
                rep.violate("codec", "batched_encode", "encode_error", "encode into a non-empty buffer failed".to_string(), json!({"frames": k, "prefix": prefix.len()}));
            } else if dst.as_ref() != &want[..] {
                let at = dst.iter().zip(want.iter()).position(|(a, b)| a != b).unwrap_or(dst.len().min(want.len()));
                rep.violate("codec", "batched_encode", "encoding_differs_from_reference", format!("{k} frames encoded one after the other into a buffer that already held {} bytes: {} bytes produced, reference {} bytes, first difference at offset {at}", prefix.len(), dst.len(), want.len()), json!({"frames": frames.iter().map(|f| format!("{}:{}:{}", f.0, f.1, f.2.len())).collect::<Vec<_>>(), "prefix": prefix.len()}));
            } else {
                // and back (skip the foreign prefix)
                let mut buf = BytesMut::from(&dst[prefix.len()..]);
                let mut codec = FrameCodec;
                for f in &frames {
                    match codec.decode(&mut buf) {
                        Ok(Some(g)) if u8::from(g.cmd) == f.0 && g.stream_id == f.1 && g.data.as_ref() == &f.2[..] => {}
                        other => {
                            rep.violate("codec", "batched_encode", "decode_differs", format!("batched frames do not decode back: {:?}", other.map(|o| o.map(|g| (g.cmd, g.stream_id, g.data.len())))), json!({"frames": k}));
                            break;
                        }
                    }
                }
            }
        }
        rep.add("frames_encoded_into_shared_buffers", batched);
    }

    // (c) concatenations cut at every single / pair of positions, random multi-cuts, 1-byte drip
    {
        let n_streams = if tiny { 3 } else if quick { 240 } else { 6000 };
        let mut cuts_tried = 0u64;
        let mut frames_seen = 0u64;
        for si in 0..n_streams {
            let nf = if tiny { rng.usize(1, 6) } else { rng.usize(1, 20) };
            let short = si % 3 != 0;
            let max_len = if short { 24 } else if tiny { 120 } else { 65535 };
            let mut frames = Vec::new();
            let mut stream = Vec::new();
            for _ in 0..nf {
                let f = gen_frame(&mut rng, max_len);
                stream.extend_from_slice(&refcodec::encode_frame(&f));
                frames.push(f);
            }
            // optionally a trailing incomplete frame
            if rng.chance(0.5) {
                let f = gen_frame(&mut rng, 40);
                let enc = refcodec::encode_frame(&f);
                let keep = rng.usize(1, enc.len().saturating_sub(1).max(1));
                stream.extend_from_slice(&enc[..keep.min(enc.len() - 1).max(1)]);
            }
            let key = hash_str(&format!("cat:{}:{}", nf, hex(&stream[..stream.len().min(64)])));
            let mut check = |cuts: &[usize], rep: &mut Report| {
                cuts_tried += 1;
                match feed_and_compare(&stream, cuts) {
                    Ok(n) => frames_seen += n as u64,
                    Err(e) => rep.violate("codec", "fragmentation", "differs_from_reference", e, json!({"stream_hex": hex(&stream[..stream.len().min(4096)]), "stream_len": stream.len(), "cuts": cuts})),
                }
            };
            check(&[], rep);
            if stream.len() <= 400 {
                for c in 1..stream.len() {
                    check(&[c], rep);
                }
                if stream.len() <= if tiny { 24 } else if quick { 60 } else { 140 } {
                    for a in 1..stream.len() {
                        for b in a + 1..stream.len() {
                            check(&[a, b], rep);
                        }
                    }
                }
                let drip: Vec<usize> = (1..stream.len()).collect();
                check(&drip, rep);
            }
            for _ in 0..if quick { 4 } else { 20 } {
                let k = rng.usize(1, 12);
                let mut cuts: Vec<usize> = (0..k).map(|_| rng.usize(0, stream.len())).collect();
                cuts.sort();
                check(&cuts, rep);
            }
            // cuts right around every frame boundary (header -1, header, header +1)
            let mut pos = 0usize;
            let mut cuts = Vec::new();
            for f in &frames {
                for d in [6usize, 7, 8] {
                    cuts.push(pos + d);
                }
                pos += f.total();
                cuts.push(pos.saturating_sub(1));
                cuts.push(pos);
            }
            cuts.sort();
            cuts.dedup();
            check(&cuts, rep);
            rep.case(Some(key));
            if si < 2 {
                rep.sample(json!({"kind": "concatenation", "frames": frames.iter().map(|f| f.brief()).collect::<Vec<_>>(), "bytes": stream.len()}));
            }
        }
        rep.add("fragmentations_checked", cuts_tried);
        rep.add("frames_decoded_in_fragmentation_runs", frames_seen);
    }

    // (d) arbitrary byte strings
    {
        let n = if tiny { 60 } else if quick { 200_000 } else { 4_000_000 };
        let mut frames_seen = 0u64;
        for i in 0..n {
            let len = match rng.below(5) {
                0 => rng.usize(0, 16),
                1 => rng.usize(0, 64),
                _ => rng.usize(0, 600),
            };
            let mut s = rng.bytes(len);
            // header-shaped: small lengths so that several frames complete; sometimes length-field extremes
            if i % 2 == 0 {
                let mut p = 0;
                while p + 7 <= s.len() {
                    let l = match rng.below(8) {
                        0 => 0xFFFF,
                        1 => 0,
                        _ => rng.usize(0, 40),
                    };
                    s[p + 5] = (l >> 8) as u8;
                    s[p + 6] = l as u8;
                    p += 7 + l.min(64);
                }
            }
            let cuts: Vec<usize> = if i % 3 == 0 {
                (1..s.len()).collect()
            } else {
                let mut c: Vec<usize> = (0..rng.usize(0, 5)).map(|_| rng.usize(0, s.len())).collect();
                c.sort();
                c
            };
            rep.evaluations += 1;
            match feed_and_compare(&s, &cuts) {
                Ok(k) => {
                    frames_seen += k as u64;
                    if k > 0 {
                        rep.distinct.insert(hash_str(&hex(&s[..s.len().min(48)])));
                    }
                }
                Err(e) => rep.violate("codec", "arbitrary_bytes", "differs_from_reference", e, json!({"bytes_hex": hex(&s), "cuts": cuts})),
            }
            if i == 1 {
                rep.sample(json!({"kind": "arbitrary", "bytes_hex": hex(&s[..s.len().min(40)]), "len": s.len(), "cuts": cuts.len()}));
            }
        }
        rep.add("arbitrary_strings", n);
        rep.add("frames_decoded_from_arbitrary_strings", frames_seen);
    }
}

pub fn meta() -> CheckMeta {
    CheckMeta {
        level: "exploration",
        rule: "differential run of FrameCodec against an independent slice-based reference codec: (a) header-only grid of command bytes x length values, (b) encode/decode round trips over 11 commands x boundary ids x boundary lengths, (b2) oversize payload attempts into a buffer that already holds a frame (Err must leave the buffer as it was; Ok must be self-consistent), (b3) several frames encoded one after the other into one buffer (optionally pre-filled) compared with the reference concatenation and decoded back, (c) frame concatenations fed cut at every single position / every pair (short streams) / random multi-cuts / 1-byte drip / around every header, comparing frames, consumed count and exact leftover after every feed, (d) arbitrary and header-shaped byte strings. A case is non-trivial+distinct by its (kind, parameters or leading bytes) hash when at least one frame completes (d) or always (a-c). In a session: a real server Session is fed Settings, SYN, 2-5 PSH frames (payload sizes around 8 KiB, 16 KiB and 64 KiB) and FIN in pieces, each piece one transport read, with a cut 0-7 bytes after every frame boundary (a read that ends inside the next header), alone or with a second cut elsewhere; the stream's consumer must obtain exactly the payload bytes of the frames sent, then end of stream.".into(),
        assumptions: vec!["the 40-line reference codec encodes the protocol description correctly".into(), "ids beyond the boundary set and payload contents are sampled, not enumerated".into()],
        floors: vec![("header_only_decodes", 30_000), ("roundtrips", 1000), ("frames_encoded_into_shared_buffers", 1000), ("fragmentations_checked", 3000), ("frames_decoded_from_arbitrary_strings", 1000), ("in_session_fragmentations", 500)],
        exhaustive: false,
    }
}

// ---------------------------------------------------------------------------
// the decoder where it is used: a real server Session is fed a frame stream in chosen pieces (each piece is one
// transport read); what its stream hands to the consumer must be the payloads of exactly the frames sent

/// returns None when the consumer got exactly the payload bytes followed by end of stream
async fn in_session_case(sizes: &[usize], cuts: &[usize], seed: u64) -> Option<String> {
    use crate::engine;
    use crate::mempipe::PipeCfg;
    use crate::prng::Pattern;
    use std::time::Duration;
    let mut rv = engine::raw_vs_server(PipeCfg::plain(), PipeCfg::plain(), engine::no_padding());
    let pat = Pattern::new(seed, 1, 0);
    let mut wire = Vec::new();
    wire.extend_from_slice(&refcodec::encode(refcodec::SETTINGS, 0, &engine::settings_payload("x")));
    wire.extend_from_slice(&refcodec::encode(refcodec::SYN, 1, &[]));
    let mut off = 0u64;
    for &n in sizes {
        wire.extend_from_slice(&refcodec::encode(refcodec::PSH, 1, &pat.make(off, n)));
        off += n as u64;
    }
    wire.extend_from_slice(&refcodec::encode(refcodec::FIN, 1, &[]));
    let total = off;
    // deliver piece by piece; one virtual millisecond between pieces lets the session consume each piece alone
    let mut prev = 0usize;
    let mut cuts: Vec<usize> = cuts.iter().copied().filter(|c| *c > 0 && *c < wire.len()).collect();
    cuts.sort();
    cuts.dedup();
    cuts.push(wire.len());
    for c in cuts {
        if rv.peer.send_bytes(&wire[prev..c]).await.is_err() {
            return Some("the session stopped accepting bytes".into());
        }
        prev = c;
        tokio::time::sleep(Duration::from_millis(1)).await;
    }
    let st = match tokio::time::timeout(Duration::from_secs(5), rv.new_streams.recv()).await {
        Ok(Some(st)) => st,
        _ => return Some("the stream never appeared at the session".into()),
    };
    let mut got = 0u64;
    let mut buf = vec![0u8; 70_000];
    let mut rd = st.reader().lock().await;
    loop {
        match tokio::time::timeout(Duration::from_secs(5), rd.read(&mut buf)).await {
            Ok(Ok(0)) => break,
            Ok(Ok(n)) => {
                if let Some(i) = pat.first_mismatch(got, &buf[..n]) {
                    return Some(format!("byte at payload offset {} differs from the byte sent in the frames", got + i as u64));
                }
                got += n as u64;
            }
            Ok(Err(e)) => return Some(format!("read error after {got} of {total} payload bytes: {e}")),
            Err(_) => return Some(format!("only {got} of {total} payload bytes arrived; the rest (and the end of the stream) never came")),
        }
    }
    if got != total {
        return Some(format!("{got} payload bytes arrived, {total} were sent in frames"));
    }
    None
}

pub fn run_in_session(ctx: Ctx, rep: &mut Report) {
    let quick = ctx.tier == crate::report::Tier::Quick;
    let mut rng = Rng::new(ctx.seed ^ 0x5E55);
    // payload sizes around the read-buffer and frame limits
    let pool: Vec<usize> = vec![1, 6, 7, 100, 4089, 8184, 8185, 8186, 8192, 8193, 9000, 10_000, 12_000, 16_376, 16_377, 16_384, 20_000, 32_768, 65_534, 65_535];
    let n_lists = if quick { 24 } else { 400 };
    for li in 0..n_lists {
        let k = rng.usize(2, 5);
        let sizes: Vec<usize> = (0..k).map(|_| *rng.pick(&pool)).collect();
        // frame boundaries of the wire image
        let mut bounds = Vec::new();
        let mut at = 7 + crate::engine::settings_payload("x").len() + 7;
        bounds.push(at);
        for &n in &sizes {
            at += 7 + n;
            bounds.push(at);
        }
        // one cut a few bytes into the header that follows each boundary (a read ending inside a header), alone and
        // together with a second cut elsewhere
        for (bi, b) in bounds.iter().enumerate() {
            for d in 0..=7usize {
                let mut cuts = vec![b + d];
                if (li + bi + d) % 3 == 0 {
                    cuts.push(rng.usize(1, at));
                }
                crate::run::case_begin(&format!("C03 in-session list {li} boundary {bi} +{d}"));
                let (sz, cu) = (sizes.clone(), cuts.clone());
                let seed = ctx.seed ^ li as u64;
                let r = crate::run::vt_block_on_deadline(std::time::Duration::from_secs(100_000), async move { in_session_case(&sz, &cu, seed).await });
                let case = json!({"kind": "c03-in-session", "payload_sizes": sizes, "cuts": cuts, "seed": seed.to_string()});
                rep.case(Some(hash_str(&case.to_string())));
                rep.add("in_session_fragmentations", 1);
                match r {
                    None => rep.violate("codec", "in_session+read_ends_inside_a_header", "case_stuck", "the case did not finish".to_string(), case),
                    Some(Some(p)) => rep.violate("codec", if d == 0 { "in_session+read_ends_at_a_frame_boundary" } else { "in_session+read_ends_inside_a_header" }, "frames_acted_on_differ_from_frames_sent", format!("server Session fed PSH frames with payload sizes {:?} in pieces cut at {:?} (frame boundaries at {:?}): {p}", sizes, cuts, bounds), case),
                    Some(None) => {}
                }
                for p in crate::run::take_thread_panics() {
                    if !crate::run::is_harness_panic(&p) {
                        rep.violate("codec", "in_session", "panic", p, json!({}));
                    }
                }
            }
        }
    }
    crate::run::case_end();
}
