//! C06 — only holders of the password get a session.
//! Function level: the real `authenticate_client` on a MemPipe; the e2e part
//! (real Server::listen, raw TLS client) is in `e2e`.

use crate::engine;
use crate::mempipe::{Frag, PipeCfg, pipe};
use crate::prng::Rng;
use crate::report::{CheckMeta, Report, hash_str, hex};
use crate::run::{self, Ctx};
use serde_json::json;
use sha2::{Digest, Sha256};
use std::time::Duration;
use tokio::io::{AsyncReadExt, AsyncWriteExt};

const SENTINEL: &[u8] = b"\x04\x00\x00\x00\x00\x00\x03v=2SENTINEL-AFTER-PREAMBLE";

fn frag_cfg(kind: u8, seed: u64) -> PipeCfg {
    match kind {
        0 => PipeCfg::plain(),
        1 => PipeCfg { read_frag: Frag::One, ..PipeCfg::plain() },
        2 => PipeCfg { read_frag: Frag::Pool(vec![32, 1, 1, 5]), ..PipeCfg::plain() },
        3 => PipeCfg { read_frag: Frag::Pool(vec![33, 7]), ..PipeCfg::plain() },
        _ => PipeCfg { read_frag: Frag::Random(40), pending_prob: 0.2, seed, ..PipeCfg::plain() },
    }
}

/// returns (result is Ok, bytes left unread in the pipe after the call (None if the call hung))
async fn try_auth(preamble: &[u8], tail: &[u8], close_after: bool, expected: &[u8; 32], frag: u8, seed: u64) -> Option<(bool, Vec<u8>)> {
    let (mut w, mut r, _h) = pipe(frag_cfg(frag, seed));
    w.write_all(preamble).await.ok()?;
    w.write_all(tail).await.ok()?;
    if close_after {
        let _ = w.shutdown().await;
    }
    let padding = engine::default_padding();
    let res = tokio::time::timeout(Duration::from_secs(60), anytls_rs::util::authenticate_client(&mut r, expected, &padding)).await;
    let ok = match res {
        Ok(r) => r.is_ok(),
        Err(_) => {
            if close_after {
                return None; // hung although the input ended
            }
            false // waiting for more bytes of an incomplete preamble is fine
        }
    };
    let _ = w.shutdown().await;
    let mut rest = Vec::new();
    let _ = tokio::time::timeout(Duration::from_secs(5), r.read_to_end(&mut rest)).await;
    Some((ok, rest))
}

pub fn run(ctx: Ctx) -> Report {
    let quick = ctx.tier == crate::report::Tier::Quick;
    run::run_sharded("C06", ctx.shards, move |shard, nshards, rep| {
        let mut rng = Rng::new(ctx.seed.wrapping_mul(17).wrapping_add(shard as u64) ^ 0xC06);
        let password = "correct horse battery staple";
        let expected: [u8; 32] = Sha256::digest(password.as_bytes()).into();
        let mut job = 0u64;
        let mine = |job: &mut u64| {
            *job += 1;
            (*job as usize) % nshards == shard
        };
        run::case_begin("C06 function level");
        run::vt_block_on(async {
            // ---- wrong hashes ------------------------------------------------------------------
            let mut bad: Vec<([u8; 32], &'static str)> = Vec::new();
            for bit in 0..256 {
                let mut h = expected;
                h[bit / 8] ^= 1 << (bit % 8);
                bad.push((h, "single_bit_flip"));
            }
            for pos in 0..32 {
                for v in 0..=255u8 {
                    if v != expected[pos] && (!quick || v % 8 == (pos as u8) % 8 || pos == 31 || pos == 0) {
                        let mut h = expected;
                        h[pos] = v;
                        bad.push((h, "single_byte_deviation"));
                    }
                }
            }
            for k in 0..32 {
                let mut h = expected;
                for b in h.iter_mut().skip(k) {
                    *b = !*b;
                }
                bad.push((h, "correct_prefix_only"));
                let mut h2 = [0u8; 32];
                h2[32 - k..].copy_from_slice(&expected[32 - k..]);
                if h2 != expected {
                    bad.push((h2, "correct_suffix_only"));
                }
            }
            // deviations in two (or four) bytes whose differences cancel (same mask, +1/-1, swapped bytes)
            for a in 0..32usize {
                for b in (a + 1)..32 {
                    if quick && (a * 31 + b) % 5 != 0 {
                        continue;
                    }
                    let mask = 1u8 << ((a + b) % 8);
                    let mut h = expected;
                    h[a] ^= mask;
                    h[b] ^= mask;
                    bad.push((h, "two_bytes_same_mask"));
                    let mut h2 = expected;
                    h2[a] = h2[a].wrapping_add(1);
                    h2[b] = h2[b].wrapping_sub(1);
                    bad.push((h2, "two_bytes_plus_minus_one"));
                    if expected[a] != expected[b] {
                        let mut h3 = expected;
                        h3.swap(a, b);
                        bad.push((h3, "two_bytes_swapped"));
                    }
                }
            }
            for related in ["correct horse battery stapl", "correct horse battery staple ", "Correct horse battery staple", "", "correct horse battery staple\0", "correct horse battery staple\n", "orrect horse battery staple"] {
                bad.push((Sha256::digest(related.as_bytes()).into(), "hash_of_related_password"));
            }
            bad.push(([0u8; 32], "all_zero"));
            bad.push(([0xFFu8; 32], "all_one"));
            for (h, kind) in &bad {
                if !mine(&mut job) {
                    continue;
                }
                let frag = (job % 5) as u8;
                let l = rng.usize(0, 40);
                let mut pre = h.to_vec();
                pre.extend_from_slice(&(l as u16).to_be_bytes());
                pre.extend(std::iter::repeat_n(0u8, l));
                rep.case(Some(hash_str(&format!("bad:{}:{}", hex(h), frag))));
                rep.add("wrong_hash_preambles", 1);
                rep.seen("wrong_hash_kinds", *kind);
                match try_auth(&pre, SENTINEL, true, &expected, frag, job).await {
                    Some((true, _)) => rep.violate("auth", kind, "wrong_hash_accepted", format!("authenticate_client returned Ok for a preamble whose hash is {} (expected {})", hex(h), hex(&expected)), json!({"kind": "c06", "hash": hex(h), "frag": frag})),
                    Some((false, _)) => {}
                    None => rep.violate("auth", kind, "hung_on_closed_input", "authenticate_client still pending 60 virtual seconds after the input ended", json!({"kind": "c06", "hash": hex(h), "frag": frag})),
                }
            }
            // ---- accepted preamble: declared padding skipped exactly ----------------------------
            let mut lens: Vec<usize> = vec![0, 1, 2, 29, 30, 31, 254, 255, 256, 257, 1023, 1024, 16383, 16384, 16385, 32767, 32768, 65534, 65535];
            if quick {
                for _ in 0..6000 {
                    lens.push(rng.usize(0, 65535));
                }
            } else {
                lens = (0..=65535).collect();
            }
            for &l in &lens {
                if !mine(&mut job) {
                    continue;
                }
                let frag = if l > 3000 && job % 5 == 1 { 4 } else { (job % 5) as u8 };
                let mut pre = expected.to_vec();
                pre.extend_from_slice(&(l as u16).to_be_bytes());
                pre.extend(rng.bytes(l)); // padding content is arbitrary
                rep.case(Some(hash_str(&format!("good:{l}:{frag}"))));
                rep.add("valid_preambles", 1);
                rep.max("max_declared_padding", l as u64);
                match try_auth(&pre, SENTINEL, false, &expected, frag, job).await {
                    Some((true, rest)) => {
                        if rest != SENTINEL {
                            rep.violate("auth", "valid_preamble", "padding_not_skipped_exactly", format!("declared padding {l}: frame parsing would start {} bytes off (rest has {} bytes, sentinel {})", rest.len() as i64 - SENTINEL.len() as i64, rest.len(), SENTINEL.len()), json!({"kind": "c06", "declared": l, "frag": frag}));
                        }
                    }
                    Some((false, _)) => rep.violate("auth", "valid_preamble", "right_password_rejected", format!("valid preamble with declared padding {l} rejected (fragmentation class {frag})"), json!({"kind": "c06", "declared": l, "frag": frag})),
                    None => rep.violate("auth", "valid_preamble", "hung", format!("declared padding {l}"), json!({"kind": "c06", "declared": l, "frag": frag})),
                }
            }
            // ---- every truncation of a valid preamble ------------------------------------------------
            for l in [0usize, 1, 30, 300] {
                let mut pre = expected.to_vec();
                pre.extend_from_slice(&(l as u16).to_be_bytes());
                pre.extend(std::iter::repeat_n(0xABu8, l));
                for cut in 0..pre.len() {
                    if !mine(&mut job) {
                        continue;
                    }
                    let frag = (job % 5) as u8;
                    rep.case(Some(hash_str(&format!("trunc:{l}:{cut}:{frag}"))));
                    rep.add("truncated_preambles", 1);
                    match try_auth(&pre[..cut], &[], true, &expected, frag, job).await {
                        Some((true, _)) => rep.violate("auth", "truncated_preamble", "truncated_preamble_accepted", format!("only {cut} of {} preamble bytes were sent, then EOF, and authentication succeeded", pre.len()), json!({"kind": "c06", "declared": l, "cut": cut})),
                        Some((false, _)) => {}
                        None => rep.violate("auth", "truncated_preamble", "hung_on_closed_input", format!("{cut} of {} bytes then EOF", pre.len()), json!({"kind": "c06", "declared": l, "cut": cut})),
                    }
                }
            }
        });
        rep.sample(json!({"kind": "wrong hash", "example": "expected hash with bit 0 flipped + 2-byte length + padding + valid Settings frame, 1-byte drip"}));
        rep.sample(json!({"kind": "valid", "declared_padding": 65535, "followed_by": "sentinel frame that must be the next thing read"}));
        for p in run::take_thread_panics() {
            if run::is_harness_panic(&p) {
                rep.inconclusive(format!("harness panic: {p}"));
            } else {
                rep.violate("auth", "any", "panic", p, json!({}));
            }
        }
        run::case_end();
    })
}

pub fn meta() -> CheckMeta {
    CheckMeta {
        level: "exploration",
        rule: "function level: the real authenticate_client reading from a MemPipe in 5 fragmentation classes (whole, 1-byte drip, split after the hash, split inside the length, random with spurious Pending): all 256 single-bit flips of the right hash, single-byte deviations at every position (all 32x255 in the thorough tier), correct k-byte prefixes/suffixes for k=0..31, two-byte deviations whose differences cancel (same XOR mask, +1/-1, swapped bytes), hashes of related passwords, all-zero/all-one => must be rejected; valid preambles with declared padding at the boundaries + 500 random lengths (thorough: all 65536) followed by a sentinel frame => Ok and the sentinel must be exactly what is left; every truncation length of valid preambles => not Ok and no hang after EOF. End to end (real Server::listen + TcpProxyHandler, raw TLS client): a bad preamble followed by a perfectly valid Settings+SYN+destination+data must cause no Dial event, no target accept and no plaintext reply; positive controls must get a session. distinct_nontrivial = distinct (preamble, fragmentation class). End to end also: peers that send nothing / part of the right hash / a wrong hash with unfinished padding, then stall 6.5 s (thorough also 12, 31, 62 s) and then send a valid session: never a Destination/Dial event or a reply frame (the complete right hash is never sent, so no such peer is entitled to a session). Constructors and blank space: servers built with Server::new and with Server::new_with_reloadable_tls, configured with passwords that have blank space at their ends (' pw', 'pw ', 'pw\\n', tabs, two blanks): the hash of exactly the configured password must get a session, the hashes of the trimmed / re-padded variants must not.".into(),
        assumptions: vec!["SHA-256 from the sha2 crate is used independently to compute expected hashes".into()],
        floors: vec![("wrong_hash_preambles", 1000), ("valid_preambles", 400), ("truncated_preambles", 300), ("e2e_bad_preambles", 15), ("e2e_positive_controls", 4), ("e2e_stalled_preambles", 3), ("e2e_constructor_password_probes", 30)],
        exhaustive: false,
    }
}

// ---------------------------------------------------------------------------
// end to end: real Server::listen + default TcpProxyHandler, raw TLS client


/// Servers built with either constructor and passwords that contain blank space at their ends: the expected hash
/// is that of the configured password, byte for byte. Returns through `rep`.
async fn constructor_password_grid(rep: &mut Report, tport: u16, accepts: std::sync::Arc<std::sync::Mutex<Vec<(std::net::SocketAddr, tokio::time::Instant)>>>) {
    use crate::netkit;
    use crate::refcodec;
    use anytls_rs::verif::Event;
    use std::net::SocketAddr;
    use tokio::io::{AsyncReadExt, AsyncWriteExt};
    let passwords = ["pw-plain", " pw-leading", "pw-trailing ", "pw-newline\n", "\tpw tabs\t", "  "];
    let mut uniq = 0u32;
    for reloadable in [false, true] {
        for pw in passwords {
            // start a server of this kind
            let addr = format!("127.0.0.1:{}", netkit::free_port());
            let Ok(cfg) = anytls_rs::util::tls::create_server_config() else {
                rep.inconclusive("cannot build a TLS config");
                return;
            };
            let acceptor = std::sync::Arc::new(tokio_rustls::TlsAcceptor::from(cfg));
            let server = std::sync::Arc::new(if reloadable {
                anytls_rs::server::Server::new_with_reloadable_tls(pw, std::sync::Arc::new(std::sync::RwLock::new(acceptor)), engine::default_padding(), None)
            } else {
                anytls_rs::server::Server::new(pw, acceptor, engine::default_padding(), None)
            });
            let a2 = addr.clone();
            let h = tokio::spawn(async move {
                let _ = server.listen(&a2).await;
            });
            if !netkit::wait_listening(&addr).await {
                h.abort();
                rep.inconclusive("server did not start");
                continue;
            }
            // candidates: the configured password (must work) and near misses (must not)
            let mut cands: Vec<(String, bool)> = vec![(pw.to_string(), true)];
            for other in [pw.trim().to_string(), pw.trim_end().to_string(), pw.trim_start().to_string(), format!("{pw} "), format!(" {pw}")] {
                if other != pw && !cands.iter().any(|(c, _)| *c == other) {
                    cands.push((other, false));
                }
            }
            for (cand, good) in cands {
                uniq += 1;
                let ip = netkit::uniq_ip(46, uniq);
                let dest = SocketAddr::new(ip.into(), tport);
                let before = anytls_rs::verif::event_count();
                let hash: [u8; 32] = Sha256::digest(cand.as_bytes()).into();
                let r: Result<Vec<u8>, String> = async {
                    let mut tls = netkit::raw_tls_connect(&addr).await?;
                    let mut bytes = hash.to_vec();
                    bytes.extend_from_slice(&30u16.to_be_bytes());
                    bytes.extend_from_slice(&[0u8; 30]);
                    bytes.extend_from_slice(&refcodec::encode(refcodec::SETTINGS, 0, &engine::settings_payload("x")));
                    bytes.extend_from_slice(&refcodec::encode(refcodec::SYN, 1, &[]));
                    let mut d = vec![1u8];
                    d.extend_from_slice(&ip.octets());
                    d.extend_from_slice(&tport.to_be_bytes());
                    bytes.extend_from_slice(&refcodec::encode(refcodec::PSH, 1, &d));
                    tls.write_all(&bytes).await.map_err(|e| e.to_string())?;
                    let _ = tls.flush().await;
                    let mut got = Vec::new();
                    let mut buf = [0u8; 4096];
                    let _ = tokio::time::timeout(Duration::from_millis(if good { 1500 } else { 800 }), async {
                        loop {
                            match tls.read(&mut buf).await {
                                Ok(0) | Err(_) => break,
                                Ok(n) => {
                                    got.extend_from_slice(&buf[..n]);
                                    if refcodec::parse_all(&got).0.iter().any(|f| f.cmd == refcodec::SYNACK) {
                                        break;
                                    }
                                }
                            }
                        }
                    })
                    .await;
                    Ok(got)
                }
                .await;
                tokio::time::sleep(Duration::from_millis(30)).await;
                let events: Vec<Event> = anytls_rs::verif::events().into_iter().skip(before).collect();
                let dialled = events.iter().any(|e| matches!(e, Event::Dial { addr, .. } if *addr == dest));
                let accepted = accepts.lock().unwrap().iter().any(|(a, _)| *a == dest);
                let case = json!({"kind": "c06-ctor-grid", "constructor": if reloadable { "new_with_reloadable_tls" } else { "new" }, "configured_password": pw, "presented_password": cand});
                rep.case(Some(hash_str(&case.to_string())));
                rep.add("e2e_constructor_password_probes", 1);
                match r {
                    Err(e) => rep.inconclusive(format!("constructor grid: {e}")),
                    Ok(got) => {
                        let answered = !got.is_empty();
                        if good && !(dialled && accepted) {
                            rep.violate("auth", &format!("e2e_{}_password_with_blank_ends", if reloadable { "reloadable_tls_server" } else { "plain_server" }), "right_password_got_no_session", format!("server configured with password {pw:?}: a client presenting the hash of exactly that password got no session (dialled={dialled}, target accepted={accepted}, {} reply bytes)", got.len()), case);
                        } else if !good && (dialled || accepted || answered) {
                            rep.violate("auth", &format!("e2e_{}_password_with_blank_ends", if reloadable { "reloadable_tls_server" } else { "plain_server" }), "session_without_password", format!("server configured with password {pw:?}: the hash of {cand:?} was accepted (dialled={dialled}, target accepted={accepted}, {} reply bytes)", got.len()), case);
                        }
                    }
                }
            }
            h.abort();
        }
    }
}

pub fn run_e2e(ctx: Ctx) -> Report {
    use crate::netkit::{self, Target};
    use crate::refcodec;
    use anytls_rs::verif::Event;
    use std::net::{Ipv4Addr, SocketAddr};
    let quick = ctx.tier == crate::report::Tier::Quick;
    let seed = ctx.seed;
    run::case_begin("C06 e2e");
    let mut rep = run::rt_block_on(8, async move {
        let mut rep = Report::new("C06");
        let Some((server_addr, _sh)) = netkit::start_server(netkit::PASSWORD, engine::default_padding()).await else {
            rep.inconclusive("cannot start server");
            return rep;
        };
        let Some(mut target) = Target::bind_v4(0).await else {
            rep.inconclusive("cannot bind target");
            return rep;
        };
        let tport = target.port;
        let accepts = target.accepts.clone();
        tokio::spawn(async move {
            while let Some(a) = target.rx.recv().await {
                netkit::spawn_echo(a.stream);
            }
        });
        let right: [u8; 32] = Sha256::digest(netkit::PASSWORD.as_bytes()).into();
        let mut rng = Rng::new(seed ^ 0xE06);
        // (label, hash or None for truncation, cut of the preamble, good?)
        let mut cases: Vec<(&'static str, Vec<u8>, bool)> = Vec::new();
        let pre = |h: &[u8; 32], l: usize| {
            let mut p = h.to_vec();
            p.extend_from_slice(&(l as u16).to_be_bytes());
            p.extend(std::iter::repeat_n(0u8, l));
            p
        };
        let n_each = if quick { 6 } else { 80 };
        for i in 0..n_each {
            let mut h = right;
            let bit = rng.below(256) as usize;
            h[bit / 8] ^= 1 << (bit % 8);
            cases.push(("single_bit_flip", pre(&h, rng.usize(0, 60)), false));
            let mut h2 = right;
            h2[31] = h2[31].wrapping_add(1 + (i as u8 % 200));
            cases.push(("last_byte_differs", pre(&h2, 30), false));
            let rel: [u8; 32] = Sha256::digest(format!("{}{}", netkit::PASSWORD, ["", " ", "x", "\n"][i % 4 + if i % 4 == 0 { 1 } else { 0 }.min(3)]).as_bytes()).into();
            if rel != right {
                cases.push(("hash_of_related_password", pre(&rel, 30), false));
            }
            let full = pre(&right, 40);
            let cut = rng.usize(0, full.len() - 1);
            cases.push(("truncated_valid_preamble", full[..cut].to_vec(), false));
            cases.push(("valid", pre(&right, *rng.pick(&[0usize, 1, 30, 255, 256, 4000, 65535])), true));
        }
        // peers that stall with an incomplete preamble (never the complete right hash) and then talk like a session:
        // waiting does not authenticate anybody, however long (a time limit on the preamble must end the
        // connection, not wave it through). Stall lengths in seconds; encoded in the label.
        let stalls: &[(&'static str, u64)] = if quick { &[("stalled_6s", 6500)] } else { &[("stalled_6s", 6500), ("stalled_12s", 12_000), ("stalled_31s", 31_000), ("stalled_62s", 62_000)] };
        for (label, _) in stalls {
            cases.push((label, Vec::new(), false));
            cases.push((label, right[..rng.usize(1, 31)].to_vec(), false));
            let mut wrong = right;
            wrong[rng.usize(0, 31)] ^= 0x40;
            let mut p = wrong.to_vec();
            p.extend_from_slice(&100u16.to_be_bytes());
            p.extend_from_slice(&[0u8; 10]);
            cases.push((label, p, false));
            cases.push((label, wrong[..20].to_vec(), false));
        }
        let stall_ms = |label: &str| stalls.iter().find(|(l, _)| *l == label).map(|(_, ms)| *ms);
        let before = anytls_rs::verif::event_count();
        let mut uniq = 0u32;
        let results = std::sync::Arc::new(std::sync::Mutex::new(Vec::new()));
        let mut set = tokio::task::JoinSet::new();
        for (label, preamble, good) in cases {
            uniq += 1;
            let ip = netkit::uniq_ip(44, uniq);
            let server_addr = server_addr.clone();
            let results = results.clone();
            let stall = stall_ms(label);
            set.spawn(async move {
                use tokio::io::{AsyncReadExt, AsyncWriteExt};
                let r: Result<(Vec<u8>, bool), String> = async {
                    let mut tls = netkit::raw_tls_connect(&server_addr).await?;
                    // the preamble, then a perfectly valid session: Settings, SYN, destination, data
                    let mut after = Vec::new();
                    after.extend_from_slice(&refcodec::encode(refcodec::SETTINGS, 0, &engine::settings_payload("x")));
                    after.extend_from_slice(&refcodec::encode(refcodec::SYN, 1, &[]));
                    let mut dest = vec![1u8];
                    dest.extend_from_slice(&ip.octets());
                    dest.extend_from_slice(&tport.to_be_bytes());
                    after.extend_from_slice(&refcodec::encode(refcodec::PSH, 1, &dest));
                    after.extend_from_slice(&refcodec::encode(refcodec::PSH, 1, b"hello target"));
                    tls.write_all(&preamble).await.map_err(|e| e.to_string())?;
                    let _ = tls.flush().await;
                    if let Some(ms) = stall {
                        tokio::time::sleep(Duration::from_millis(ms)).await;
                    }
                    if label != "truncated_valid_preamble" {
                        let _ = tls.write_all(&after).await;
                    }
                    let _ = tls.flush().await;
                    if label == "truncated_valid_preamble" {
                        let _ = tls.shutdown().await;
                    }
                    // whatever the server says in plaintext, and whether it closes
                    let mut got = Vec::new();
                    let mut buf = [0u8; 4096];
                    let closed = tokio::time::timeout(Duration::from_secs(if good { 2 } else { 6 }), async {
                        loop {
                            match tls.read(&mut buf).await {
                                Ok(0) | Err(_) => return true,
                                Ok(n) => got.extend_from_slice(&buf[..n]),
                            }
                        }
                    })
                    .await
                    .unwrap_or(false);
                    Ok((got, closed))
                }
                .await;
                results.lock().unwrap().push((label, good, ip, r));
            });
        }
        while set.join_next().await.is_some() {}
        tokio::time::sleep(Duration::from_millis(300)).await;
        let events: Vec<Event> = anytls_rs::verif::events().into_iter().skip(before).collect();
        let acc = accepts.lock().unwrap().clone();
        let results = results.lock().unwrap().clone();
        for (label, good, ip, r) in results {
            let dest = SocketAddr::new(ip.into(), tport);
            let case = json!({"kind": "c06-e2e", "preamble": label, "target": dest.to_string()});
            rep.case(Some(hash_str(&case.to_string())));
            rep.add("e2e_connections", 1);
            let dialled = events.iter().any(|e| matches!(e, Event::Dial { addr, .. } if *addr == dest));
            let decoded = events.iter().any(|e| matches!(e, Event::Destination { host, .. } if *host == ip.to_string()));
            let accepted = acc.iter().any(|(a, _)| *a == dest);
            match r {
                Err(e) => rep.inconclusive(format!("{label}: {e}")),
                Ok((got, closed)) => {
                    if good {
                        rep.add("e2e_positive_controls", 1);
                        let (frames, _) = refcodec::parse_all(&got);
                        if !dialled || !accepted || !frames.iter().any(|f| f.cmd == refcodec::SYNACK && f.sid == 1 && f.data.is_empty()) {
                            rep.violate("auth", "e2e_valid_preamble", "right_password_got_no_session", format!("valid preamble: dialled={dialled} accepted={accepted} frames received: {:?}", frames.iter().map(|f| f.brief()).collect::<Vec<_>>()), case);
                        }
                    } else {
                        rep.add("e2e_bad_preambles", 1);
                        if dialled || accepted || decoded {
                            rep.violate("auth", &format!("e2e_{label}"), "session_without_password", format!("a connection with a {label} preamble was treated as a session: destination decoded={decoded}, dialled={dialled}, target accepted={accepted}"), case.clone());
                        }
                        if !got.is_empty() {
                            rep.violate("auth", &format!("e2e_{label}"), "protocol_reply_without_password", format!("the server answered {} plaintext bytes to a {label} preamble", got.len()), case.clone());
                        }
                        if label.starts_with("stalled") {
                            rep.add("e2e_stalled_preambles", 1);
                        }
                        if !closed && !label.starts_with("stalled") {
                            rep.violate("auth", &format!("e2e_{label}"), "connection_left_open", format!("the server did not close the connection within 6 s after a {label} preamble"), case);
                        }
                    }
                }
            }
        }
        constructor_password_grid(&mut rep, tport, accepts.clone()).await;
        rep
    });
    for p in run::panic_log() {
        if !run::is_harness_panic(&p) {
            rep.violate("auth", "any", "panic", p, json!({}));
        }
    }
    run::case_end();
    rep
}
