//! C04 — padding is invisible to the payload and keeps the wire well-formed.

use super::pad::{self, PadCase, PadObs};
use crate::prng::Rng;
use crate::refcodec::{self, RFrame};
use crate::refscheme::{self, Entry, GenCfg, Scheme};
use crate::report::{CheckMeta, Report, Tier, hash_str};
use crate::run::{self, Ctx};
use serde_json::json;
use std::collections::BTreeMap;

fn size_class(s: &Scheme) -> &'static str {
    let m = s.max_size();
    if m >= (1 << 31) {
        "size_ge_2^31"
    } else if m > 65535 {
        "size_gt_65535"
    } else {
        "size_le_65535"
    }
}

/// the C04 oracle over one observed case
pub fn judge(case: &PadCase, obs: &PadObs, rep: &mut Report) {
    let cause = size_class(&case.scheme);
    if let Some(e) = &obs.preamble_error {
        rep.violate("padding", cause, "sender_error", format!("send_authentication failed for an accepted scheme: {e}"), case.describe());
    }
    if let Some(s) = &obs.stuck {
        rep.violate("padding", cause, "sender_blocked", s.clone(), case.describe());
        return;
    }
    for (i, p) in obs.packets.iter().enumerate() {
        if let Some(e) = &p.error {
            rep.violate("padding", cause, "sender_error", format!("session packet {} ({} payload bytes): write returned an error for an accepted scheme: {e}", i + 1, p.payload_len), case.describe());
            return;
        }
    }
    let (frames, consumed) = refcodec::parse_all(&obs.wire);
    rep.add("frames_parsed", frames.len() as u64);
    rep.add("wire_bytes", obs.wire.len() as u64);
    if consumed != obs.wire.len() {
        let at = frames.last().map(|f| f.off + f.total()).unwrap_or(0);
        rep.violate(
            "padding",
            cause,
            "wire_not_whole_frames",
            format!("the recorded client->server bytes stop parsing as frames at offset {at} of {} ({} trailing bytes); last frames: {:?}", obs.wire.len(), obs.wire.len() - consumed, frames.iter().rev().take(3).map(|f| f.brief()).collect::<Vec<_>>()),
            case.describe(),
        );
        return;
    }
    let sent: Vec<&RFrame> = obs.packets.iter().flat_map(|p| p.frames.iter()).collect();
    let got: Vec<&RFrame> = frames.iter().filter(|f| !f.is_padding()).collect();
    rep.add("padding_frames_seen", (frames.len() - got.len()) as u64);
    rep.add("payload_frames_compared", got.len() as u64);
    if sent.len() != got.len() {
        rep.violate("padding", cause, "frame_count_differs", format!("{} frames submitted, {} non-padding frames on the wire", sent.len(), got.len()), case.describe());
        return;
    }
    for (i, (s, g)) in sent.iter().zip(got.iter()).enumerate() {
        let same = if s.cmd == refcodec::SETTINGS {
            let m = refcodec::parse_settings(&g.data);
            let mut want = BTreeMap::new();
            want.insert("v".to_string(), "2".to_string());
            want.insert("client".to_string(), "anytls-rs/0.1.0".to_string());
            want.insert("padding-md5".to_string(), obs.settings_md5.clone().unwrap_or_default());
            g.cmd == refcodec::SETTINGS && g.sid == 0 && m == want
        } else {
            s.cmd == g.cmd && s.sid == g.sid && s.data == g.data
        };
        if !same {
            rep.violate("padding", cause, "payload_frame_altered", format!("non-padding frame #{i} on the wire is {} but {} was submitted (content differs: {})", g.brief(), s.brief(), s.data != g.data), case.describe());
            return;
        }
    }
    // padding frames must be inert: stream id 0 is what the protocol prescribes; contents are not judged
}

fn huge_scheme(rng: &mut Rng) -> Scheme {
    let vals: [u64; 9] = [1 << 31, (1 << 31) + 5, (1u64 << 32) - 1, 1 << 32, (1u64 << 32) + 100, 1 << 40, 1 << 62, i64::MAX as u64, 3_000_000_000];
    let mut lines = BTreeMap::new();
    lines.insert(0, vec![Entry::Range { lo: 30, hi: 30, reversed: false }]);
    for k in 1..4 {
        let v = *rng.pick(&vals);
        let e = if rng.chance(0.5) { Entry::Range { lo: v, hi: v, reversed: false } } else { Entry::Range { lo: rng.range(1, 1000), hi: v, reversed: rng.chance(0.3) } };
        lines.insert(k, if rng.chance(0.5) { vec![e] } else { vec![Entry::Range { lo: 10, hi: 20, reversed: false }, Entry::Check, e] });
    }
    Scheme { stop: 4, lines, spaced: false }
}

/// run in a memory-capped sub-process: only "no panic / abort / hang" is judged there
pub fn child_huge(seed: u64) -> i32 {
    crate::run::install_panic_monitor();
    let mut rng = Rng::new(seed);
    let scheme = huge_scheme(&mut rng);
    let ops = pad::gen_ops(&mut rng, 4, 2000, &[]);
    let case = PadCase { seed, scheme, pre_opens: 0, ops, password: "pw".into() };
    let c2 = case.clone();
    let obs = std::panic::catch_unwind(move || pad::run_case(&c2)).unwrap_or_default();
    let panics = crate::run::panic_log();
    let out = json!({"scheme": case.scheme.text(), "panics": panics, "stuck": obs.stuck, "errors": obs.packets.iter().filter_map(|p| p.error.clone()).collect::<Vec<_>>(), "packets": obs.packets.len()});
    println!("CHILD-RESULT {out}");
    0
}

fn run_huge_probe(seed: u64, rep: &mut Report) {
    let exe = std::env::current_exe().expect("exe");
    let out = std::process::Command::new("sh").arg("-c").arg(format!("ulimit -v 6000000; exec '{}' child pad-huge {}", exe.display(), seed)).output();
    rep.case(Some(hash_str(&format!("huge:{seed}"))));
    rep.add("huge_size_probes", 1);
    let case = json!({"kind": "pad-huge", "seed": seed.to_string()});
    match out {
        Err(e) => rep.inconclusive(format!("cannot start sub-process: {e}")),
        Ok(o) => {
            let text = String::from_utf8_lossy(&o.stdout);
            let line = text.lines().find_map(|l| l.strip_prefix("CHILD-RESULT "));
            match line.and_then(|l| serde_json::from_str::<serde_json::Value>(l).ok()) {
                None => {
                    let err = String::from_utf8_lossy(&o.stderr);
                    rep.violate("padding", "size_ge_2^31", "abort", format!("sender process died (status {:?}) with a scheme size >= 2^31: {}", o.status.code(), err.lines().last().unwrap_or("")), case);
                }
                Some(v) => {
                    let scheme = v.get("scheme").and_then(|x| x.as_str()).unwrap_or("").to_string();
                    if let Some(p) = v.get("panics").and_then(|x| x.as_array())
                        && let Some(first) = p.iter().filter_map(|x| x.as_str()).find(|l| !run::is_harness_panic(l))
                    {
                        rep.violate("padding", "size_ge_2^31", "panic", format!("panic in the sender with scheme {:?}: {first}", scheme), case.clone());
                    }
                    if let Some(s) = v.get("stuck").and_then(|x| x.as_str()) {
                        rep.violate("padding", "size_ge_2^31", "sender_blocked", format!("{s} (scheme {:?})", scheme), case.clone());
                    }
                    if let Some(e) = v.get("errors").and_then(|x| x.as_array())
                        && let Some(first) = e.first()
                    {
                        rep.violate("padding", "size_ge_2^31", "sender_error", format!("write failed with scheme {:?}: {first}", scheme), case);
                    }
                }
            }
        }
    }
}


// ---------------------------------------------------------------------------
// a transport that stalls in the middle of a padded packet while the session's own keep-alive task and a data
// writer are active, then recovers: whatever the session does about the stall (wait, give up and close), the bytes
// it has put on the transport must stay a sequence of whole frames carrying exactly what was submitted

/// returns (problem, payload frames checked)
async fn stalled_transport_case(interval_ms: u64, timeout_ms: u64, stall_at_packet: usize, stall_ms: u64, pad_size: u64, writer_idle: bool, lead: u64, seed: u64) -> (Option<(String, String)>, u64) {
    use crate::engine::{self, PairCfg};
    use crate::mempipe::{PipeCfg, ReadFault};
    use crate::prng::Pattern;
    use bytes::Bytes;
    use std::time::Duration;
    let mut text = String::from("stop=60\n0=30-30");
    for k in 1..60 {
        text.push_str(&format!("\n{k}={pad_size}-{pad_size}"));
    }
    let padding = engine::padding_from(&text).expect("scheme");
    let hb = anytls_rs::session::SessionHeartbeatConfig { interval: Duration::from_millis(interval_ms), timeout: Duration::from_millis(timeout_ms) };
    let mut pair = engine::make_pair(PairCfg { c2s: PipeCfg { capacity: 256, ..PipeCfg::plain() }, s2c: PipeCfg::plain(), client_padding: padding.clone(), server_padding: padding, heartbeat: Some(hb) }).await;
    // server side: drain the stream
    let received = std::sync::Arc::new(std::sync::Mutex::new(Vec::<u8>::new()));
    {
        let received = received.clone();
        let mut ns = std::mem::replace(&mut pair.new_streams, tokio::sync::mpsc::unbounded_channel().1);
        tokio::spawn(async move {
            while let Some(st) = ns.recv().await {
                let received = received.clone();
                tokio::spawn(async move {
                    let mut buf = vec![0u8; 4096];
                    loop {
                        let n = {
                            let mut g = st.reader().lock().await;
                            match g.read(&mut buf).await {
                                Ok(0) | Err(_) => break,
                                Ok(n) => n,
                            }
                        };
                        received.lock().unwrap().extend_from_slice(&buf[..n]);
                    }
                });
            }
        });
    }
    let Ok((st, _rx)) = engine::open_like_client(&pair.client, Bytes::from_static(b"destination")).await else { return (Some(("setup".into(), "open failed".into())), 0) };
    let pat = Pattern::new(seed, 1, 0);
    let mut submitted: Vec<u8> = b"destination".to_vec();
    let mut off = 0u64;
    let client = pair.client.clone();
    let c2s = pair.c2s.clone();
    // the stall: the peer stops draining for stall_ms, starting right after data packet `stall_at_packet` was submitted
    let mut write_failed = false;
    for k in 0..8usize {
        if k == stall_at_packet {
            // the stall begins `lead` bytes further on: the head of the next packet (a keep-alive request frame, say)
            // still gets through and may be answered while the rest of that packet is stuck
            c2s.set_read_fault(c2s.delivered() + lead, ReadFault::BlackHole);
            if writer_idle {
                // nobody but the session's own tasks writes during the stall (a keep-alive request starts its packet,
                // fills what room the transport has, and waits in the middle of it)
                tokio::time::sleep(Duration::from_millis(stall_ms)).await;
                c2s.clear_read_fault();
            } else {
                let c2 = c2s.clone();
                tokio::spawn(async move {
                    tokio::time::sleep(Duration::from_millis(stall_ms)).await;
                    c2.clear_read_fault();
                });
            }
        }
        let n = 50 + 37 * k;
        let data = pat.make(off, n);
        match tokio::time::timeout(Duration::from_secs(3600), client.write_data_frame(st.id(), Bytes::from(data.clone()))).await {
            Ok(Ok(())) => {
                submitted.extend_from_slice(&data);
                off += n as u64;
            }
            _ => {
                // the session gave up on the stalled peer (allowed): nothing more is submitted
                write_failed = true;
                submitted.extend_from_slice(&data); // may or may not have reached the wire: a prefix check below
                break;
            }
        }
        tokio::time::sleep(Duration::from_millis(interval_ms / 3)).await;
    }
    tokio::time::sleep(Duration::from_millis(stall_ms + 2 * timeout_ms + 1000)).await; // stall over, everything drained
    let wire = pair.c2s.log().bytes;
    let (frames, consumed) = refcodec::parse_all(&wire);
    let closed = pair.client.is_closed();
    if consumed != wire.len() && !closed {
        return (Some(("wire_not_whole_frames".into(), format!("the session is still open but its output stops parsing as frames at offset {consumed} of {} (keep-alive interval {interval_ms} ms, timeout {timeout_ms} ms, packets padded to {pad_size}, peer stalled for {stall_ms} ms at data packet {stall_at_packet})", wire.len()))), 0);
    }
    let payload: Vec<u8> = frames.iter().filter(|f| f.cmd == refcodec::PSH && f.sid == st.id()).flat_map(|f| f.data.clone()).collect();
    let unexpected = frames.iter().find(|f| !f.is_padding() && ![refcodec::SETTINGS, refcodec::SYN, refcodec::PSH, refcodec::HEART_REQ, refcodec::HEART_RESP, refcodec::FIN].contains(&f.cmd));
    if let Some(f) = unexpected {
        return (Some(("unexpected_frame_on_wire".into(), format!("frame {} was never submitted", f.brief()))), 0);
    }
    let ok = if write_failed || closed { submitted.starts_with(&payload) } else { payload == submitted };
    if !ok {
        let at = payload.iter().zip(submitted.iter()).position(|(a, b)| a != b).unwrap_or(payload.len().min(submitted.len()));
        return (Some(("payload_frames_differ_from_submission".into(), format!("{} payload bytes were submitted, the wire carries {} for the stream and differs at byte {at} (session closed: {closed}; keep-alive interval {interval_ms} ms, timeout {timeout_ms} ms, padding {pad_size}, stall {stall_ms} ms at packet {stall_at_packet})", submitted.len(), payload.len()))), 0);
    }
    if !closed && !write_failed {
        let have = received.lock().unwrap().clone();
        if have != submitted {
            return (Some(("payload_lost_at_peer".into(), format!("the peer stream received {} of {} submitted bytes", have.len(), submitted.len()))), 0);
        }
    }
    (None, frames.iter().filter(|f| f.cmd == refcodec::PSH).count() as u64)
}

fn run_stalled(rep: &mut Report, rng: &mut Rng, n: usize) {
    run_stalled_as(rep, rng, n, "padding")
}

/// the same workload judged for another property (C11: every frame reaches the transport contiguously, whoever else
/// is writing — here the session's own keep-alive task — and whatever the transport does meanwhile)
pub fn run_stalled_as(rep: &mut Report, rng: &mut Rng, n: usize, class: &str) {
    for i in 0..n {
        let interval_ms = *rng.pick(&[500u64, 1000, 2000]);
        let timeout_ms = interval_ms * *rng.pick(&[1u64, 3, 6]);
        // mostly stalls that last longer than one keep-alive interval and end before the keep-alive timeout
        let stall_ms = match rng.below(6) {
            0 => interval_ms / 2,
            1 | 2 => rng.range(timeout_ms, timeout_ms + 2 * interval_ms),
            _ if timeout_ms > interval_ms + 200 => rng.range(interval_ms + 50, timeout_ms - 50),
            _ => interval_ms + interval_ms / 2,
        };
        let lead = *rng.pick(&[0u64, 0, 8, 64, 200]);
        let pad_size = *rng.pick(&[300u64, 1000, 3000]);
        let at = rng.usize(0, 6);
        let writer_idle = rng.chance(0.7);
        let seed = rng.next();
        run::case_begin(&format!("C04 stalled transport {i}"));
        let r = run::vt_block_on_deadline(std::time::Duration::from_secs(1_000_000), async move { stalled_transport_case(interval_ms, timeout_ms, at, stall_ms, pad_size, writer_idle, lead, seed).await });
        let case = json!({"kind": "c04-stalled", "interval_ms": interval_ms, "timeout_ms": timeout_ms, "stall_ms": stall_ms, "pad_size": pad_size, "stall_at_packet": at, "data_writer_idle_during_stall": writer_idle, "stall_begins_bytes_ahead": lead, "seed": seed.to_string()});
        rep.case(Some(hash_str(&case.to_string())));
        rep.add("stalled_transport_cases", 1);
        match r {
            None => rep.violate(class, "stalled_transport+keep_alive", "case_stuck", "the case did not finish".to_string(), case.clone()),
            Some((Some((sym, det)), _)) if sym == "setup" => rep.inconclusive(det),
            Some((Some((sym, det)), _)) => rep.violate(class, "stalled_transport+keep_alive", &sym, det, case.clone()),
            Some((None, frames)) => rep.add("stalled_transport_payload_frames_checked", frames),
        }
        for p in run::take_thread_panics() {
            if !run::is_harness_panic(&p) {
                rep.violate(class, "stalled_transport+keep_alive", "panic", p, case.clone());
            }
        }
    }
}

pub fn run(ctx: Ctx) -> Report {
    let n_cases: usize = ctx.tier.pick(320_000, 4_000_000);
    let mut total = run::run_sharded("C04", ctx.shards, move |shard, nshards, rep| {
        let mut rng = Rng::new(ctx.seed.wrapping_mul(0x51F1).wrapping_add(shard as u64) ^ 0xC04);
        for i in 0..n_cases / nshards {
            let big = i % 3 != 2;
            let cfg = GenCfg { max_size: if big { 200_000 } else { 4000 }, boundary_heavy: big, allow_junk: true, sane_line0: false };
            let mut scheme = refscheme::gen_scheme(&mut rng, &cfg);
            // two sampled sizes in (200000, 2^31): each packet allocates that much
            if i % 40000 == 7 {
                let v = if i % 80000 == 7 { 1_000_000 } else { 16_777_216 };
                scheme.lines.insert(1, vec![Entry::Range { lo: v, hi: v, reversed: false }]);
                scheme.stop = scheme.stop.max(2);
            }
            let hints: Vec<u64> = scheme.lines.values().flatten().filter_map(|e| if let Entry::Range { lo, hi, .. } = e { Some(rng.range(*lo, *hi)) } else { None }).collect();
            let nops = rng.usize(1, scheme.stop as usize + 4);
            let max_len = if scheme.max_size() > 300_000 { 2000 } else { 65535 };
            let ops = pad::gen_ops(&mut rng, nops, max_len, &hints);
            let case = PadCase { seed: rng.next(), scheme, pre_opens: if rng.chance(0.25) { rng.usize(1, 3) } else { 0 }, ops, password: "pw".into() };
            run::case_begin(&format!("C04 shard {shard} case {i}"));
            let obs = pad::run_case(&case);
            let nontrivial = obs.packets.iter().any(|p| p.writes.len() > 1 || p.writes.first().is_some_and(|w| *w != p.payload_len));
            rep.case(if nontrivial { Some(hash_str(&format!("{}|{:?}", case.scheme.text(), obs.packets.iter().map(|p| p.payload_len).collect::<Vec<_>>()))) } else { None });
            rep.add("packets", obs.packets.len() as u64);
            rep.seen("size_classes", size_class(&case.scheme));
            rep.max("max_scheme_size", case.scheme.max_size());
            judge(&case, &obs, rep);
            for p in run::take_thread_panics() {
                if run::is_harness_panic(&p) {
                    rep.inconclusive(format!("harness panic: {p}"));
                } else {
                    rep.violate("padding", size_class(&case.scheme), "panic", format!("panic while sending: {p}"), case.describe());
                }
            }
            if shard == 0 && i < 3 {
                rep.sample(json!({"scheme": case.scheme.text(), "packets": obs.packets.iter().map(|p| json!({"payload": p.payload_len, "writes": p.writes})).collect::<Vec<_>>()}));
            }
        }
        run_stalled(rep, &mut rng, ctx.tier.pick(640, 16_000) / nshards);
        run::case_end();
    });
    // sizes in [2^31, 2^63): memory-capped sub-process probes
    for k in 0..ctx.tier.pick(6, 40) {
        run_huge_probe(ctx.seed.wrapping_mul(977).wrapping_add(k), &mut total);
    }
    total
}

pub fn meta() -> CheckMeta {
    CheckMeta {
        level: "exploration",
        rule: "each case = a generated padding scheme (any stop, 0-12 entries per line, check marks anywhere, ranges of one, reversed ranges, skipped junk entries, missing lines, sizes 1..200000 weighted to 65528-65550 and multiples of 65535, plus 1000000 and 16777216 in the thorough tier) on a real client Session after the real send_authentication, a single submitter issuing opens / data frames (0..65535 bytes, sized around the scheme's own sizes) / keep-alives for stop+4 packets; the complete recorded client->server byte stream is parsed by the reference codec (must consume every byte) and, with command-0 frames deleted, compared frame by frame with the submission log (Settings as a key/value set). Sizes in [2^31,2^63) run in memory-capped sub-processes where only panic/abort/hang/error is judged. distinct_nontrivial = distinct (scheme text, payload sizes) in which at least one packet was actually shaped (split or padded). Stalled transports: a client Session with its keep-alive task (interval 0.5-2 s, timeout 1-6 intervals), every packet padded to 300-3000 bytes, an outbound pipe of 256 bytes whose reader stops draining for a while (mostly longer than one interval and shorter than the timeout) with the data writer idle or in mid-packet, then recovers: at quiescence the recorded wire must still be whole frames, carry no frame that was not submitted (any number of keep-alive requests), and the stream's payload frames must equal the submitted bytes (a prefix of them if the session gave up and closed).".into(),
        assumptions: vec!["single submitter (C11 handles concurrency)".into(), "sizes in (200000, 2^31) sampled at two values only".into(), "payload per data frame <= 65535 (larger chunks are C01's business)".into()],
        floors: vec![("packets", 1500), ("padding_frames_seen", 300), ("payload_frames_compared", 2000), ("huge_size_probes", 4), ("stalled_transport_cases", 300)],
        exhaustive: false,
    }
}
