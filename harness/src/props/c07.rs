//! C07 — traffic goes to exactly the destination that was requested.
//! Real Client -> real Server over loopback TLS; the server-side hook events
//! `Destination` / `Dial` / `UdpTarget` show what was decoded and dialled for
//! arbitrary (non-listenable) addresses, loopback targets confirm by accept.

use crate::engine;
use crate::netkit::{self, SocksDest, Target};
use crate::prng::Rng;
use crate::refcodec;
use crate::report::{CheckMeta, Report, hash_str};
use crate::run::{self, Ctx};
use anytls_rs::server::{StreamHandler, TcpProxyHandler};
use anytls_rs::verif::Event;
use serde_json::{Value, json};
use std::net::{IpAddr, Ipv4Addr, Ipv6Addr, SocketAddr};
use std::sync::{Arc, Mutex};
use std::time::Duration;
use tokio::io::{AsyncReadExt, AsyncWriteExt};

#[derive(Clone, Debug)]
pub enum Via {
    Api,
    Socks5,
    FragmentedHeader(Vec<usize>),
    /// through the HTTP front-end: 0 = CONNECT authority, 1 = absolute URI with a matching Host header,
    /// 2 = absolute URI with a Host header naming somebody else (the URI decides), 3 = origin-form + Host
    Http(u8),
}

#[derive(Clone, Debug)]
pub struct Req {
    pub host: String,
    pub port: u16,
    pub via: Via,
}

impl Req {
    fn describe(&self) -> Value {
        json!({"kind": "c07", "host": self.host, "host_len": self.host.len(), "port": self.port, "via": format!("{:?}", self.via)})
    }
    /// where the server must dial
    pub fn expected(&self) -> SocketAddr {
        match self.host.parse::<IpAddr>() {
            Ok(ip) => SocketAddr::new(ip, self.port),
            Err(_) => SocketAddr::new(IpAddr::V4(netkit::name_to_v4(&self.host)), self.port),
        }
    }
    fn class(&self) -> &'static str {
        match self.host.parse::<IpAddr>() {
            Ok(IpAddr::V4(_)) => "ipv4_literal",
            Ok(IpAddr::V6(_)) => "ipv6_literal",
            Err(_) => "domain_name",
        }
    }
}

fn gen_name(rng: &mut Rng, len: usize, tag: u64) -> String {
    // labels <= 63, total length exactly `len`, unique through the tag
    let alphabet = b"abcdefghijklmnopqrstuvwxyz0123456789";
    let mut s = String::new();
    let t = format!("{tag:x}");
    let mut label = 0;
    while s.len() < len {
        if label == 63 || (label > 0 && rng.chance(0.1) && len - s.len() > 2) {
            s.push('.');
            label = 0;
            continue;
        }
        let idx = s.len();
        let c = if idx < t.len() { t.as_bytes()[idx] } else { *rng.pick(alphabet) };
        s.push(c as char);
        label += 1;
    }
    if s.ends_with('.') {
        s.pop();
        s.push('x');
    }
    if s.parse::<IpAddr>().is_ok() {
        s.replace_range(0..1, "h");
    }
    s
}

fn gen_port(rng: &mut Rng, target_port: u16) -> u16 {
    match rng.below(12) {
        0 => 0,
        1 => 1,
        2 => 255,
        3 => 256,
        4 => 443,
        5 => 32767,
        6 => 32768,
        7 => 65535,
        8 | 9 => target_port,
        _ => rng.range(1, 65535) as u16,
    }
}

pub fn gen_req(rng: &mut Rng, i: usize, target_port: u16, v6_port: u16, via: Via) -> Req {
    let port = gen_port(rng, target_port);
    let host = match i % 9 {
        0 => Ipv4Addr::new(rng.range(1, 223) as u8, rng.below(256) as u8, rng.below(256) as u8, rng.below(256) as u8).to_string(),
        1 => Ipv4Addr::new(127, rng.below(256) as u8, rng.below(256) as u8, rng.range(1, 254) as u8).to_string(),
        2 => (*rng.pick(&["0.0.0.0", "255.255.255.255", "127.0.0.1", "1.0.0.0", "10.255.0.1"])).to_string(),
        3 => {
            let mut o = [0u8; 16];
            o.copy_from_slice(&rng.bytes(16));
            o[0] = 0x20 | (o[0] & 0x0F);
            Ipv6Addr::from(o).to_string()
        }
        4 => (*rng.pick(&["::", "::1", "::ffff:127.0.0.1", "::ffff:8.8.8.8", "fe80::1", "2001:db8::ff00:42:8329"])).to_string(),
        5 => {
            let l = rng.usize(1, 255);
            gen_name(rng, l, i as u64)
        }
        6 => {
            let l = *rng.pick(&[1usize, 2, 62, 63, 64, 127, 128, 253, 254, 255]);
            gen_name(rng, l, i as u64)
        }
        _ => {
            let l = rng.usize(4, 40);
            gen_name(rng, l, i as u64)
        }
    };
    // ::1 is reachable on its own port
    let port = if host == "::1" && rng.chance(0.5) { v6_port } else { port };
    Req { host, port, via }
}

struct World {
    client: Arc<anytls_rs::client::Client>,
    socks: String,
    http: String,
    target_port: u16,
    v6_port: u16,
    target_accepts: Arc<Mutex<Vec<(SocketAddr, tokio::time::Instant)>>>,
    v6_accepts: Arc<Mutex<Vec<(SocketAddr, tokio::time::Instant)>>>,
    _keep: Vec<tokio::task::JoinHandle<()>>,
}

async fn issue(w: &World, r: &Req) -> Result<String, String> {
    match &r.via {
        Via::Api => match tokio::time::timeout(Duration::from_secs(40), w.client.create_proxy_stream((r.host.clone(), r.port))).await {
            Ok(Ok((_st, sess))) => {
                // the monitor does not use the tunnel: end the session so that its sockets are freed
                let _ = tokio::time::timeout(Duration::from_secs(5), sess.close()).await;
                Ok("open_ok".into())
            }
            Ok(Err(e)) if e.to_string().contains("os error 24") => Err(format!("file descriptors exhausted: {e}")),
            Ok(Err(e)) => Ok(format!("open_err:{e}")),
            Err(_) => Err("create_proxy_stream did not return in 40 s".into()),
        },
        Via::Socks5 => {
            let dest = match r.host.parse::<IpAddr>() {
                Ok(IpAddr::V4(ip)) => SocksDest::V4(ip, r.port),
                Ok(IpAddr::V6(ip)) => SocksDest::V6(ip, r.port),
                Err(_) => SocksDest::Name(r.host.clone(), r.port),
            };
            match netkit::socks5_connect(&w.socks, &dest, Duration::from_secs(40)).await {
                Ok((_s, code)) => Ok(format!("socks_reply:{code}")),
                Err(e) => Ok(format!("socks_err:{e}")),
            }
        }
        Via::FragmentedHeader(cuts) => fragmented_header(r, cuts).await,
        Via::Http(kind) => {
            let authority = if r.host.contains(':') { format!("[{}]:{}", r.host, r.port) } else { format!("{}:{}", r.host, r.port) };
            let head = match kind {
                0 => format!("CONNECT {authority} HTTP/1.1\r\nHost: {authority}\r\n\r\n"),
                1 => format!("GET http://{authority}/c07 HTTP/1.1\r\nHost: {authority}\r\nAccept: */*\r\n\r\n"),
                2 => {
                    let other = ["decoy.c07.test:1", "127.250.250.250", "decoy.c07.test"][(r.port as usize) % 3];
                    format!("GET http://{authority}/c07 HTTP/1.1\r\nHost: {other}\r\nAccept: */*\r\n\r\n")
                }
                _ => format!("GET /c07 HTTP/1.1\r\nAccept: */*\r\nHost: {authority}\r\n\r\n"),
            };
            let r: Result<String, String> = async {
                let mut s = tokio::net::TcpStream::connect(&w.http).await.map_err(|e| e.to_string())?;
                s.write_all(head.as_bytes()).await.map_err(|e| e.to_string())?;
                let mut got = Vec::new();
                let mut buf = [0u8; 1024];
                let _ = tokio::time::timeout(Duration::from_secs(40), async {
                    while !got.windows(2).any(|x| x == b"\r\n") {
                        match s.read(&mut buf).await {
                            Ok(n) if n > 0 => got.extend_from_slice(&buf[..n]),
                            _ => break,
                        }
                    }
                })
                .await;
                Ok(format!("http:{}", String::from_utf8_lossy(&got).lines().next().unwrap_or("")))
            }
            .await;
            r
        }
    }
}

/// the real TcpProxyHandler on a server Session over a MemPipe; the destination header arrives
/// split over several PSH frames and arbitrary read pieces
async fn fragmented_header(r: &Req, cuts: &[usize]) -> Result<String, String> {
    use crate::mempipe::{Frag, PipeCfg};
    let mut rv = engine::raw_vs_server(PipeCfg { read_frag: Frag::Pool(vec![1, 2, 7, 8, 9, 30]), ..PipeCfg::plain() }, PipeCfg::plain(), engine::no_padding());
    let header = match r.host.parse::<IpAddr>() {
        Ok(IpAddr::V4(ip)) => SocksDest::V4(ip, r.port).encode(),
        Ok(IpAddr::V6(ip)) => SocksDest::V6(ip, r.port).encode(),
        Err(_) => SocksDest::Name(r.host.clone(), r.port).encode(),
    };
    rv.peer.send(refcodec::SETTINGS, 0, &engine::settings_payload("x")).await.map_err(|e| e.to_string())?;
    rv.peer.send(refcodec::SYN, 1, &[]).await.map_err(|e| e.to_string())?;
    let st = tokio::time::timeout(Duration::from_secs(10), rv.new_streams.recv()).await.map_err(|_| "stream not announced".to_string())?.ok_or("callback closed")?;
    let session = rv.server.clone();
    let h = tokio::spawn(async move {
        let handler = TcpProxyHandler::new();
        let _ = handler.handle_stream(st, session).await;
    });
    let mut pos = 0;
    let mut bounds: Vec<usize> = cuts.iter().copied().filter(|c| *c > 0 && *c < header.len()).collect();
    bounds.sort();
    bounds.dedup();
    bounds.push(header.len());
    for b in bounds {
        rv.peer.send(refcodec::PSH, 1, &header[pos..b]).await.map_err(|e| e.to_string())?;
        pos = b;
        tokio::task::yield_now().await;
    }
    // wait for the SYNACK (success or failure) — the dial has happened by then
    let f = tokio::time::timeout(Duration::from_secs(30), async {
        loop {
            match rv.peer.recv().await {
                Some(f) if f.cmd == refcodec::SYNACK => return Some(f),
                Some(_) => {}
                None => return None,
            }
        }
    })
    .await
    .ok()
    .flatten();
    h.abort();
    let _ = tokio::time::timeout(Duration::from_secs(2), rv.server.close()).await;
    Ok(match f {
        Some(f) if f.data.is_empty() => "synack_ok".into(),
        Some(f) => format!("synack_err:{}", String::from_utf8_lossy(&f.data)),
        None => "no_synack".into(),
    })
}

fn judge(rep: &mut Report, r: &Req, outcome: &Result<String, String>, events: &[Event], w_target: &[(SocketAddr, tokio::time::Instant)]) {
    let exp = r.expected();
    let key = format!("{}|{}", r.host, r.port);
    rep.case(Some(hash_str(&format!("{key}|{:?}", r.via))));
    rep.add(&format!("requests_{}", r.class()), 1);
    rep.add(&format!("requests_via_{}", match r.via { Via::Api => "api", Via::Socks5 => "socks5", Via::FragmentedHeader(_) => "fragmented_header", Via::Http(_) => "http_front_end" }), 1);
    if let Err(e) = outcome {
        rep.inconclusive(format!("{key}: {e}"));
        return;
    }
    if outcome.as_ref().is_ok_and(|o| o.contains("os error 24")) {
        rep.inconclusive(format!("{key}: file descriptors exhausted on the way ({:?})", outcome));
        return;
    }
    // the decoded destination (host string may be re-formatted for literals: compare parsed)
    let dest_ok = events.iter().any(|e| match e {
        Event::Destination { host, port, .. } => {
            *port == r.port
                && match (host.parse::<IpAddr>(), r.host.parse::<IpAddr>()) {
                    (Ok(a), Ok(b)) => a == b,
                    (Err(_), Err(_)) => *host == r.host,
                    _ => false,
                }
        }
        _ => false,
    });
    let dial_ok = events.iter().any(|e| matches!(e, Event::Dial { addr, .. } if *addr == exp));
    if dest_ok {
        rep.add("destinations_decoded_as_requested", 1);
    }
    // a name longer than 253 characters cannot be resolved by any resolver: only the decoding is judged
    if r.class() == "domain_name" && r.host.len() > 253 {
        if dest_ok {
            rep.add("unresolvable_long_names_decoded", 1);
        } else {
            rep.violate("destination", "domain_name_254_255", "destination_decoded_wrong_or_not_at_all", format!("the {}-byte domain name did not arrive at the server handler unchanged (outcome {:?})", r.host.len(), outcome), r.describe());
        }
        return;
    }
    if dial_ok {
        rep.add("dials_to_requested_address", 1);
        if exp.ip().is_loopback() && w_target.iter().any(|(a, _)| *a == exp) {
            rep.add("confirmed_by_loopback_accept", 1);
        }
        return;
    }
    // what did the server do instead?
    let same_host: Vec<String> = events
        .iter()
        .filter_map(|e| match e {
            Event::Destination { host, port, .. } if *host == r.host || host.parse::<IpAddr>().ok().is_some_and(|a| Some(a) == r.host.parse::<IpAddr>().ok()) => Some(format!("decoded {host}:{port}")),
            Event::Dial { addr, .. } if addr.ip() == exp.ip() => Some(format!("dialled {addr}")),
            _ => None,
        })
        .take(6)
        .collect();
    let sym = if !dest_ok { "destination_decoded_wrong_or_not_at_all" } else { "dialled_address_differs" };
    rep.violate(
        "destination",
        &format!("{}+{}", r.class(), match r.via { Via::Api => "api", Via::Socks5 => "socks5", Via::FragmentedHeader(_) => "fragmented_header", Via::Http(_) => "http_front_end" }),
        sym,
        format!("request for {}:{} (host length {}) must be dialled at {exp}; no such dial was observed (outcome {:?}); related events: {:?}", r.host, r.port, r.host.len(), outcome, same_host),
        r.describe(),
    );
}

async fn build_world() -> Option<World> {
    let (server_addr, sh) = netkit::start_server(netkit::PASSWORD, engine::default_padding()).await?;
    let client = netkit::make_client(&server_addr, netkit::PASSWORD, engine::default_padding(), netkit::quiet_pool());
    let (socks, kh) = netkit::start_socks5(client.clone()).await?;
    let (http, hh) = netkit::start_http(client.clone()).await?;
    let mut t4 = Target::bind_v4(0).await?;
    let mut t6 = Target::bind_v6_loopback(0).await?;
    let (target_port, v6_port) = (t4.port, t6.port);
    let (a4, a6) = (t4.accepts.clone(), t6.accepts.clone());
    let d4 = tokio::spawn(async move {
        while let Some(a) = t4.rx.recv().await {
            netkit::spawn_echo(a.stream);
        }
    });
    let d6 = tokio::spawn(async move {
        while let Some(a) = t6.rx.recv().await {
            netkit::spawn_echo(a.stream);
        }
    });
    Some(World { client, socks, http, target_port, v6_port, target_accepts: a4, v6_accepts: a6, _keep: vec![sh, kh, hh, d4, d6] })
}

/// cache histories through `resolve_host_with_cache` directly and through full requests
async fn cache_histories(rep: &mut Report, w: &World, rng: &mut Rng, n_hist: usize, cross_ttl: bool) {
    for h in 0..n_hist {
        let names: Vec<String> = (0..3).map(|k| format!("cache{h}x{k}.example.test")).chain(["localhost".to_string()]).collect();
        let len = rng.usize(3, 10);
        let mut history = Vec::new();
        for step in 0..len {
            let name = rng.pick(&names).clone();
            let port = *rng.pick(&[80u16, 443, 8080, w.target_port, 1, 65535]);
            let direct = rng.chance(0.5);
            history.push(format!("{}:{}{}", name, port, if direct { " (resolver)" } else { " (request)" }));
            rep.add("cache_history_steps", 1);
            if direct {
                match tokio::time::timeout(Duration::from_secs(20), anytls_rs::util::resolve_host_with_cache(&name, port)).await {
                    Ok(Ok(addr)) => {
                        let ip_ok = if name == "localhost" { addr.ip().is_loopback() } else { addr.ip() == IpAddr::V4(netkit::name_to_v4(&name)) };
                        if addr.port() != port || !ip_ok {
                            rep.violate("destination", "resolver_cache_history", if addr.port() != port { "stale_port_from_cache" } else { "wrong_address_from_cache" }, format!("resolve_host_with_cache({name}, {port}) returned {addr} after the history {:?}", history), json!({"kind": "c07-cache", "history": history}));
                            return;
                        }
                    }
                    Ok(Err(e)) => rep.inconclusive(format!("resolver error for {name}: {e}")),
                    Err(_) => rep.inconclusive(format!("resolver timeout for {name}")),
                }
            } else if name != "localhost" {
                let before = anytls_rs::verif::event_count();
                let r = Req { host: name.clone(), port, via: Via::Api };
                let out = issue(w, &r).await;
                let evs: Vec<Event> = anytls_rs::verif::events().into_iter().skip(before).collect();
                let exp = r.expected();
                let dialled: Vec<SocketAddr> = evs.iter().filter_map(|e| if let Event::Dial { addr, .. } = e { Some(*addr) } else { None }).collect();
                rep.case(Some(hash_str(&format!("hist{h}:{step}:{name}:{port}"))));
                if out.is_err() {
                    rep.inconclusive(format!("history request {name}:{port}: {:?}", out));
                } else if !dialled.contains(&exp) {
                    rep.violate(
                        "destination",
                        "request_history",
                        if dialled.iter().any(|a| a.ip() == exp.ip()) { "stale_port_dialled" } else { "wrong_address_dialled" },
                        format!("request for {name}:{port} after the history {:?} must be dialled at {exp}; observed dial(s): {:?}", history, dialled),
                        json!({"kind": "c07-cache", "history": history}),
                    );
                    return;
                } else {
                    rep.add("history_requests_dialled_correctly", 1);
                }
            }
        }
        if h == 0 {
            rep.sample(json!({"kind": "cache history", "steps": history}));
        }
    }
    // concurrent fills: overlapping lookups / requests for the SAME fresh name with different ports
    // (all miss the cache before any of them stores its answer); each must get its own port
    for h in 0..n_hist.max(20) {
        let name = format!("conc{h}.fill.example.test");
        let ports: Vec<u16> = (0..rng.usize(2, 4)).map(|k| 1000 + 7 * h as u16 + 97 * k as u16).collect();
        rep.add("concurrent_cache_fills", 1);
        rep.case(Some(hash_str(&format!("concfill:{name}:{:?}", ports))));
        if h % 2 == 0 {
            let futs: Vec<_> = ports.iter().map(|p| anytls_rs::util::resolve_host_with_cache(&name, *p)).collect();
            let mut set = Vec::new();
            for f in futs {
                set.push(f);
            }
            // poll them together on this task
            let results = match set.len() {
                2 => {
                    let mut it = set.into_iter();
                    let (a, b) = tokio::join!(it.next().unwrap(), it.next().unwrap());
                    vec![a, b]
                }
                3 => {
                    let mut it = set.into_iter();
                    let (a, b, c) = tokio::join!(it.next().unwrap(), it.next().unwrap(), it.next().unwrap());
                    vec![a, b, c]
                }
                _ => {
                    let mut it = set.into_iter();
                    let (a, b, c, d) = tokio::join!(it.next().unwrap(), it.next().unwrap(), it.next().unwrap(), it.next().unwrap());
                    vec![a, b, c, d]
                }
            };
            for (p, r) in ports.iter().zip(results.into_iter()) {
                match r {
                    Ok(addr) if addr.port() == *p && addr.ip() == IpAddr::V4(netkit::name_to_v4(&name)) => {}
                    Ok(addr) => {
                        rep.violate("destination", "concurrent_cache_fill", if addr.port() != *p { "port_of_another_request" } else { "wrong_address_from_cache" }, format!("{} overlapping lookups of the uncached name {name} with ports {:?}: the lookup for port {p} returned {addr}", ports.len(), ports), json!({"kind": "c07-concurrent-fill", "name": name, "ports": ports}));
                        break;
                    }
                    Err(e) => rep.inconclusive(format!("resolver error for {name}: {e}")),
                }
            }
        } else {
            let before = anytls_rs::verif::event_count();
            let mut js = tokio::task::JoinSet::new();
            for p in &ports {
                let c = w.client.clone();
                let n = name.clone();
                let p = *p;
                js.spawn(async move { tokio::time::timeout(Duration::from_secs(40), c.create_proxy_stream((n, p))).await.is_ok() });
            }
            while js.join_next().await.is_some() {}
            tokio::time::sleep(Duration::from_millis(50)).await;
            let dialled: Vec<SocketAddr> = anytls_rs::verif::events().into_iter().skip(before).filter_map(|e| if let Event::Dial { addr, .. } = e { Some(addr) } else { None }).collect();
            for p in &ports {
                let exp = SocketAddr::new(IpAddr::V4(netkit::name_to_v4(&name)), *p);
                if !dialled.contains(&exp) {
                    rep.violate("destination", "concurrent_cache_fill", "port_of_another_request", format!("{} concurrent requests for the uncached name {name} with ports {:?}: no dial to {exp}; observed dials {:?}", ports.len(), ports, dialled), json!({"kind": "c07-concurrent-fill", "name": name, "ports": ports}));
                    break;
                }
            }
        }
    }
    if cross_ttl {
        // one history that crosses the resolver cache lifetime (60 s, real time)
        let name = "ttlcross.example.test".to_string();
        let _ = anytls_rs::util::resolve_host_with_cache(&name, 80).await;
        tokio::time::sleep(Duration::from_secs(61)).await;
        match anytls_rs::util::resolve_host_with_cache(&name, 8443).await {
            Ok(a) if a.port() == 8443 && a.ip() == IpAddr::V4(netkit::name_to_v4(&name)) => rep.add("ttl_crossings", 1),
            other => rep.violate("destination", "resolver_cache_history", "wrong_after_ttl", format!("{name}:8443 after 61 s: {:?}", other.map_err(|e| e.to_string())), json!({"kind": "c07-cache-ttl"})),
        }
    }
}


async fn udp_recv(s: &tokio::net::UdpSocket, ms: u64) -> Option<(Vec<u8>, SocketAddr)> {
    let mut buf = vec![0u8; 2048];
    match tokio::time::timeout(Duration::from_millis(ms), s.recv_from(&mut buf)).await {
        Ok(Ok((n, from))) => Some((buf[..n].to_vec(), from)),
        _ => None,
    }
}

/// A UDP association stays with the target it was created for: datagrams that other sockets of the target's host
/// (or anybody else) send to the relay's address must not redirect what the application sends afterwards.
async fn udp_association_stays_put(rep: &mut Report, w: &World, n: usize) {
    use tokio::net::UdpSocket;
    for i in 0..n {
        let ip: IpAddr = if i % 2 == 0 { Ipv4Addr::new(127, 0, 0, 1).into() } else { std::net::Ipv6Addr::LOCALHOST.into() };
        let (Ok(target), Ok(other), Ok(app)) = (UdpSocket::bind(SocketAddr::new(ip, 0)).await, UdpSocket::bind(SocketAddr::new(ip, 0)).await, UdpSocket::bind("127.0.0.1:0").await) else {
            rep.inconclusive("cannot bind UDP sockets");
            continue;
        };
        let target_addr = target.local_addr().unwrap();
        let case = json!({"kind": "c07-udp-stays-put", "target": target_addr.to_string(), "other_socket_on_that_host": other.local_addr().unwrap().to_string()});
        rep.case(Some(hash_str(&case.to_string())));
        let local = match tokio::time::timeout(Duration::from_secs(40), w.client.create_udp_proxy("127.0.0.1:0", target_addr)).await {
            Ok(Ok(l)) => l,
            other => {
                rep.inconclusive(format!("create_udp_proxy({target_addr}): {:?}", other.map(|r| r.map_err(|e| e.to_string()))));
                continue;
            }
        };
        tokio::time::sleep(Duration::from_millis(60)).await;
        // 1: application -> target; the target learns the relay's address
        let _ = app.send_to(b"one", local).await;
        let Some((_, relay_addr)) = udp_recv(&target, 6000).await else {
            rep.inconclusive(format!("first datagram did not reach {target_addr} (setup)"));
            continue;
        };
        // 2: another socket of the target's host talks to the relay
        let _ = other.send_to(b"hello from another port", relay_addr).await;
        tokio::time::sleep(Duration::from_millis(150)).await;
        // 3: the application sends again, several times
        let mut at_target = 0;
        let mut at_other = 0;
        for k in 0..3 {
            let _ = app.send_to(format!("again-{k}").as_bytes(), local).await;
            if udp_recv(&target, 1500).await.is_some() {
                at_target += 1;
            }
            if udp_recv(&other, 50).await.is_some() {
                at_other += 1;
            }
        }
        rep.add("udp_associations_probed_with_a_foreign_sender", 1);
        if at_other > 0 || at_target < 3 {
            rep.violate("destination", "udp_association+datagram_from_another_port_of_the_target_host", "udp_traffic_sent_elsewhere", format!("UDP association created for {target_addr}: after a datagram from {} had reached the relay socket, {at_target} of 3 further application datagrams arrived at {target_addr} and {at_other} at the other socket", other.local_addr().unwrap()), case);
        }
    }
}

async fn udp_targets(rep: &mut Report, w: &World, rng: &mut Rng, n: usize) {
    for i in 0..n {
        let target: SocketAddr = match i % 4 {
            0 => SocketAddr::new(IpAddr::V4(Ipv4Addr::new(rng.range(1, 223) as u8, rng.below(256) as u8, rng.below(256) as u8, rng.range(1, 254) as u8)), rng.range(1, 65535) as u16),
            1 => SocketAddr::new(IpAddr::V4(Ipv4Addr::new(127, rng.below(256) as u8, 0, rng.range(1, 254) as u8)), rng.range(1024, 65535) as u16),
            2 => {
                let mut o = [0u8; 16];
                o.copy_from_slice(&rng.bytes(16));
                o[0] = 0x20;
                SocketAddr::new(IpAddr::V6(Ipv6Addr::from(o)), rng.range(1, 65535) as u16)
            }
            _ => SocketAddr::new(IpAddr::V6(Ipv6Addr::LOCALHOST), rng.range(1024, 65535) as u16),
        };
        let before = anytls_rs::verif::event_count();
        rep.case(Some(hash_str(&format!("udp:{target}"))));
        rep.add("udp_associations", 1);
        match tokio::time::timeout(Duration::from_secs(40), w.client.create_udp_proxy("127.0.0.1:0", target)).await {
            Ok(Ok(_local)) => {
                // the UdpTarget event appears once the server handler has decoded the initial request
                let mut seen = false;
                for _ in 0..100 {
                    if anytls_rs::verif::events().into_iter().skip(before).any(|e| matches!(e, Event::UdpTarget { addr, .. } if addr == target)) {
                        seen = true;
                        break;
                    }
                    tokio::time::sleep(Duration::from_millis(20)).await;
                }
                if seen {
                    rep.add("udp_targets_decoded_as_requested", 1);
                } else {
                    let others: Vec<SocketAddr> = anytls_rs::verif::events().into_iter().skip(before).filter_map(|e| if let Event::UdpTarget { addr, .. } = e { Some(addr) } else { None }).collect();
                    rep.violate("destination", "udp_association", "udp_target_differs", format!("UDP association for {target}: the server handler decoded {:?}", others), json!({"kind": "c07-udp", "target": target.to_string()}));
                }
            }
            Ok(Err(e)) => rep.inconclusive(format!("create_udp_proxy({target}): {e}")),
            Err(_) => rep.inconclusive(format!("create_udp_proxy({target}) timed out")),
        }
    }
}

pub fn run(ctx: Ctx) -> Report {
    let quick = ctx.tier == crate::report::Tier::Quick;
    let mut rep = Report::new("C07");
    let n_api = ctx.tier.pick(450, 9000);
    let n_socks = ctx.tier.pick(180, 3000);
    let n_frag = ctx.tier.pick(180, 3000);
    let n_http = ctx.tier.pick(160, 3000);
    let seed = ctx.seed;
    run::case_begin("C07 e2e");
    let out = run::rt_block_on(8, async move {
        let mut rep = Report::new("C07");
        let Some(dns) = netkit::start_fake_dns().await else {
            rep.inconclusive("cannot start fake DNS");
            return rep;
        };
        if !netkit::use_fake_dns(&dns).await {
            rep.inconclusive("cannot install fake DNS");
            return rep;
        }
        let Some(w) = build_world().await else {
            rep.inconclusive("cannot build the loopback world");
            return rep;
        };
        let w = Arc::new(w);
        let mut rng = Rng::new(seed ^ 0xC07);
        let mut reqs: Vec<Req> = Vec::new();
        for i in 0..n_api {
            reqs.push(gen_req(&mut rng, i, w.target_port, w.v6_port, Via::Api));
        }
        for i in 0..n_socks {
            reqs.push(gen_req(&mut rng, i, w.target_port, w.v6_port, Via::Socks5));
        }
        for i in 0..n_http {
            // names must be spellable in a request line: the generated names are, literals too
            let mut r = gen_req(&mut rng, i, w.target_port, w.v6_port, Via::Http((i % 4) as u8));
            if r.port == 0 {
                r.port = w.target_port;
            }
            reqs.push(r);
        }
        for i in 0..n_frag {
            let mut r = gen_req(&mut rng, i, w.target_port, w.v6_port, Via::Api);
            let hl = match r.host.parse::<IpAddr>() {
                Ok(IpAddr::V4(_)) => 7,
                Ok(IpAddr::V6(_)) => 19,
                Err(_) => r.host.len() + 4,
            };
            let cuts: Vec<usize> = match i % 4 {
                0 => (1..hl).collect(), // one byte per frame
                1 => vec![1],
                2 => vec![hl - 2, hl - 1],
                _ => (0..rng.usize(1, 5)).map(|_| rng.usize(1, hl - 1)).collect(),
            };
            r.via = Via::FragmentedHeader(cuts);
            reqs.push(r);
        }
        rng.shuffle(&mut reqs);
        let results: Arc<Mutex<Vec<(Req, Result<String, String>)>>> = Arc::new(Mutex::new(Vec::new()));
        {
            let w = w.clone();
            let results = results.clone();
            netkit::for_each_limited(reqs, 24, move |r| {
                let w = w.clone();
                let results = results.clone();
                async move {
                    let out = issue(&w, &r).await;
                    results.lock().unwrap().push((r, out));
                }
            })
            .await;
        }
        tokio::time::sleep(Duration::from_millis(300)).await;
        let events = anytls_rs::verif::events();
        rep.add("hook_events_seen", events.len() as u64);
        let mut accepts = w.target_accepts.lock().unwrap().clone();
        accepts.extend(w.v6_accepts.lock().unwrap().iter().cloned());
        rep.add("loopback_accepts_seen", accepts.len() as u64);
        let results = results.lock().unwrap().clone();
        for (i, (r, out)) in results.iter().enumerate() {
            judge(&mut rep, r, out, &events, &accepts);
            if i < 4 {
                rep.sample(json!({"request": r.describe(), "outcome": format!("{:?}", out), "expected_dial": r.expected().to_string()}));
            }
            rep.max("max_domain_length", if r.class() == "domain_name" { r.host.len() as u64 } else { 0 });
        }
        // sequential phases
        udp_targets(&mut rep, &w, &mut rng, if quick { 24 } else { 400 }).await;
        udp_association_stays_put(&mut rep, &w, if quick { 6 } else { 60 }).await;
        cache_histories(&mut rep, &w, &mut rng, if quick { 30 } else { 600 }, !quick).await;
        rep.add("dns_queries_answered", dns.queries.lock().unwrap().len() as u64);
        rep
    });
    rep.merge(out);
    for p in run::panic_log() {
        if !run::is_harness_panic(&p) {
            rep.violate("destination", "any", "panic", p, json!({}));
        }
    }
    run::case_end();
    rep
}

pub fn meta() -> CheckMeta {
    CheckMeta {
        level: "exploration",
        rule: "real Client -> real Server (TcpProxyHandler) over loopback TLS with a fake DNS server behind the real resolver (name -> 127.h(name)); requests through Client::create_proxy_stream, through the real SOCKS5 front-end, and with the destination header split over 1..n PSH frames and small read pieces into the real TcpProxyHandler on a MemPipe session: IPv4 literals (uniform, 127/8, 0.0.0.0, 255.255.255.255), IPv6 literals (uniform, ::, ::1, v4-mapped, link-local), domain names of every length class 1..255 (labels <= 63), ports {0,1,255,256,443,32767,32768,65535, the listening ports, uniform}. Oracle: the server-side hook events must contain the decoded destination and a Dial to exactly (address of the requested host, requested port); loopback-reachable ones are additionally confirmed by accept on wildcard listeners. UDP associations: UdpTarget event equals the requested socket address; and an association stays with its target: after a datagram from another port of the target's host has reached the relay socket, further application datagrams still arrive at the target and not at the other socket. Cache histories: sequences over 3 names + localhost x ports through resolve_host_with_cache directly and through full requests, each answer / dial compared with (address of THIS name, port of THIS request); plus overlapping lookups / requests for the same uncached name with 2-4 different ports (each must get its own port); thorough crosses the 60 s cache lifetime once. distinct_nontrivial = distinct (host, port, path). Also through the HTTP front-end: CONNECT authority, absolute URI with a matching Host header, absolute URI with a Host header naming another host / port / no port (the URI decides), origin-form + Host; same hosts and ports, same oracle.".into(),
        assumptions: vec!["non-local connects are refused at once in this sandbox, so the real dial happens and fails fast; the Dial hook fires immediately before TcpStream::connect".into(), "fake DNS answers A records only (AAAA: empty), one address per name".into()],
        floors: vec![("dials_to_requested_address", 500), ("requests_domain_name", 150), ("requests_ipv6_literal", 100), ("confirmed_by_loopback_accept", 30), ("cache_history_steps", 100), ("concurrent_cache_fills", 20), ("udp_targets_decoded_as_requested", 15), ("requests_via_fragmented_header", 100), ("requests_via_http_front_end", 100), ("udp_associations_probed_with_a_foreign_sender", 4)],
        exhaustive: false,
    }
}
