//! C14 — the liveness monitor closes dead sessions and only dead sessions.
//! Client `Session` with a heartbeat configuration against a real server
//! `Session` over MemPipes with a one-way delay, under virtual time.

use crate::engine;
use crate::mempipe::{self, PipeCfg, ReadFault, pipe};
use crate::refcodec;
use crate::report::{CheckMeta, Report, hash_str};
use crate::run::{self, Ctx};
use anytls_rs::session::SessionHeartbeatConfig;
use bytes::Bytes;
use serde_json::{Value, json};
use std::sync::{Arc, Mutex};
use std::time::Duration;
use tokio::time::Instant;

#[derive(Clone, Debug)]
pub struct HbCase {
    pub interval_ms: u64,
    pub timeout_ms: u64,
    /// one-way delay
    pub delay_ms: u64,
    /// None = healthy peer for 50 intervals; Some(t) = both directions go dead at virtual time t
    pub silence_at_ms: Option<u64>,
    /// 0 = no stream traffic, 1 = light traffic both ways, 2 = client floods its outbound pipe (64 KiB capacity),
    /// 3 = no stream traffic, every keep-alive request is a padded packet of 3000 bytes and the client's outbound
    ///     link is slow (256-byte pieces, 10 ms each): the request frame is answered while the rest of its packet is
    ///     still being written
    pub traffic: u8,
    pub label: String,
}

impl HbCase {
    pub fn describe(&self) -> Value {
        json!({"kind": "c14", "interval_ms": self.interval_ms, "timeout_ms": self.timeout_ms, "one_way_delay_ms": self.delay_ms, "silence_at_ms": self.silence_at_ms, "traffic": self.traffic, "label": self.label})
    }
    pub fn from_json(v: &Value) -> Option<HbCase> {
        Some(HbCase {
            interval_ms: v.get("interval_ms")?.as_u64()?,
            timeout_ms: v.get("timeout_ms")?.as_u64()?,
            delay_ms: v.get("one_way_delay_ms")?.as_u64()?,
            silence_at_ms: v.get("silence_at_ms").and_then(|x| x.as_u64()),
            traffic: v.get("traffic")?.as_u64()? as u8,
            label: v.get("label").and_then(|x| x.as_str()).unwrap_or("").to_string(),
        })
    }
}

#[derive(Debug, Default)]
pub struct HbObs {
    pub closed_at_ms: Option<u64>,
    pub reader_released_at_ms: Option<u64>,
    pub open_resolved: Option<String>,
    pub requests_on_wire: usize,
    pub responses_delivered: usize,
    pub last_answer_ms: u64,
    pub ran_ms: u64,
    pub problems: Vec<(String, String, String)>, // (cause, symptom, detail)
}

async fn run_async(c: HbCase) -> HbObs {
    let mut obs = HbObs::default();
    let t0 = Instant::now();
    let ms = |t: Instant| t.duration_since(t0).as_millis() as u64;
    let delay = Duration::from_millis(c.delay_ms);
    // client -> [a] -> delay -> [a2] -> server ; server -> [b] -> delay -> [b2] -> client
    let a_cfg = match c.traffic {
        2 => PipeCfg { capacity: 65536, ..PipeCfg::plain() },
        3 => PipeCfg { capacity: 256, ..PipeCfg::plain() },
        _ => PipeCfg::plain(),
    };
    let (a_w, a_r, a_h) = pipe(a_cfg);
    let (a2_w, a2_r, _a2_h) = pipe(PipeCfg::plain());
    let (b_w, b_r, _b_h) = pipe(PipeCfg::plain());
    let (b2_w, b2_r, b2_h) = pipe(PipeCfg::plain());
    if c.traffic == 3 {
        mempipe::spawn_slow_link(a_r, a2_w, delay, 256, 10);
    } else {
        mempipe::spawn_delay_link(a_r, a2_w, delay);
    }
    mempipe::spawn_delay_link(b_r, b2_w, delay);
    let client_padding = if c.traffic == 3 {
        // every packet up to number 400 is padded to 3000 bytes (the keep-alive requests among them)
        let mut text = String::from("stop=401\n0=30-30");
        for k in 1..=400 {
            text.push_str(&format!("\n{k}=3000-3000"));
        }
        engine::padding_from(&text).expect("scheme")
    } else {
        engine::no_padding()
    };
    // same scheme on the server so that it does not push its own (a server never pads)
    let (server, mut new_streams, _st) = engine::start_server(a2_r, b_w, client_padding.clone());
    // timeout_ms == u64::MAX stands for Duration::MAX ("never give up")
    let hb = SessionHeartbeatConfig { interval: Duration::from_millis(c.interval_ms), timeout: if c.timeout_ms == u64::MAX { Duration::MAX } else { Duration::from_millis(c.timeout_ms) } };
    let tcap = if c.timeout_ms == u64::MAX { 0 } else { c.timeout_ms };
    let client = match engine::start_client(b2_r, a_w, client_padding, Some(hb)).await {
        Ok(s) => s,
        Err(e) => {
            obs.problems.push(("setup".into(), "start_client_failed".into(), e.to_string()));
            return obs;
        }
    };
    // one open stream with a blocked reader and a pending open: the waiters whose release is observed
    let opened = tokio::time::timeout(Duration::from_secs(3600), engine::open_like_client(&client, Bytes::from_static(b"destination"))).await;
    let (stream, synack_rx) = match opened {
        Ok(Ok(x)) => x,
        other => {
            obs.problems.push(("setup".into(), "open_failed".into(), format!("{:?}", other.map(|r| r.map(|_| ()).map_err(|e| e.to_string())))));
            return obs;
        }
    };
    let released: Arc<Mutex<Option<Instant>>> = Arc::new(Mutex::new(None));
    {
        let released = released.clone();
        let st = stream.clone();
        tokio::spawn(async move {
            let mut buf = [0u8; 256];
            loop {
                let r = {
                    let mut g = st.reader().lock().await;
                    g.read(&mut buf).await
                };
                if !matches!(r, Ok(n) if n > 0) {
                    *released.lock().unwrap() = Some(Instant::now());
                    break;
                }
            }
        });
    }
    let open_res: Arc<Mutex<Option<String>>> = Arc::new(Mutex::new(None));
    {
        let open_res = open_res.clone();
        tokio::spawn(async move {
            let r = match synack_rx.await {
                Ok(Ok(())) => "ok".to_string(),
                Ok(Err(e)) => format!("err:{e}"),
                Err(_) => "err:channel closed".to_string(),
            };
            *open_res.lock().unwrap() = Some(r);
        });
    }
    // server side: echo a little on the stream when there is traffic
    let srv_stream = tokio::time::timeout(Duration::from_secs(3600), new_streams.recv()).await.ok().flatten();
    let mut bg = Vec::new();
    if c.traffic >= 1 {
        let step = Duration::from_millis((c.interval_ms / 3).max(1));
        if let Some(ss) = srv_stream.clone() {
            bg.push(tokio::spawn(async move {
                loop {
                    tokio::time::sleep(step).await;
                    if ss.send_data(Bytes::from(vec![7u8; 200])).is_err() {
                        break;
                    }
                }
            }));
        }
        let cl = client.clone();
        let sid = stream.id();
        let flood = c.traffic == 2;
        let flood_step = Duration::from_millis((c.interval_ms / 20).max(1));
        bg.push(tokio::spawn(async move {
            loop {
                // flooding: 16 KB every interval/20 fills the 64 KiB outbound pipe within interval/5 once the peer stops draining
                tokio::time::sleep(if flood { flood_step } else { step }).await;
                let n = if flood { 16000 } else { 300 };
                if cl.write_data_frame(sid, Bytes::from(vec![9u8; n])).await.is_err() {
                    break;
                }
            }
        }));
        if let Some(ss) = srv_stream.clone() {
            bg.push(tokio::spawn(async move {
                let mut buf = vec![0u8; 65536];
                loop {
                    let r = {
                        let mut g = ss.reader().lock().await;
                        g.read(&mut buf).await
                    };
                    if !matches!(r, Ok(n) if n > 0) {
                        break;
                    }
                }
            }));
        }
    }
    // the silence: both directions go dead (nothing is delivered to the client, nothing is drained from it)
    if let Some(s) = c.silence_at_ms {
        let b2 = b2_h.clone();
        let a = a_h.clone();
        tokio::spawn(async move {
            tokio::time::sleep_until(t0 + Duration::from_millis(s)).await;
            b2.read_fault_now(ReadFault::BlackHole);
            a.read_fault_now(ReadFault::BlackHole);
        });
    }
    let run_for = match c.silence_at_ms {
        None => 50 * c.interval_ms + 3 * tcap + 2 * c.delay_ms,
        Some(s) => s + c.timeout_ms + 4 * c.interval_ms + 4 * c.delay_ms + 1000,
    };
    // wait until the session closes or the observation window ends
    let end = t0 + Duration::from_millis(run_for);
    loop {
        if let Some(t) = *released.lock().unwrap() {
            obs.reader_released_at_ms = Some(ms(t));
            break;
        }
        if Instant::now() >= end {
            break;
        }
        let next = (Instant::now() + Duration::from_millis((c.interval_ms.min(c.timeout_ms) / 4).max(1))).min(end);
        tokio::time::sleep_until(next).await;
    }
    obs.ran_ms = ms(Instant::now());
    if client.is_closed() {
        obs.closed_at_ms = Some(obs.reader_released_at_ms.unwrap_or(obs.ran_ms));
    }
    tokio::time::sleep(Duration::from_millis(5)).await;
    obs.open_resolved = open_res.lock().unwrap().clone();
    // what actually crossed the wire
    let a_log = a_h.log();
    let (fa, _) = refcodec::parse_all(&a_log.bytes);
    obs.requests_on_wire = fa.iter().filter(|f| f.cmd == refcodec::HEART_REQ).count();
    let b2_log = b2_h.log();
    let (fb, _) = refcodec::parse_all(&b2_log.bytes);
    // a response counts as delivered when its last byte was written into the client's inbound pipe before the silence began
    let silence = c.silence_at_ms.unwrap_or(u64::MAX);
    for f in fb.iter().filter(|f| f.cmd == refcodec::HEART_RESP) {
        let end_off = (f.off + f.total()) as u64;
        if let Some(w) = b2_log.writes.iter().find(|w| w.off + w.accepted as u64 >= end_off) {
            let at = ms(w.at);
            if at < silence {
                obs.responses_delivered += 1;
                obs.last_answer_ms = obs.last_answer_ms.max(at);
            }
        }
    }
    for t in bg {
        t.abort();
    }
    let _ = server;
    obs
}

pub fn run_case(c: &HbCase) -> HbObs {
    let c2 = c.clone();
    run::vt_block_on_deadline(Duration::from_secs(10_000_000), async move { run_async(c2).await }).unwrap_or_else(|| HbObs { problems: vec![("setup".into(), "case_stuck".into(), "monitor did not finish".into())], ..Default::default() })
}

pub fn judge(c: &HbCase, o: &mut HbObs) {
    let rel = if c.timeout_ms < c.interval_ms { "timeout_lt_interval" } else if c.timeout_ms == c.interval_ms { "timeout_eq_interval" } else { "timeout_gt_interval" };
    let traffic = ["no_traffic", "light_traffic", "outbound_flooded", "padded_requests_over_slow_link"][c.traffic as usize];
    match c.silence_at_ms {
        None => {
            if let Some(t) = o.closed_at_ms {
                o.problems.push((
                    format!("healthy_peer+{rel}+{traffic}"),
                    "healthy_session_closed".into(),
                    format!("peer answered every keep-alive with RTT {} ms < timeout {} ms (interval {} ms), {} responses delivered, yet the session was closed at t={} ms", 2 * c.delay_ms, c.timeout_ms, c.interval_ms, o.responses_delivered, t),
                ));
            } else {
                // the run must really have exchanged keep-alives: with RTT below one interval every tick is answered
                // before the next one; with a larger RTT at least one exchange per (RTT + interval) is expected
                let window = 50 * c.interval_ms + 3 * if c.timeout_ms == u64::MAX { 0 } else { c.timeout_ms };
                let want = (window / (2 * c.delay_ms + c.interval_ms).max(1)).saturating_sub(2).min(40) as usize;
                if o.responses_delivered < want.max(1) {
                    o.problems.push(("setup".into(), "too_few_keepalives".into(), format!("only {} requests / {} responses in the observation window (expected >= {})", o.requests_on_wire, o.responses_delivered, want.max(1))));
                }
            }
            if o.open_resolved.is_some() && o.closed_at_ms.is_none() {
                o.problems.push((format!("healthy_peer+{rel}+{traffic}"), "pending_open_resolved_without_answer".into(), format!("{:?}", o.open_resolved)));
            }
        }
        Some(s) => {
            let bound = o.last_answer_ms + c.timeout_ms + c.interval_ms + 1;
            match o.closed_at_ms {
                None => o.problems.push((
                    format!("silent_peer+{rel}+{traffic}"),
                    "dead_session_not_closed".into(),
                    format!("peer silent since t={s} ms (last answer delivered at t={} ms); interval {} ms, timeout {} ms: must be closed by t={bound} ms, still open at t={} ms", o.last_answer_ms, c.interval_ms, c.timeout_ms, o.ran_ms),
                )),
                Some(t) if t > bound => o.problems.push((
                    format!("silent_peer+{rel}+{traffic}"),
                    "dead_session_closed_late".into(),
                    format!("peer silent since t={s} ms (last answer at t={} ms); interval {} ms, timeout {} ms: bound t={bound} ms, closed at t={t} ms", o.last_answer_ms, c.interval_ms, c.timeout_ms),
                )),
                Some(t) => {
                    // closing a session whose peer was still answering in time would be premature
                    if t < s && 2 * c.delay_ms < c.timeout_ms {
                        o.problems.push((format!("healthy_peer+{rel}+{traffic}"), "healthy_session_closed".into(), format!("closed at t={t} ms, before the peer went silent at t={s} ms")));
                    }
                    if o.reader_released_at_ms.is_none() {
                        o.problems.push((format!("silent_peer+{rel}+{traffic}"), "reader_not_released".into(), "session closed but the blocked stream reader was not released".into()));
                    }
                    match &o.open_resolved {
                        Some(r) if r.starts_with("err") => {}
                        other => o.problems.push((format!("silent_peer+{rel}+{traffic}"), "pending_open_not_failed".into(), format!("pending open after the session died: {:?}", other))),
                    }
                }
            }
        }
    }
}

pub fn cases(ctx: Ctx) -> Vec<HbCase> {
    let quick = ctx.tier == crate::report::Tier::Quick;
    let grid: &[u64] = &[1, 2, 5, 10, 30, 60, 300];
    let mut v = Vec::new();
    for &i in grid {
        for &t in grid {
            let (interval_ms, timeout_ms) = (i * 1000, t * 1000);
            let fracs: &[f64] = if quick { &[0.0, 0.1, 0.5, 0.99] } else { &[0.0, 0.01, 0.1, 0.25, 0.5, 0.75, 0.9, 0.99] };
            for (fi, frac) in fracs.iter().enumerate() {
                if quick && fi % 2 == 1 && i != t {
                    continue;
                }
                let rtt = (timeout_ms as f64 * frac) as u64;
                let delay_ms = rtt / 2;
                for traffic in 0..4u8 {
                    if quick && traffic == 2 && fi != 0 {
                        continue;
                    }
                    // a 3000-byte packet takes 120 ms on the slow link: only where that is well inside the timeout
                    // (and the link itself adds 10 ms per 256-byte piece to the round trip: keep clear of the timeout)
                    if traffic == 3 && (timeout_ms < 1000 || (quick && fi > 1) || *frac > 0.76) {
                        continue;
                    }
                    let mk = |silence: Option<u64>, label: &str| HbCase { interval_ms, timeout_ms, delay_ms, silence_at_ms: silence, traffic, label: label.to_string() };
                    v.push(mk(None, "healthy"));
                    v.push(mk(Some(0), "silent_before_first_request"));
                    // between request k and its response
                    let k = 3u64;
                    v.push(mk(Some(k * interval_ms + delay_ms + delay_ms / 2 + 1), "silent_between_request_and_response"));
                    v.push(mk(Some(k * interval_ms + 2 * delay_ms + 2), "silent_right_after_an_answer"));
                    if !quick {
                        v.push(mk(Some(7 * interval_ms + interval_ms / 2), "silent_mid_interval"));
                        v.push(mk(Some(interval_ms - 1), "silent_just_before_second_request"));
                    }
                }
            }
        }
    }
    // the largest timeout there is: a healthy peer, nothing may happen (in particular no arithmetic overflow)
    for interval_ms in [1000u64, 10_000] {
        for delay_ms in [0u64, 100] {
            for traffic in [0u8, 1] {
                v.push(HbCase { interval_ms, timeout_ms: u64::MAX, delay_ms, silence_at_ms: None, traffic, label: "healthy_timeout_duration_max".into() });
            }
        }
    }
    v
}

pub fn run(ctx: Ctx) -> Report {
    let all = cases(ctx);
    run::run_sharded("C14", ctx.shards, move |shard, nshards, rep| {
        for (i, c) in all.iter().enumerate() {
            if i % nshards != shard {
                continue;
            }
            run::case_begin(&format!("C14 {}", c.describe()));
            let mut o = run_case(c);
            judge(c, &mut o);
            rep.case(Some(hash_str(&c.describe().to_string())));
            rep.add("keepalive_requests_seen", o.requests_on_wire as u64);
            rep.add("keepalive_responses_delivered", o.responses_delivered as u64);
            rep.add(if c.silence_at_ms.is_some() { "silent_peer_cases" } else { "healthy_peer_cases" }, 1);
            if o.closed_at_ms.is_some() && c.silence_at_ms.is_some() {
                rep.add("dead_sessions_seen_closing", 1);
            }
            rep.seen("interval_timeout_pairs", format!("{}/{}", c.interval_ms / 1000, c.timeout_ms / 1000));
            if rep.samples.len() < 4 && shard == 0 {
                rep.sample(json!({"case": c.describe(), "closed_at_ms": o.closed_at_ms, "last_answer_ms": o.last_answer_ms, "requests": o.requests_on_wire, "responses": o.responses_delivered}));
            }
            for (cause, sym, det) in &o.problems {
                if cause == "setup" {
                    rep.inconclusive(format!("{sym}: {det} ({})", c.describe()));
                } else {
                    rep.violate("liveness", cause, sym, det.clone(), c.describe());
                }
            }
            for p in run::take_thread_panics() {
                if run::is_harness_panic(&p) {
                    rep.inconclusive(format!("harness panic: {p}"));
                } else {
                    rep.violate("liveness", &format!("panic+{}", c.label), "panic", p, c.describe());
                }
            }
        }
        run::case_end();
    })
}

pub fn meta() -> CheckMeta {
    CheckMeta {
        level: "exploration",
        rule: "case = (interval, timeout) from the grid {1,2,5,10,30,60,300} s squared (quick: {1,5,30,60}), RTT in {0, 0.1, 0.5, 0.99} x timeout realised as a one-way delay on both directions, stream traffic {none, light both ways, client floods a 64 KiB outbound pipe}, and the peer healthy for 50 intervals or both directions going dead before the first request / between a request and its response / right after an answer / mid-interval / just before the second request. Real client Session (SessionHeartbeatConfig) against a real server Session under virtual time. Oracle: healthy => never closed and >= 40 keep-alive exchanges observed on the recorded pipes; silent => closed, blocked reader released and pending open failed by (time the last response was delivered, read from the pipe log) + timeout + interval + 1 ms. Every grid point is a distinct non-trivial case. Client level (real time): sessions made by the real Client (keep-alive interval = check_interval, timeout = idle_timeout; timeout above / equal to / below the interval) behind a relay with a 'silent' switch, carrying a stream so that pool housekeeping has no say: healthy for 6 x max(interval, timeout) with pings (must stay open and working), then the path falls silent: closed and the blocked reader released within 2 x (interval + timeout) + 2 s; a failing case is re-run alone with doubled times before it is reported.".into(),
        assumptions: vec!["'dead' is modelled as a black hole in both directions (nothing delivered, nothing drained)".into(), "intervals/timeouts of 0 are excluded (tokio::time::interval panics on a zero period: configuration, not peer behaviour)".into()],
        floors: vec![("healthy_peer_cases", 40), ("silent_peer_cases", 100), ("keepalive_responses_delivered", 2000), ("dead_sessions_seen_closing", 20), ("client_level_sessions_watched", 3)],
        exhaustive: false,
    }
}

// ---------------------------------------------------------------------------
// client level: sessions made by the real `Client` (which derives the monitor's interval and timeout from its
// pool configuration) behind a relay that can fall silent. Real time, small values; verdicts are generous.

async fn client_level_case(interval_ms: u64, timeout_ms: u64, scale: u64) -> Result<(Option<String>, Option<String>), String> {
    use crate::engine;
    use crate::netkit::{self, Target};
    use bytes::Bytes;
    use std::sync::atomic::Ordering;
    let (interval_ms, timeout_ms) = (interval_ms * scale, timeout_ms * scale);
    let (server_addr, sh) = netkit::start_server(netkit::PASSWORD, engine::default_padding()).await.ok_or("cannot start server")?;
    let relay = netkit::start_rec_relay(server_addr).await.ok_or("cannot start relay")?;
    let mut t = Target::bind_v4(0).await.ok_or("cannot bind target")?;
    let tport = t.port;
    let echo = tokio::spawn(async move {
        while let Some(a) = t.rx.recv().await {
            netkit::spawn_echo(a.stream);
        }
    });
    // Client: keep-alive interval = check_interval, keep-alive timeout = idle_timeout. The session under watch
    // carries a stream the whole time, so pool housekeeping (which uses the same numbers) has no say over it.
    let client = netkit::make_client(&relay.addr, netkit::PASSWORD, engine::default_padding(), anytls_rs::client::SessionPoolConfig { check_interval: Duration::from_millis(interval_ms), idle_timeout: Duration::from_millis(timeout_ms), min_idle_sessions: 0 });
    let r = async {
        let (stream, session) = tokio::time::timeout(Duration::from_secs(20), client.create_proxy_stream(("127.0.0.1".to_string(), tport))).await.map_err(|_| "open timeout".to_string())?.map_err(|e| format!("open failed: {e}"))?;
        // healthy phase: 6 x max(interval, timeout), a ping now and then
        let healthy_for = Duration::from_millis(6 * interval_ms.max(timeout_ms));
        let t0 = tokio::time::Instant::now();
        let mut healthy_problem = None;
        let mut k = 0u32;
        while t0.elapsed() < healthy_for {
            k += 1;
            let msg = format!("ping-{k}");
            let ok = async {
                session.write_data_frame(stream.id(), Bytes::from(msg.clone())).await.ok()?;
                let mut buf = vec![0u8; msg.len()];
                tokio::time::timeout(Duration::from_secs(5), async { stream.reader().lock().await.read_exact(&mut buf).await }).await.ok()?.ok()?;
                Some(buf == msg.as_bytes())
            }
            .await;
            if session.is_closed() || ok != Some(true) {
                healthy_problem = Some(format!("after {} ms of a healthy connection (every keep-alive answered over loopback) the session is closed={} and ping #{k} worked={:?}", t0.elapsed().as_millis(), session.is_closed(), ok));
                break;
            }
            tokio::time::sleep(Duration::from_millis(interval_ms.min(timeout_ms) / 2)).await;
        }
        if healthy_problem.is_some() {
            return Ok((healthy_problem, None));
        }
        // dead phase: the path falls silent in both directions, the connection stays open
        relay.hold.store(true, Ordering::SeqCst);
        let t1 = tokio::time::Instant::now();
        let bound = Duration::from_millis(2 * (interval_ms + timeout_ms) + 2000);
        let st2 = stream.clone();
        let reader = tokio::spawn(async move {
            let mut b = [0u8; 8];
            let _ = st2.reader().lock().await.read(&mut b).await;
            tokio::time::Instant::now()
        });
        let released = tokio::time::timeout(bound, reader).await;
        let dead_problem = match released {
            Ok(Ok(at)) if session.is_closed() => {
                let _ = at;
                None
            }
            Ok(_) => Some(format!("the blocked reader returned but the session is not closed {} ms after the path fell silent", t1.elapsed().as_millis())),
            Err(_) => Some(format!("{} ms after the path fell silent (interval {interval_ms} ms + timeout {timeout_ms} ms allow {} ms) the session is closed={} and a reader blocked on its stream has not been released", t1.elapsed().as_millis(), interval_ms + timeout_ms, session.is_closed())),
        };
        Ok((None, dead_problem))
    }
    .await;
    relay.hold.store(false, Ordering::SeqCst);
    client.stop_session_pool_cleanup().await;
    sh.abort();
    echo.abort();
    r
}

pub fn run_client_level(ctx: Ctx) -> Report {
    let quick = ctx.tier == crate::report::Tier::Quick;
    let panics_before = run::panic_log().len(); // panics of the session-level part were reported there
    run::case_begin("C14 client level");
    let mut rep = run::rt_block_on(8, async move {
        let mut rep = Report::new("C14");
        // (interval, timeout) in ms: timeout above, equal to and below the interval
        let grid: Vec<(u64, u64)> = if quick { vec![(500, 1500), (1200, 1200), (1500, 700)] } else { vec![(500, 1500), (1200, 1200), (1500, 700), (400, 2000), (2000, 2000), (2500, 800), (3000, 1000)] };
        let mut set = tokio::task::JoinSet::new();
        for (i, t) in grid {
            set.spawn(async move { (i, t, client_level_case(i, t, 1).await) });
        }
        while let Some(Ok((i, t, mut r))) = set.join_next().await {
            let rel = if t < i { "timeout_lt_interval" } else if t == i { "timeout_eq_interval" } else { "timeout_gt_interval" };
            let case = json!({"kind": "c14-client", "interval_ms": i, "timeout_ms": t});
            rep.case(Some(hash_str(&case.to_string())));
            if matches!(&r, Ok((h, d)) if h.is_some() || d.is_some()) {
                // real-time verdict: confirm alone with doubled times before reporting
                rep.add("client_level_cases_retried_in_isolation", 1);
                r = client_level_case(i, t, 2).await;
            }
            match r {
                Err(e) => rep.inconclusive(format!("client-level case {i}/{t}: {e}")),
                Ok((healthy, dead)) => {
                    rep.add("client_level_sessions_watched", 1);
                    if let Some(p) = healthy {
                        rep.violate("liveness", &format!("client_level+healthy_peer+{rel}"), "healthy_session_closed", format!("session made by Client with check_interval {i} ms / idle_timeout {t} ms: {p}"), case.clone());
                    } else if let Some(p) = dead {
                        rep.violate("liveness", &format!("client_level+silent_peer+{rel}"), "dead_session_not_closed", format!("session made by Client with check_interval {i} ms / idle_timeout {t} ms: {p}"), case.clone());
                    } else {
                        rep.add("client_level_dead_sessions_seen_closing", 1);
                    }
                }
            }
        }
        rep
    });
    for p in run::panic_log().into_iter().skip(panics_before) {
        if !run::is_harness_panic(&p) {
            rep.violate("liveness", "client_level", "panic", p, json!({}));
        }
    }
    run::case_end();
    rep
}
