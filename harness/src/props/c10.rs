//! C10 — opening a stream reports the server's verdict exactly once.
//! (a) real stack over loopback (API, SOCKS5, HTTP) against accepting /
//! refusing / unresolvable targets, incl. racing opens on one session;
//! (b) the real Client against a scripted TLS peer that controls when and how
//! the SYNACK arrives; (c) first-outcome-wins at session level (virtual time).

use crate::engine;
use crate::mempipe::PipeCfg;
use crate::netkit::{self, SocksDest, Target, TlsPeerConn};
use crate::refcodec;
use crate::report::{CheckMeta, Report, hash_str};
use crate::run::{self, Ctx};
use bytes::Bytes;
use serde_json::json;
use std::net::Ipv4Addr;
use std::sync::Arc;
use std::time::Duration;
use tokio::io::{AsyncReadExt, AsyncWriteExt};
use tokio::net::TcpStream;
use tokio::time::Instant;

// ---------------------------------------------------------------- (b) scripted peer

#[derive(Clone, Debug)]
pub enum PeerScript {
    /// SYNACK(ok) after this many milliseconds
    OkAfter(u64),
    ErrAfter(u64),
    Never,
    OkThenErr,
    ErrThenOk,
    UnknownIdThenOk,
    OkBeforeDestination,
    CloseAfter(u64),
    AlertAfter(u64),
    /// late answer after the client's 30 s wait
    OkAfter33s,
}

#[derive(Clone, Debug)]
struct Expect {
    ok: bool,
    /// the call must complete inside [lo, hi] milliseconds
    lo: u64,
    hi: u64,
    /// substring the error must (not) contain
    err_has: Option<&'static str>,
    err_has_not: Option<&'static str>,
}

fn expectation(s: &PeerScript) -> Expect {
    let e = |ok, lo, hi, has, hasnot| Expect { ok, lo, hi, err_has: has, err_has_not: hasnot };
    match s {
        PeerScript::OkAfter(d) => e(true, *d, d + 4000, None, None),
        PeerScript::ErrAfter(d) => e(false, *d, d + 4000, Some("refused by script"), Some("timeout")),
        PeerScript::Never => e(false, 29_000, 34_000, Some("timeout"), None),
        PeerScript::OkAfter33s => e(false, 29_000, 32_500, Some("timeout"), None),
        PeerScript::OkThenErr => e(true, 0, 4000, None, None),
        PeerScript::ErrThenOk => e(false, 0, 4000, Some("refused by script"), None),
        PeerScript::UnknownIdThenOk => e(true, 900, 5000, None, None),
        PeerScript::OkBeforeDestination => e(true, 0, 4000, None, None),
        PeerScript::CloseAfter(d) => e(false, *d, d + 5000, None, Some("timeout")),
        PeerScript::AlertAfter(d) => e(false, *d, d + 5000, None, Some("timeout")),
    }
}

async fn play(mut c: TlsPeerConn, script: PeerScript) {
    // read until the destination frame of the first stream (or only the SYN for OkBeforeDestination)
    let mut sid = None;
    loop {
        let Some(f) = c.recv_non_padding(Duration::from_secs(20)).await else { return };
        if f.cmd == refcodec::SYN {
            sid = Some(f.sid);
            if matches!(script, PeerScript::OkBeforeDestination) {
                break;
            }
        }
        if f.cmd == refcodec::PSH && sid == Some(f.sid) {
            break;
        }
    }
    let sid = sid.unwrap_or(1);
    let _ = c.send(refcodec::SERVER_SETTINGS, 0, b"v=2").await;
    let ms = |d: u64| tokio::time::sleep(Duration::from_millis(d));
    match script {
        PeerScript::OkAfter(d) => {
            ms(d).await;
            let _ = c.send(refcodec::SYNACK, sid, &[]).await;
        }
        PeerScript::ErrAfter(d) => {
            ms(d).await;
            let _ = c.send(refcodec::SYNACK, sid, b"refused by script").await;
        }
        PeerScript::Never => {}
        PeerScript::OkAfter33s => {
            ms(33_000).await;
            let _ = c.send(refcodec::SYNACK, sid, &[]).await;
        }
        PeerScript::OkThenErr => {
            let _ = c.send(refcodec::SYNACK, sid, &[]).await;
            let _ = c.send(refcodec::SYNACK, sid, b"refused by script").await;
        }
        PeerScript::ErrThenOk => {
            let _ = c.send(refcodec::SYNACK, sid, b"refused by script").await;
            let _ = c.send(refcodec::SYNACK, sid, &[]).await;
        }
        PeerScript::UnknownIdThenOk => {
            let _ = c.send(refcodec::SYNACK, sid + 98, &[]).await;
            let _ = c.send(refcodec::SYNACK, 0, b"stray").await;
            ms(1000).await;
            let _ = c.send(refcodec::SYNACK, sid, &[]).await;
        }
        PeerScript::OkBeforeDestination => {
            let _ = c.send(refcodec::SYNACK, sid, &[]).await;
        }
        PeerScript::CloseAfter(d) => {
            ms(d).await;
            return; // dropping the connection
        }
        PeerScript::AlertAfter(d) => {
            ms(d).await;
            let _ = c.send(refcodec::ALERT, 0, b"scripted alert").await;
        }
    }
    // keep the connection open (and drained) for a while so that nothing else ends the wait
    let _ = tokio::time::timeout(Duration::from_secs(40), async { while c.recv().await.is_some() {} }).await;
}

/// front: 0 = Client::create_proxy_stream, 1 = through the SOCKS5 front-end, 2 = through the HTTP proxy (CONNECT)
async fn scripted_case(script: PeerScript, front: u8) -> (PeerScript, u8, Result<(bool, u64, String), String>) {
    let Some(mut peer) = netkit::start_tls_peer().await else { return (script, front, Err("cannot start TLS peer".into())) };
    let client = netkit::make_client(&peer.addr, netkit::PASSWORD, engine::default_padding(), netkit::quiet_pool());
    let s2 = script.clone();
    let player = tokio::spawn(async move {
        if let Some(c) = peer.conns.recv().await {
            play(c, s2).await;
        }
        drop(peer);
    });
    let t0 = Instant::now();
    let mut keep: Vec<tokio::task::JoinHandle<()>> = Vec::new();
    let out = match front {
        0 => {
            let r = tokio::time::timeout(Duration::from_secs(50), client.create_proxy_stream(("192.0.2.7".to_string(), 80))).await;
            let el = t0.elapsed().as_millis() as u64;
            match r {
                Err(_) => Err("create_proxy_stream did not complete within 50 s".to_string()),
                Ok(Ok(_)) => Ok((true, el, String::new())),
                Ok(Err(e)) => Ok((false, el, e.to_string())),
            }
        }
        1 => match netkit::start_socks5(client.clone()).await {
            None => Err("cannot start the SOCKS5 front-end".into()),
            Some((addr, h)) => {
                keep.push(h);
                let t0 = Instant::now();
                let r = netkit::socks5_connect(&addr, &netkit::SocksDest::V4("192.0.2.7".parse().unwrap(), 80), Duration::from_secs(50)).await;
                let el = t0.elapsed().as_millis() as u64;
                match r {
                    Ok((_s, code)) => Ok((code == 0, el, format!("socks reply {code:#04x}"))),
                    Err(e) if e.contains("timeout") => Err(format!("the SOCKS5 request did not complete within 50 s ({e})")),
                    Err(e) => Ok((false, el, format!("connection closed without a reply ({e})"))),
                }
            }
        },
        _ => match netkit::start_http(client.clone()).await {
            None => Err("cannot start the HTTP front-end".into()),
            Some((addr, h)) => {
                keep.push(h);
                use tokio::io::{AsyncReadExt, AsyncWriteExt};
                let t0 = Instant::now();
                let r: Result<String, String> = async {
                    let mut s = tokio::net::TcpStream::connect(&addr).await.map_err(|e| e.to_string())?;
                    s.write_all(b"CONNECT 192.0.2.7:80 HTTP/1.1\r\nHost: 192.0.2.7:80\r\n\r\n").await.map_err(|e| e.to_string())?;
                    let mut got = Vec::new();
                    let mut buf = [0u8; 512];
                    let _ = tokio::time::timeout(Duration::from_secs(50), async {
                        while !got.windows(2).any(|w| w == b"\r\n") {
                            match s.read(&mut buf).await {
                                Ok(n) if n > 0 => got.extend_from_slice(&buf[..n]),
                                _ => break,
                            }
                        }
                    })
                    .await
                    .map_err(|_| "timeout".to_string())?;
                    Ok(String::from_utf8_lossy(&got).lines().next().unwrap_or("").to_string())
                }
                .await;
                let el = t0.elapsed().as_millis() as u64;
                match r {
                    Ok(line) => Ok((line.split_whitespace().nth(1) == Some("200"), el, format!("status line {line:?}"))),
                    Err(e) if e.contains("timeout") => Err("the CONNECT request did not complete within 50 s".to_string()),
                    Err(e) => Ok((false, el, format!("connection failed ({e})"))),
                }
            }
        },
    };
    for h in keep {
        h.abort();
    }
    client.stop_session_pool_cleanup().await;
    // a late answer must be harmless: give it time to arrive when the script sends one
    if matches!(script, PeerScript::OkAfter33s) {
        tokio::time::sleep(Duration::from_secs(5)).await;
    }
    player.abort();
    (script, front, out)
}

// ---------------------------------------------------------------- (a) real stack

#[derive(Clone, Debug)]
enum Front {
    Api,
    Socks5,
    HttpConnect,
    HttpGet,
}

#[derive(Clone, Debug)]
enum Kind {
    Accepting,
    Refusing,
    Unresolvable,
}

struct World {
    client: Arc<anytls_rs::client::Client>,
    socks: String,
    http: String,
    target_port: u16,
    refused_port: u16,
    accepts: Arc<std::sync::Mutex<Vec<(std::net::SocketAddr, Instant)>>>,
    bytes_at_target: Arc<std::sync::Mutex<Vec<(std::net::SocketAddr, Vec<u8>)>>>,
    _keep: Vec<tokio::task::JoinHandle<()>>,
}

async fn build_world() -> Option<World> {
    let (server_addr, sh) = netkit::start_server(netkit::PASSWORD, engine::default_padding()).await?;
    let client = netkit::make_client(&server_addr, netkit::PASSWORD, engine::default_padding(), netkit::quiet_pool());
    let (socks, h1) = netkit::start_socks5(client.clone()).await?;
    let (http, h2) = netkit::start_http(client.clone()).await?;
    let mut t = Target::bind_v4(0).await?;
    let target_port = t.port;
    let accepts = t.accepts.clone();
    let bytes_at_target = Arc::new(std::sync::Mutex::new(Vec::new()));
    let b2 = bytes_at_target.clone();
    let drain = tokio::spawn(async move {
        while let Some(mut a) = t.rx.recv().await {
            let b2 = b2.clone();
            tokio::spawn(async move {
                // reply with a banner, then echo; record everything received
                let _ = a.stream.write_all(b"BANNER").await;
                let mut buf = vec![0u8; 4096];
                let mut all = Vec::new();
                loop {
                    match a.stream.read(&mut buf).await {
                        Ok(0) | Err(_) => break,
                        Ok(n) => {
                            all.extend_from_slice(&buf[..n]);
                            if a.stream.write_all(&buf[..n]).await.is_err() {
                                break;
                            }
                        }
                    }
                }
                b2.lock().unwrap().push((a.dialled, all));
            });
        }
    });
    // a port nobody listens on
    let refused_port = netkit::free_port();
    Some(World { client, socks, http, target_port, refused_port, accepts, bytes_at_target, _keep: vec![sh, h1, h2, drain] })
}

/// returns (told_connected, elapsed_ms, detail, echoed_ok)
async fn real_case(w: &World, front: &Front, kind: &Kind, uniq: u32, early: bool) -> Result<(bool, u64, String, Option<bool>), String> {
    let ip = netkit::uniq_ip(77, uniq);
    let (host, port) = match kind {
        Kind::Accepting => (ip.to_string(), w.target_port),
        Kind::Refusing => (ip.to_string(), w.refused_port),
        Kind::Unresolvable => (format!("nx{uniq}.invalid.test"), 80),
    };
    let t0 = Instant::now();
    let payload = format!("early-bytes-{uniq}");
    match front {
        Front::Api => {
            let r = tokio::time::timeout(Duration::from_secs(45), w.client.create_proxy_stream((host.clone(), port))).await.map_err(|_| "create_proxy_stream did not complete within 45 s".to_string())?;
            let el = t0.elapsed().as_millis() as u64;
            match r {
                Ok((st, sess)) => {
                    // exercise the tunnel: banner first, then echo
                    sess.write_data_frame(st.id(), Bytes::from(payload.clone())).await.map_err(|e| e.to_string())?;
                    let mut got = Vec::new();
                    let want = format!("BANNER{payload}");
                    let _ = tokio::time::timeout(Duration::from_secs(10), async {
                        let mut buf = [0u8; 256];
                        while got.len() < want.len() {
                            let n = st.reader().lock().await.read(&mut buf).await.unwrap_or(0);
                            if n == 0 {
                                break;
                            }
                            got.extend_from_slice(&buf[..n]);
                        }
                    })
                    .await;
                    Ok((true, el, String::new(), Some(got == want.as_bytes())))
                }
                Err(e) => Ok((false, el, e.to_string(), None)),
            }
        }
        Front::Socks5 => {
            let dest = match kind {
                Kind::Unresolvable => SocksDest::Name(host.clone(), port),
                _ => SocksDest::V4(ip, port),
            };
            let mut s = TcpStream::connect(&w.socks).await.map_err(|e| e.to_string())?;
            let mut first = vec![5u8, 1, 0];
            let mut req = vec![5u8, 1, 0];
            req.extend_from_slice(&dest.encode());
            if early {
                // an application that does not wait: greeting, request and data in one go
                first.extend_from_slice(&req);
                first.extend_from_slice(payload.as_bytes());
                s.write_all(&first).await.map_err(|e| e.to_string())?;
            } else {
                s.write_all(&first).await.map_err(|e| e.to_string())?;
            }
            let mut m = [0u8; 2];
            tokio::time::timeout(Duration::from_secs(45), s.read_exact(&mut m)).await.map_err(|_| "no method reply".to_string())?.map_err(|e| e.to_string())?;
            if !early {
                s.write_all(&req).await.map_err(|e| e.to_string())?;
            }
            let mut rep = [0u8; 10];
            let rr = tokio::time::timeout(Duration::from_secs(45), s.read_exact(&mut rep)).await.map_err(|_| "no SOCKS5 reply within 45 s".to_string())?;
            let el = t0.elapsed().as_millis() as u64;
            if rr.is_err() {
                return Ok((false, el, "connection closed without a reply".into(), None));
            }
            if rep[1] != 0 {
                // after a failure reply nothing more may come
                let mut extra = [0u8; 16];
                let n = tokio::time::timeout(Duration::from_secs(3), s.read(&mut extra)).await.ok().and_then(|r| r.ok()).unwrap_or(0);
                return Ok((false, el, format!("reply code {}{}", rep[1], if n > 0 { " FOLLOWED BY MORE BYTES" } else { "" }), None));
            }
            if !early {
                s.write_all(payload.as_bytes()).await.map_err(|e| e.to_string())?;
            }
            let want = format!("BANNER{payload}");
            let mut got = vec![0u8; want.len()];
            let ok = tokio::time::timeout(Duration::from_secs(10), s.read_exact(&mut got)).await.ok().and_then(|r| r.ok()).is_some() && got == want.as_bytes();
            Ok((true, el, String::new(), Some(ok)))
        }
        Front::HttpConnect | Front::HttpGet => {
            let mut s = TcpStream::connect(&w.http).await.map_err(|e| e.to_string())?;
            let reqline = if matches!(front, Front::HttpConnect) { format!("CONNECT {host}:{port} HTTP/1.1\r\nHost: {host}:{port}\r\n\r\n") } else { format!("GET http://{host}:{port}/x{uniq} HTTP/1.1\r\nHost: {host}:{port}\r\n\r\n") };
            s.write_all(reqline.as_bytes()).await.map_err(|e| e.to_string())?;
            let mut got = Vec::new();
            let mut buf = [0u8; 512];
            let deadline = Instant::now() + Duration::from_secs(45);
            // read until we can classify: "HTTP/1.1 200" (CONNECT), "HTTP/1.1 502", or the target's banner (GET is forwarded)
            loop {
                let n = tokio::time::timeout_at(deadline, s.read(&mut buf)).await.map_err(|_| "no HTTP answer within 45 s".to_string())?.unwrap_or(0);
                if n == 0 {
                    break;
                }
                got.extend_from_slice(&buf[..n]);
                if got.len() >= 12 || got.starts_with(b"BANNER") {
                    break;
                }
            }
            let el = t0.elapsed().as_millis() as u64;
            let text = String::from_utf8_lossy(&got).to_string();
            let connected = if matches!(front, Front::HttpConnect) { text.starts_with("HTTP/1.1 200") } else { text.starts_with("BANNER") };
            Ok((connected, el, text.chars().take(40).collect(), None))
        }
    }
}

/// one open of `name:port` through create_proxy_stream or the HTTP CONNECT front-end: was the application told "connected"?
async fn connect_verdict(w: &World, via_http: bool, name: &str, port: u16) -> Result<bool, String> {
    if !via_http {
        match tokio::time::timeout(Duration::from_secs(40), w.client.create_proxy_stream((name.to_string(), port))).await {
            Err(_) => Err("did not complete within 40 s".into()),
            Ok(Ok(_)) => Ok(true),
            Ok(Err(_)) => Ok(false),
        }
    } else {
        let mut s = TcpStream::connect(&w.http).await.map_err(|e| e.to_string())?;
        s.write_all(format!("CONNECT {name}:{port} HTTP/1.1\r\nHost: {name}:{port}\r\n\r\n").as_bytes()).await.map_err(|e| e.to_string())?;
        let mut got = Vec::new();
        let mut buf = [0u8; 512];
        let done = tokio::time::timeout(Duration::from_secs(40), async {
            while !got.windows(2).any(|x| x == b"\r\n") {
                match s.read(&mut buf).await {
                    Ok(n) if n > 0 => got.extend_from_slice(&buf[..n]),
                    _ => break,
                }
            }
        })
        .await;
        if done.is_err() {
            return Err("did not complete within 40 s".into());
        }
        Ok(String::from_utf8_lossy(&got).lines().next().unwrap_or("").split_whitespace().nth(1) == Some("200"))
    }
}

// ---------------------------------------------------------------- (c) first outcome wins, session level

async fn first_outcome_cases(rep: &mut Report) {
    // (sequence of answers for the opened stream, expected outcome)
    let seqs: Vec<(Vec<Option<&'static [u8]>>, bool)> = vec![
        (vec![Some(b"")], true),
        (vec![Some(b"no route")], false),
        (vec![Some(b""), Some(b"late error")], true),
        (vec![Some(b"early error"), Some(b"")], false),
        (vec![Some(b""), Some(b""), Some(b"")], true),
        (vec![None], false), // session dies instead
    ];
    for (i, (seq, want_ok)) in seqs.iter().enumerate() {
        let cv = engine::client_vs_raw(PipeCfg::plain(), PipeCfg::plain(), engine::no_padding(), None).await;
        let mut peer = cv.peer;
        let Ok((st, rx)) = engine::open_like_client(&cv.client, Bytes::from_static(b"dst")).await else {
            rep.inconclusive("open failed");
            continue;
        };
        // stray answers for ids that do not exist must be ignored
        let _ = peer.send(refcodec::SYNACK, st.id() + 7, b"not yours").await;
        let _ = peer.send(refcodec::SYNACK, 0, &[]).await;
        for a in seq {
            match a {
                Some(d) => {
                    let _ = peer.send(refcodec::SYNACK, st.id(), d).await;
                }
                None => {
                    let _ = peer.w.shutdown().await;
                }
            }
        }
        let r = tokio::time::timeout(Duration::from_secs(60), rx).await;
        rep.case(Some(hash_str(&format!("first-outcome:{i}"))));
        rep.add("first_outcome_sequences", 1);
        let got_ok = matches!(r, Ok(Ok(Ok(()))));
        let resolved = r.is_ok();
        if !resolved {
            rep.violate("open_verdict", "synack_sequence", "open_never_completed", format!("answers {:?}: the pending open was not resolved within 60 virtual seconds", seq.iter().map(|a| a.map(|d| String::from_utf8_lossy(d).to_string())).collect::<Vec<_>>()), json!({"kind": "c10-first-outcome", "index": i}));
        } else if got_ok != *want_ok {
            rep.violate("open_verdict", "synack_sequence", "not_first_outcome", format!("answers {:?}: the open completed with {} but the first outcome was {}", seq.iter().map(|a| a.map(|d| String::from_utf8_lossy(d).to_string())).collect::<Vec<_>>(), if got_ok { "success" } else { "failure" }, if *want_ok { "success" } else { "failure" }), json!({"kind": "c10-first-outcome", "index": i}));
        }
        let _ = tokio::time::timeout(Duration::from_secs(5), cv.client.close()).await;
    }
}

/// the peer answers a SYN the moment it has parsed its header, while the client's (padded) write of
/// that packet is still crawling through a tiny transport: the verdict must still arrive
async fn early_answer_cases(rep: &mut Report) {
    use crate::mempipe::Frag;
    for (ci, (cap, answer_err)) in [(4usize, false), (4, true), (1, false), (16, true), (64, false)].into_iter().enumerate() {
        let c2s = PipeCfg { capacity: cap, write_frag: Frag::All, read_frag: Frag::All, pending_prob: 0.0, seed: ci as u64 };
        let cv = engine::client_vs_raw(c2s, PipeCfg::plain(), engine::default_padding(), None).await;
        let mut peer = cv.peer;
        let responder = tokio::spawn(async move {
            while let Some(f) = peer.recv().await {
                if f.cmd == refcodec::SYN {
                    let _ = peer.send(refcodec::SYNACK, f.sid, if answer_err { b"refused early".as_slice() } else { b"".as_slice() }).await;
                }
            }
        });
        for k in 0..4 {
            let r = tokio::time::timeout(Duration::from_secs(120), engine::open_like_client(&cv.client, Bytes::from_static(b"destination"))).await;
            rep.case(Some(hash_str(&format!("early-answer:{ci}:{k}"))));
            rep.add("early_answer_opens", 1);
            let case = json!({"kind": "c10-early-answer", "transport_capacity": cap, "answer": if answer_err { "error" } else { "ok" }, "open_number": k});
            match r {
                Ok(Ok((_st, rx))) => match tokio::time::timeout(Duration::from_secs(60), rx).await {
                    Ok(Ok(Ok(()))) if !answer_err => {}
                    Ok(Ok(Err(_))) if answer_err => {}
                    Ok(other) => rep.violate("open_verdict", "answer_before_open_returned", "wrong_verdict", format!("open #{k}: the peer answered {} as soon as it saw the SYN; the open resolved with {:?}", if answer_err { "an error" } else { "success" }, other.map(|x| x.map_err(|e| e.to_string()))), case),
                    Err(_) => rep.violate("open_verdict", "answer_before_open_returned", "open_never_completed", format!("open #{k} over a {cap}-byte transport: the peer answered the SYN immediately (while the rest of the packet was still being written), but the pending open was not resolved within 60 virtual seconds"), case),
                },
                Ok(Err(e)) => rep.inconclusive(format!("open failed: {e}")),
                Err(_) => rep.violate("open_verdict", "answer_before_open_returned", "open_blocked", format!("open #{k} did not return within 120 virtual seconds"), case),
            }
        }
        responder.abort();
        let _ = tokio::time::timeout(Duration::from_secs(5), cv.client.close()).await;
    }
}

pub fn run(ctx: Ctx) -> Report {
    let quick = ctx.tier == crate::report::Tier::Quick;
    let mut rep = Report::new("C10");
    run::case_begin("C10 session level");
    let mut r1 = Report::new("C10");
    run::vt_block_on(async {
        first_outcome_cases(&mut r1).await;
        early_answer_cases(&mut r1).await;
    });
    rep.merge(r1);

    run::case_begin("C10 e2e");
    let out = run::rt_block_on(8, async move {
        let mut rep = Report::new("C10");
        let Some(dns) = netkit::start_fake_dns().await else {
            rep.inconclusive("cannot start fake DNS");
            return rep;
        };
        if !netkit::use_fake_dns(&dns).await {
            rep.inconclusive("cannot install fake DNS");
            return rep;
        }
        // ---- (b) scripted peer
        let mut scripts = vec![
            PeerScript::OkAfter(0),
            PeerScript::OkAfter(1500),
            PeerScript::ErrAfter(0),
            PeerScript::ErrAfter(1200),
            PeerScript::OkThenErr,
            PeerScript::ErrThenOk,
            PeerScript::UnknownIdThenOk,
            PeerScript::OkBeforeDestination,
            PeerScript::CloseAfter(0),
            PeerScript::CloseAfter(1500),
            PeerScript::AlertAfter(0),
            PeerScript::AlertAfter(1000),
        ];
        if !quick {
            scripts.extend([PeerScript::OkAfter(10_000), PeerScript::OkAfter(25_000), PeerScript::Never, PeerScript::OkAfter33s, PeerScript::ErrAfter(20_000), PeerScript::CloseAfter(12_000), PeerScript::AlertAfter(27_000)]);
            let more = scripts.clone();
            scripts.extend(more); // every script twice
        }
        let mut set = tokio::task::JoinSet::new();
        for s in scripts {
            // the front-ends must pass the same verdict on to the application (a failed open is never "succeeded")
            for front in 0..3u8 {
                if front > 0 && matches!(s, PeerScript::OkAfter33s) {
                    continue;
                }
                set.spawn(scripted_case(s.clone(), front));
            }
        }
        while let Some(Ok((script, front, out))) = set.join_next().await {
            let mut ex = expectation(&script);
            if front > 0 {
                // the application sees a reply code / status line, not the error text
                ex.err_has = None;
                ex.err_has_not = None;
            }
            let via = ["create_proxy_stream", "SOCKS5 front-end", "HTTP CONNECT front-end"][front as usize];
            rep.case(Some(hash_str(&format!("{:?}/{front}", script))));
            rep.add("scripted_peer_cases", 1);
            if front > 0 {
                rep.add("scripted_peer_cases_through_a_front_end", 1);
            }
            rep.seen("scripted_answers", format!("{:?}", script));
            let case = json!({"kind": "c10-scripted", "script": format!("{:?}", script), "via": via});
            match out {
                Err(e) => {
                    if e.contains("did not complete") {
                        rep.violate("open_verdict", &format!("{:?}", script), "open_never_completed", e, case);
                    } else {
                        rep.inconclusive(e);
                    }
                }
                Ok((ok, el, msg)) => {
                    if rep.samples.len() < 3 {
                        rep.sample(json!({"script": format!("{:?}", script), "completed_ok": ok, "after_ms": el, "error": msg}));
                    }
                    if ok != ex.ok {
                        rep.violate("open_verdict", &format!("{:?}", script), if ok { "success_without_server_success" } else { "failure_although_server_succeeded" }, format!("scripted answer {:?}: {via} completed with {} after {el} ms ({msg})", script, if ok { "success" } else { "failure" }), case.clone());
                    } else if el < ex.lo.saturating_sub(300) || el > ex.hi {
                        rep.violate("open_verdict", &format!("{:?}", script), "completed_at_wrong_time", format!("scripted answer {:?} via {via}: completed after {el} ms, expected within [{}, {}] ms ({msg})", script, ex.lo, ex.hi), case.clone());
                    } else if !ok {
                        if let Some(h) = ex.err_has
                            && !msg.to_lowercase().contains(h)
                        {
                            rep.violate("open_verdict", &format!("{:?}", script), "failure_reason_missing", format!("scripted answer {:?}: error {:?} does not carry {:?}", script, msg, h), case.clone());
                        }
                        if let Some(h) = ex.err_has_not
                            && msg.to_lowercase().contains(h)
                        {
                            rep.violate("open_verdict", &format!("{:?}", script), "reported_as_timeout", format!("scripted answer {:?}: error {:?}", script, msg), case.clone());
                        }
                    }
                }
            }
        }
        // ---- (a) real stack
        let Some(w) = build_world().await else {
            rep.inconclusive("cannot build the loopback world");
            return rep;
        };
        let w = Arc::new(w);
        let mut jobs = Vec::new();
        let mut uniq = 1u32;
        let rounds = if quick { 3 } else { 40 };
        for _ in 0..rounds {
            for front in [Front::Api, Front::Socks5, Front::HttpConnect, Front::HttpGet] {
                for kind in [Kind::Accepting, Kind::Refusing, Kind::Unresolvable] {
                    for early in [false, true] {
                        if early && !matches!(front, Front::Socks5) {
                            continue;
                        }
                        uniq += 1;
                        jobs.push((front.clone(), kind.clone(), uniq, early));
                    }
                }
            }
        }
        let results = Arc::new(std::sync::Mutex::new(Vec::new()));
        {
            let w = w.clone();
            let results = results.clone();
            // many of these race on the same session(s) of the shared client
            netkit::for_each_limited(jobs, 32, move |(front, kind, uniq, early)| {
                let w = w.clone();
                let results = results.clone();
                async move {
                    let r = real_case(&w, &front, &kind, uniq, early).await;
                    results.lock().unwrap().push((front, kind, uniq, early, r));
                }
            })
            .await;
        }
        tokio::time::sleep(Duration::from_millis(500)).await;
        let accepts = w.accepts.lock().unwrap().clone();
        let at_target = w.bytes_at_target.lock().unwrap().clone();
        let results = results.lock().unwrap().clone();
        for (front, kind, uniq, early, r) in results {
            let ip = netkit::uniq_ip(77, uniq);
            let cause = format!("{:?}+{:?}{}", kind, front, if early { "+early_sender" } else { "" });
            let case = json!({"kind": "c10-real", "front": format!("{:?}", front), "target": format!("{:?}", kind), "uniq": uniq, "early": early});
            rep.case(Some(hash_str(&case.to_string())));
            rep.add("real_stack_opens", 1);
            rep.add(&format!("targets_{:?}", kind).to_lowercase(), 1);
            let accepted = accepts.iter().any(|(a, _)| a.ip() == std::net::IpAddr::V4(ip));
            match r {
                Err(e) => {
                    if e.contains("did not complete") || e.contains("within 45 s") {
                        rep.violate("open_verdict", &cause, "open_never_completed", e, case);
                    } else {
                        rep.inconclusive(format!("{cause}: {e}"));
                    }
                }
                Ok((connected, el, detail, echoed)) => {
                    match kind {
                        Kind::Accepting => {
                            if !connected {
                                rep.violate("open_verdict", &cause, "failure_although_target_accepted", format!("target accepted={accepted}, but the application was told failure after {el} ms: {detail}"), case.clone());
                            } else if !accepted {
                                rep.violate("open_verdict", &cause, "success_without_target_connection", format!("the application was told 'connected' but the target never accepted a connection for {ip}"), case.clone());
                            } else {
                                rep.add("successful_opens_confirmed_by_accept", 1);
                                if echoed == Some(false) {
                                    rep.violate("open_verdict", &cause, "tunnel_data_wrong_after_success", "bytes sent (before or after the success reply) did not come back exactly once, in order, after the banner".to_string(), case.clone());
                                }
                            }
                        }
                        Kind::Refusing | Kind::Unresolvable => {
                            if connected {
                                rep.violate("open_verdict", &cause, "success_reported_on_failure", format!("the application was told 'connected' for a target that cannot be reached: {detail}"), case.clone());
                            } else {
                                rep.add("failed_opens_reported_as_failure", 1);
                                if detail.contains("FOLLOWED BY MORE BYTES") {
                                    rep.violate("open_verdict", &cause, "reply_sent_twice", detail.clone(), case.clone());
                                }
                                // the server knows at once why it failed: a wait of ~30 s means the reason was never reported
                                if el > 20_000 {
                                    rep.violate("open_verdict", &cause, "failure_reason_not_reported", format!("the server could not reach the target, but the open only ended after {el} ms with: {detail}"), case.clone());
                                } else if matches!(front, Front::Api) && !(detail.contains("Failed to") || detail.contains("resolve") || detail.contains("refused") || detail.contains("DNS")) {
                                    rep.violate("open_verdict", &cause, "failure_reason_missing", format!("error does not carry the server's reason: {detail}"), case.clone());
                                }
                            }
                            if at_target.iter().any(|(a, b)| a.ip() == std::net::IpAddr::V4(ip) && !b.is_empty()) {
                                rep.violate("open_verdict", &cause, "bytes_delivered_without_success", "application bytes reached a target although the open failed".to_string(), case.clone());
                            }
                        }
                    }
                }
            }
        }
        // ---- the same name on several ports, one open after the other (whatever the server remembers about a name
        // from an earlier open must not decide the verdict of a later one): name:listening, name:closed,
        // name:listening again — and the other way round for another name. One at a time, so that accept counts
        // belong to the request.
        for (i, via_http) in [(0u32, false), (1, true), (2, false), (3, true)] {
            let name = format!("ports{i}-{}.c10.test", std::process::id());
            let ip = std::net::IpAddr::V4(netkit::name_to_v4(&name));
            let order: Vec<(u16, bool)> = if i < 2 { vec![(w.target_port, true), (w.refused_port, false), (w.target_port, true), (w.refused_port, false)] } else { vec![(w.refused_port, false), (w.target_port, true), (w.refused_port, false)] };
            let front = if via_http { "HttpConnect" } else { "Api" };
            let mut history = Vec::new();
            for (port, listening) in order {
                let accepts_before = w.accepts.lock().unwrap().iter().filter(|(a, _)| a.ip() == ip).count();
                let t0 = Instant::now();
                let v = connect_verdict(&w, via_http, &name, port).await;
                let el = t0.elapsed().as_millis() as u64;
                tokio::time::sleep(Duration::from_millis(120)).await;
                let new_accepts = w.accepts.lock().unwrap().iter().filter(|(a, _)| a.ip() == ip).count() - accepts_before;
                history.push(json!({"port_listening": listening, "told_connected": format!("{:?}", v), "new_accepts_at_target": new_accepts, "ms": el}));
                let case = json!({"kind": "c10-same-name-other-port", "front": front, "history": history.clone()});
                rep.case(Some(hash_str(&case.to_string())));
                rep.add("same_name_other_port_opens", 1);
                let cause = format!("SameNameOtherPort+{front}");
                match v {
                    Err(e) => rep.violate("open_verdict", &cause, "open_never_completed", e, case),
                    Ok(connected) => {
                        if connected && !listening {
                            rep.violate("open_verdict", &cause, "success_reported_on_failure", format!("{name}:{port} has no listener, yet the application was told 'connected' ({new_accepts} new connection(s) arrived at the listening port of the same name); history {history:?}"), case);
                        } else if !connected && listening {
                            rep.violate("open_verdict", &cause, "failure_although_target_accepted", format!("{name}:{port} is listening, yet the application was told failure after {el} ms; history {history:?}"), case);
                        } else if connected && new_accepts != 1 {
                            rep.violate("open_verdict", &cause, "success_without_target_connection", format!("told 'connected' for {name}:{port} but {new_accepts} connections arrived there; history {history:?}"), case);
                        } else if !connected && new_accepts != 0 {
                            rep.violate("open_verdict", &cause, "target_dialled_for_failed_open", format!("the open of {name}:{port} (no listener) failed, yet {new_accepts} connection(s) arrived at the listening port of the same name; history {history:?}"), case);
                        }
                    }
                }
            }
        }
        // ---- names that the tunnel's one-byte length field cannot carry (more than 255 bytes, though not more than
        // 255 characters): the open must fail, and nothing may be dialled on its behalf — one at a time, so that
        // every server-side event in the window belongs to the request
        use anytls_rs::verif::Event;
        let long_names: Vec<String> = vec![format!("{}.test", "é".repeat(130)), "€".repeat(86), format!("{}{}", "a".repeat(200), "é".repeat(30)), format!("{}.{}", "ü".repeat(126), "x".repeat(10)), "é".repeat(255)];
        for name in &long_names {
            for via_http in [false, true] {
                let before = anytls_rs::verif::event_count();
                let accepts_before = w.accepts.lock().unwrap().len();
                let connected: Result<bool, String> = if !via_http {
                    match tokio::time::timeout(Duration::from_secs(40), w.client.create_proxy_stream((name.clone(), w.target_port))).await {
                        Err(_) => Err("did not complete within 40 s".into()),
                        Ok(Ok(_)) => Ok(true),
                        Ok(Err(_)) => Ok(false),
                    }
                } else {
                    use tokio::io::{AsyncReadExt, AsyncWriteExt};
                    async {
                        let mut s = tokio::net::TcpStream::connect(&w.http).await.map_err(|e| e.to_string())?;
                        s.write_all(format!("CONNECT {name}:{} HTTP/1.1\r\nHost: {name}:{}\r\n\r\n", w.target_port, w.target_port).as_bytes()).await.map_err(|e| e.to_string())?;
                        let mut got = Vec::new();
                        let mut buf = [0u8; 512];
                        let _ = tokio::time::timeout(Duration::from_secs(40), async {
                            while !got.windows(2).any(|x| x == b"\r\n") {
                                match s.read(&mut buf).await {
                                    Ok(n) if n > 0 => got.extend_from_slice(&buf[..n]),
                                    _ => break,
                                }
                            }
                        })
                        .await;
                        Ok(String::from_utf8_lossy(&got).lines().next().unwrap_or("").split_whitespace().nth(1) == Some("200"))
                    }
                    .await
                };
                tokio::time::sleep(Duration::from_millis(150)).await;
                let events: Vec<Event> = anytls_rs::verif::events().into_iter().skip(before).collect();
                let acted: Vec<String> = events.iter().filter_map(|e| match e {
                    Event::Destination { host, port, .. } => Some(format!("decoded {host}:{port}")),
                    Event::Dial { addr, .. } => Some(format!("dialled {addr}")),
                    _ => None,
                }).collect();
                let new_accepts = w.accepts.lock().unwrap().len() - accepts_before;
                let front = if via_http { "HttpConnect" } else { "Api" };
                let case = json!({"kind": "c10-unencodable-name", "front": front, "name_bytes": name.len(), "name_chars": name.chars().count()});
                rep.case(Some(hash_str(&case.to_string())));
                rep.add("opens_for_names_longer_than_the_length_field", 1);
                match connected {
                    Err(e) => rep.violate("open_verdict", &format!("UnencodableName+{front}"), "open_never_completed", e, case),
                    Ok(c) => {
                        if c {
                            rep.violate("open_verdict", &format!("UnencodableName+{front}"), "success_reported_on_failure", format!("a host name of {} bytes ({} characters) cannot be carried by the tunnel's one-byte length field, yet the application was told 'connected' (server-side events: {:?}, new target connections: {new_accepts})", name.len(), name.chars().count(), acted), case);
                        } else if !acted.is_empty() || new_accepts > 0 {
                            rep.violate("open_verdict", &format!("UnencodableName+{front}"), "server_acted_on_a_mangled_destination", format!("a host name of {} bytes ({} characters) cannot be carried by the tunnel; the open failed, but the server was made to act on something else: {:?} (new target connections: {new_accepts})", name.len(), name.chars().count(), acted), case);
                        }
                    }
                }
            }
        }
        rep
    });
    rep.merge(out);
    for p in run::panic_log() {
        if !run::is_harness_panic(&p) {
            rep.violate("open_verdict", "any", "panic", p, json!({}));
        }
    }
    run::case_end();
    rep
}

pub fn meta() -> CheckMeta {
    CheckMeta {
        level: "exploration",
        rule: "(a) real Client/Server/SOCKS5/HTTP over loopback: accepting (banner + echo), refusing (closed port) and unresolvable (fake-DNS NXDOMAIN) targets through create_proxy_stream, SOCKS5 (also with an application that sends greeting+request+data in one segment), HTTP CONNECT and HTTP GET, 32 in flight on shared sessions; outcome compared with the scripted truth, accept log and bytes seen at the targets; a failure that only ends after > 20 s means the server's reason was never reported. (b) the real Client against a scripted TLS peer: SYNACK ok/error at 0-1.5 s (thorough: 10 s, 25 s, 20 s, never, 33 s), ok-then-error, error-then-ok, answers for unknown ids then ok, ok before the destination frame, connection close and Alert during the wait; verdict, completion time window and error text checked. (c) session level, virtual time: first-outcome-wins over SYNACK sequences with stray answers for unknown ids, and session death; plus a peer that answers each SYN the moment it has parsed it while the client's padded write is still crawling through a 1-64 byte transport. distinct_nontrivial = distinct cases. Every scripted answer is also played through the SOCKS5 front-end and the HTTP CONNECT front-end: the application is told success (reply 00 / status 200) iff the scripted server said success, inside the same time window; closing without a reply counts as failure. Names of more than 255 bytes but at most 255 characters (multi-byte UTF-8), which the tunnel's one-byte length field cannot carry, through create_proxy_stream and HTTP CONNECT, one at a time: the open must fail and no Destination / Dial event and no target connection may result.".into(),
        assumptions: vec!["real-time windows are generous (+4-5 s) and only decide between well-separated instants".into(), "exactly-once completion of create_proxy_stream itself is structural (an async fn returns once); for SOCKS5/HTTP a second reply after a failure reply is looked for".into()],
        floors: vec![("scripted_peer_cases", 10), ("real_stack_opens", 30), ("successful_opens_confirmed_by_accept", 8), ("failed_opens_reported_as_failure", 10), ("first_outcome_sequences", 6), ("early_answer_opens", 15), ("opens_for_names_longer_than_the_length_field", 8), ("scripted_peer_cases_through_a_front_end", 15), ("same_name_other_port_opens", 10)],
        exhaustive: false,
    }
}
