//! C02 — streams sharing a session never see each other's bytes.
//! A raw scripted peer interleaves hostile but well-formed frames (unknown /
//! never-opened / finished ids, duplicate SYN, stray SYNACK/FIN, unknown
//! commands) with tagged data for the live streams of a real Session; every
//! live stream must read exactly its own bytes and end iff its own FIN came.
//! (The cooperative many-stream workload of C01 also runs here with 2-16 streams.)

use super::mux;
use crate::engine;
use crate::mempipe::{Frag, PipeCfg};
use crate::prng::{Pattern, Rng};
use crate::refcodec;
use crate::report::{CheckMeta, Report, hash_str};
use crate::run::{self, Ctx};
use anytls_rs::session::Stream;
use bytes::Bytes;
use serde_json::{Value, json};
use std::collections::HashMap;
use std::sync::{Arc, Mutex};
use std::time::Duration;

#[derive(Clone, Debug)]
pub enum Ev {
    Syn(u32),
    Psh(u32, usize),
    Fin(u32),
    /// hostile / stray frame: (cmd, sid, payload length)
    Raw(u8, u32, usize),
}

#[derive(Clone, Debug)]
pub struct Script {
    pub seed: u64,
    /// true: the victim is a real server session (raw client); false: real client session (raw server)
    pub victim_server: bool,
    pub evs: Vec<Ev>,
    pub pipe: u8,
}

impl Script {
    fn describe(&self) -> Value {
        json!({"kind": "c02", "seed": self.seed.to_string(), "victim": if self.victim_server { "server" } else { "client" }, "pipe": self.pipe,
            "script": self.evs.iter().map(|e| match e { Ev::Syn(i) => format!("SYN {i}"), Ev::Psh(i, n) => format!("PSH {i} {n}"), Ev::Fin(i) => format!("FIN {i}"), Ev::Raw(c, i, n) => format!("RAW {} {i} {n}", refcodec::cmd_name(*c)) }).collect::<Vec<_>>()})
    }
}

#[derive(Default, Clone)]
struct Inst {
    id: u32,
    sent: Vec<u8>,
    fin: bool,
    judged: bool,
}

#[derive(Default)]
struct Got {
    bytes: Vec<u8>,
    eof: bool,
    err: Option<String>,
}

fn pipe_cfg(kind: u8, seed: u64) -> PipeCfg {
    match kind {
        0 => PipeCfg::plain(),
        1 => PipeCfg { read_frag: Frag::Pool(vec![1, 6, 7, 8, 20]), ..PipeCfg::plain() },
        _ => PipeCfg { read_frag: Frag::Random(60), write_frag: Frag::Random(30), pending_prob: 0.15, seed, capacity: 4096 },
    }
}

fn spawn_reader(st: Arc<Stream>, slot: Arc<Mutex<Got>>) {
    tokio::spawn(async move {
        let mut buf = vec![0u8; 3000];
        loop {
            let r = {
                let mut g = st.reader().lock().await;
                g.read(&mut buf).await
            };
            match r {
                Ok(0) => {
                    slot.lock().unwrap().eof = true;
                    break;
                }
                Ok(n) => slot.lock().unwrap().bytes.extend_from_slice(&buf[..n]),
                Err(e) => {
                    slot.lock().unwrap().err = Some(e.to_string());
                    break;
                }
            }
        }
    });
}

/// returns problems (cause, symptom, detail) and counters
async fn run_async(sc: Script) -> (Vec<(String, String, String)>, u64, u64) {
    let mut problems = Vec::new();
    let pc = pipe_cfg(sc.pipe, sc.seed);
    // model: walk the script
    let mut insts: Vec<Inst> = Vec::new();
    let mut live: HashMap<u32, usize> = HashMap::new();
    let mut slots: Vec<Arc<Mutex<Got>>> = Vec::new();
    let mut hostile = 0u64;
    let mut bytes_checked = 0u64;

    if sc.victim_server {
        let mut rv = engine::raw_vs_server(pc.clone(), PipeCfg::plain(), engine::no_padding());
        let _ = rv.peer.send(refcodec::SETTINGS, 0, &engine::settings_payload("x")).await;
        let slots_shared: Arc<Mutex<Vec<Arc<Mutex<Got>>>>> = Arc::new(Mutex::new(Vec::new()));
        {
            // the k-th stream announced by the session belongs to the k-th SYN of the script
            let slots_shared = slots_shared.clone();
            let mut ns = std::mem::replace(&mut rv.new_streams, tokio::sync::mpsc::unbounded_channel().1);
            tokio::spawn(async move {
                while let Some(st) = ns.recv().await {
                    let slot = Arc::new(Mutex::new(Got::default()));
                    slots_shared.lock().unwrap().push(slot.clone());
                    spawn_reader(st, slot);
                }
            });
        }
        for ev in &sc.evs {
            let r = match ev {
                Ev::Syn(id) => {
                    let dup = live.contains_key(id);
                    if dup {
                        // a duplicate SYN may end that id; neither generation is judged, other ids are
                        insts[live[id]].judged = false;
                        hostile += 1;
                    }
                    insts.push(Inst { id: *id, judged: !dup, ..Default::default() });
                    live.insert(*id, insts.len() - 1);
                    rv.peer.send(refcodec::SYN, *id, &[]).await
                }
                Ev::Psh(id, n) => {
                    if let Some(&i) = live.get(id) {
                        let off = insts[i].sent.len() as u64;
                        let data = Pattern::new(sc.seed, i as u64 + 1, 0).make(off, *n);
                        insts[i].sent.extend_from_slice(&data);
                        rv.peer.send(refcodec::PSH, *id, &data).await
                    } else {
                        hostile += 1;
                        rv.peer.send(refcodec::PSH, *id, &vec![0xEE; *n]).await
                    }
                }
                Ev::Fin(id) => {
                    if let Some(i) = live.remove(id) {
                        insts[i].fin = true;
                    } else {
                        hostile += 1;
                    }
                    rv.peer.send(refcodec::FIN, *id, &[]).await
                }
                Ev::Raw(c, id, n) => {
                    hostile += 1;
                    rv.peer.send(*c, *id, &vec![0xDD; *n]).await
                }
            };
            if r.is_err() {
                problems.push(("hostile_frames".into(), "session_died".into(), format!("the victim's transport went away while sending {:?}", ev)));
                break;
            }
        }
        tokio::time::sleep(Duration::from_secs(2)).await;
        slots = slots_shared.lock().unwrap().clone();
        if rv.server.is_closed() {
            problems.push(("hostile_frames".into(), "session_died".into(), "the victim session closed although no frame asked for it".into()));
        }
    } else {
        let mut cv = engine::client_vs_raw(PipeCfg::plain(), pc.clone(), engine::no_padding(), None).await;
        // the client opens the streams named by the script's SYN events (ids are allocated 1,2,3,... by the client)
        for ev in &sc.evs {
            let r = match ev {
                Ev::Syn(_) => {
                    match engine::open_like_client(&cv.client, Bytes::from_static(b"dst")).await {
                        Ok((st, _rx)) => {
                            insts.push(Inst { id: st.id(), judged: true, ..Default::default() });
                            live.insert(st.id(), insts.len() - 1);
                            let slot = Arc::new(Mutex::new(Got::default()));
                            slots.push(slot.clone());
                            spawn_reader(st, slot);
                        }
                        Err(e) => problems.push(("hostile_frames".into(), "open_failed".into(), e.to_string())),
                    }
                    Ok(())
                }
                Ev::Psh(id, n) => {
                    // ids in the script are 1-based indexes of opened streams when they exist
                    if let Some(&i) = live.get(id) {
                        let off = insts[i].sent.len() as u64;
                        let data = Pattern::new(sc.seed, i as u64 + 1, 0).make(off, *n);
                        insts[i].sent.extend_from_slice(&data);
                        cv.peer.send(refcodec::PSH, *id, &data).await
                    } else {
                        hostile += 1;
                        cv.peer.send(refcodec::PSH, *id, &vec![0xEE; *n]).await
                    }
                }
                Ev::Fin(id) => {
                    if let Some(i) = live.remove(id) {
                        insts[i].fin = true;
                    } else {
                        hostile += 1;
                    }
                    cv.peer.send(refcodec::FIN, *id, &[]).await
                }
                Ev::Raw(c, id, n) => {
                    hostile += 1;
                    cv.peer.send(*c, *id, &vec![0xDD; *n]).await
                }
            };
            if r.is_err() {
                problems.push(("hostile_frames".into(), "session_died".into(), format!("the victim's transport went away while sending {:?}", ev)));
                break;
            }
        }
        tokio::time::sleep(Duration::from_secs(2)).await;
        if cv.client.is_closed() {
            problems.push(("hostile_frames".into(), "session_died".into(), "the victim session closed although no frame asked for it".into()));
        }
    }

    // judge every instance that was not subject to a duplicate SYN
    if sc.victim_server && slots.len() != insts.len() {
        problems.push(("hostile_frames".into(), "stream_count_differs".into(), format!("{} SYN frames were sent, the session announced {} streams", insts.len(), slots.len())));
    }
    for (i, inst) in insts.iter().enumerate() {
        let Some(slot) = slots.get(i) else { continue };
        if !inst.judged {
            continue;
        }
        let g = slot.lock().unwrap();
        bytes_checked += g.bytes.len() as u64;
        if g.bytes != inst.sent {
            let pat = Pattern::new(sc.seed, i as u64 + 1, 0);
            let at = pat.first_mismatch(0, &g.bytes).unwrap_or(g.bytes.len().min(inst.sent.len()));
            let foreign = g.bytes.get(at).map(|b| *b == 0xEE || *b == 0xDD).unwrap_or(false);
            problems.push((
                "hostile_frames".into(),
                if g.bytes.len() > inst.sent.len() || foreign { "foreign_bytes_on_stream" } else if g.bytes.len() < inst.sent.len() { "bytes_disappeared_from_stream" } else { "stream_content_altered" }.into(),
                format!("stream id {} (instance {i}): {} bytes were addressed to it, it read {}; first difference at offset {at}{}", inst.id, inst.sent.len(), g.bytes.len(), if foreign { " (a byte that was addressed to another / unknown id)" } else { "" }),
            ));
        }
        if g.eof != inst.fin {
            problems.push(("hostile_frames".into(), if g.eof { "stream_ended_without_its_fin" } else { "stream_not_ended_by_its_fin" }.into(), format!("stream id {} (instance {i}): its FIN was {}sent, end of stream was {}observed", inst.id, if inst.fin { "" } else { "not " }, if g.eof { "" } else { "not " })));
        }
        if let Some(e) = &g.err {
            problems.push(("hostile_frames".into(), "stream_read_error".into(), format!("stream id {}: {e}", inst.id)));
        }
    }
    (problems, hostile, bytes_checked)
}

fn gen_hostile(rng: &mut Rng, live_ids: &[u32], finished: &[u32], victim_server: bool) -> Ev {
    let unknown = [0u32, 1000, 77, u32::MAX, u32::MAX - 1, 0x8000_0000];
    let pick_unknown = |rng: &mut Rng| *rng.pick(&unknown);
    match rng.below(11) {
        0 => Ev::Psh(pick_unknown(rng), rng.usize(0, 50)),
        1 => Ev::Fin(pick_unknown(rng)),
        2 => Ev::Raw(refcodec::SYNACK, if rng.chance(0.5) && !live_ids.is_empty() { *rng.pick(live_ids) } else { pick_unknown(rng) }, if rng.chance(0.5) { 0 } else { 12 }),
        3 if !finished.is_empty() => Ev::Psh(*rng.pick(finished), rng.usize(1, 40)),
        4 if !finished.is_empty() => Ev::Fin(*rng.pick(finished)),
        5 => Ev::Raw(rng.range(11, 255) as u8, if !live_ids.is_empty() && rng.chance(0.5) { *rng.pick(live_ids) } else { pick_unknown(rng) }, rng.usize(0, 30)),
        6 => Ev::Raw(refcodec::WASTE, if !live_ids.is_empty() { *rng.pick(live_ids) } else { 0 }, rng.usize(0, 30)),
        7 if victim_server && !live_ids.is_empty() => Ev::Syn(*rng.pick(live_ids)), // duplicate SYN
        8 if !victim_server => Ev::Raw(refcodec::SYN, if !live_ids.is_empty() { *rng.pick(live_ids) } else { 5 }, 0), // SYN towards a client
        9 => Ev::Raw(refcodec::HEART_REQ, pick_unknown(rng), 0),
        _ => Ev::Raw(if victim_server { refcodec::SERVER_SETTINGS } else { refcodec::SETTINGS }, 0, 5),
    }
}

fn gen_script(rng: &mut Rng, victim_server: bool, hostile_rate: f64) -> Script {
    let mut evs = Vec::new();
    let mut live: Vec<u32> = Vec::new();
    let mut finished: Vec<u32> = Vec::new();
    let mut next_client_id = 1u32;
    let n = rng.usize(6, 40);
    for _ in 0..n {
        if rng.chance(hostile_rate) {
            evs.push(gen_hostile(rng, &live, &finished, victim_server));
            if let Some(Ev::Syn(_)) = evs.last() {
                // duplicate SYN keeps the id live
            }
            continue;
        }
        match rng.below(10) {
            0..=2 if live.len() < 16 => {
                let id = if victim_server {
                    // any id, including 0, 2^32-1 and ids reused after FIN
                    let cand = match rng.below(6) {
                        0 if !finished.is_empty() => *rng.pick(&finished),
                        1 => 0,
                        2 => u32::MAX,
                        _ => rng.range(1, 40) as u32,
                    };
                    if live.contains(&cand) {
                        continue;
                    }
                    finished.retain(|x| *x != cand);
                    cand
                } else {
                    let id = next_client_id;
                    next_client_id += 1;
                    id
                };
                live.push(id);
                evs.push(Ev::Syn(id));
            }
            3 if !live.is_empty() => {
                let i = rng.usize(0, live.len() - 1);
                let id = live.remove(i);
                finished.push(id);
                evs.push(Ev::Fin(id));
            }
            _ if !live.is_empty() => evs.push(Ev::Psh(*rng.pick(&live), *rng.pick(&[0usize, 1, 5, 50, 300, 3000, 65535]))),
            _ => {}
        }
    }
    Script { seed: rng.next(), victim_server, evs, pipe: rng.below(3) as u8 }
}


// ---------------------------------------------------------------------------
// streams that end with unread bytes: what one stream's consumer left behind must never surface on a stream
// opened later (same session or another one in the process)

/// returns (problems, streams checked)
async fn abandoned_reader_case(victim_server: bool, sizes: &[(usize, usize)], same_session: bool) -> (Vec<String>, u64) {
    use crate::engine;
    let mut problems = Vec::new();
    let mut checked = 0u64;
    let tag_bytes = |id: u32, n: usize| -> Vec<u8> { (0..n).map(|i| (id as u8).wrapping_mul(16).wrapping_add((i % 13) as u8) | 0x80 * (id as u8 & 1)).collect() };
    let mut next_id = 1u32;
    let rounds = sizes.len();
    // one session for all rounds, or a fresh session per round
    let mut srv: Option<engine::RawVsServer> = None;
    let mut cli: Option<engine::ClientVsRaw> = None;
    for (round, (sent, consumed)) in sizes.iter().enumerate() {
        if !same_session || round == 0 {
            if victim_server {
                let mut rv = engine::raw_vs_server(PipeCfg::plain(), PipeCfg::plain(), engine::no_padding());
                let _ = rv.peer.send(refcodec::SETTINGS, 0, &engine::settings_payload("x")).await;
                srv = Some(rv);
            } else {
                cli = Some(engine::client_vs_raw(PipeCfg::plain(), PipeCfg::plain(), engine::no_padding(), None).await);
            }
        }
        let id;
        let stream: Arc<Stream>;
        let data = tag_bytes(next_id, *sent);
        if victim_server {
            let rv = srv.as_mut().unwrap();
            id = next_id * 2 + 1;
            let _ = rv.peer.send(refcodec::SYN, id, &[]).await;
            let _ = rv.peer.send(refcodec::PSH, id, &data).await;
            let _ = rv.peer.send(refcodec::FIN, id, &[]).await;
            stream = match tokio::time::timeout(Duration::from_secs(5), rv.new_streams.recv()).await {
                Ok(Some(st)) => st,
                _ => {
                    problems.push(format!("round {round}: the server session did not surface stream {id}"));
                    return (problems, checked);
                }
            };
        } else {
            let cv = cli.as_mut().unwrap();
            let Ok((st, _rx)) = engine::open_like_client(&cv.client, Bytes::from_static(b"d")).await else {
                problems.push(format!("round {round}: open failed"));
                return (problems, checked);
            };
            id = st.id();
            let _ = cv.peer.send(refcodec::SYNACK, id, &[]).await;
            let _ = cv.peer.send(refcodec::PSH, id, &data).await;
            let _ = cv.peer.send(refcodec::FIN, id, &[]).await;
            stream = st;
        }
        next_id += 1;
        tokio::time::sleep(Duration::from_secs(1)).await; // everything delivered and processed
        // the consumer takes `consumed` bytes in small reads and then loses interest (the last round reads everything)
        let last = round + 1 == rounds;
        let take = if last { *sent } else { (*consumed).min(*sent) };
        let mut got = Vec::new();
        {
            let mut rd = stream.reader().lock().await;
            let mut buf = vec![0u8; if last { 4096 } else { 7 }];
            while got.len() < take {
                let want = buf.len().min(take - got.len());
                match tokio::time::timeout(Duration::from_secs(5), rd.read(&mut buf[..want])).await {
                    Ok(Ok(n)) if n > 0 => got.extend_from_slice(&buf[..n]),
                    _ => break,
                }
            }
            if last {
                // and then the end of the stream, nothing else
                match tokio::time::timeout(Duration::from_secs(5), rd.read(&mut buf)).await {
                    Ok(Ok(0)) => {}
                    Ok(Ok(n)) => got.extend_from_slice(&buf[..n]),
                    _ => {}
                }
            }
        }
        checked += 1;
        if got != data[..take.min(data.len())] || (last && got.len() != data.len()) {
            let at = got.iter().zip(data.iter()).position(|(a, b)| a != b).unwrap_or(got.len().min(data.len()));
            problems.push(format!(
                "round {round} ({} role, {}): stream {id} was sent {} tagged bytes; its reader returned {} bytes, differing from them at offset {at} (got {:02x?}, want {:02x?}) — earlier streams of this process had ended with {:?} unread bytes",
                if victim_server { "server" } else { "client" },
                if same_session { "same session" } else { "fresh session per stream" },
                data.len(),
                got.len(),
                &got[at.min(got.len())..(at + 6).min(got.len())],
                &data[at.min(data.len())..(at + 6).min(data.len())],
                sizes[..round].iter().map(|(s, c)| s.saturating_sub(*c)).collect::<Vec<_>>()
            ));
            break;
        }
        drop(stream); // the consumer is gone; the peer's FIN has already ended the stream
        tokio::time::sleep(Duration::from_secs(1)).await;
    }
    (problems, checked)
}

fn run_abandoned(rep: &mut Report, rng: &mut Rng, n: usize) {
    for i in 0..n {
        let rounds = rng.usize(2, 5);
        let sizes: Vec<(usize, usize)> = (0..rounds)
            .map(|_| {
                let sent = *rng.pick(&[8usize, 100, 5000, 20_000, 65_535]);
                (sent, rng.usize(0, sent.min(40)))
            })
            .collect();
        let victim_server = i % 2 == 0;
        let same_session = rng.chance(0.5);
        run::case_begin(&format!("C02 abandoned readers {i}"));
        let sz = sizes.clone();
        let r = run::vt_block_on_deadline(Duration::from_secs(100_000), async move { abandoned_reader_case(victim_server, &sz, same_session).await });
        let case = json!({"kind": "c02-abandoned", "victim_server": victim_server, "same_session": same_session, "sent_and_consumed": sizes});
        rep.case(Some(hash_str(&case.to_string())));
        match r {
            None => rep.violate("isolation", "stream_ended_with_unread_bytes", "case_stuck", "case did not finish".to_string(), case.clone()),
            Some((problems, checked)) => {
                rep.add("streams_opened_after_an_abandoned_one", checked.saturating_sub(1));
                for p in problems {
                    rep.violate("isolation", "stream_ended_with_unread_bytes", "foreign_bytes_on_stream", p, case.clone());
                }
            }
        }
        for p in run::take_thread_panics() {
            if !run::is_harness_panic(&p) {
                rep.violate("isolation", "stream_ended_with_unread_bytes", "panic", p, case.clone());
            }
        }
    }
}

pub fn run(ctx: Ctx) -> Report {
    let n = ctx.tier.pick(6400, 480_000);
    let n_mux = ctx.tier.pick(480, 32_000);
    run::run_sharded("C02", ctx.shards, move |shard, nshards, rep| {
        let mut rng = Rng::new(ctx.seed.wrapping_mul(211).wrapping_add(shard as u64) ^ 0xC02);
        // (1) hostile-frame scripts, random
        for i in 0..n / nshards {
            let rate = *rng.pick(&[0.2, 0.4, 0.6]);
            let sc = gen_script(&mut rng, i % 2 == 0, rate);
            run_script(rep, &sc, shard == 0 && i < 2);
        }
        // (1b) streams whose consumer leaves bytes unread, followed by new streams
        run_abandoned(rep, &mut rng, ctx.tier.pick(160, 4000) / nshards);
        // (2) systematic: every hostile frame kind inserted at every frame boundary of a clean script
        for k in 0..ctx.tier.pick(1, 12) {
            if k % nshards.min(12) != shard % nshards.min(12) && ctx.tier == crate::report::Tier::Thorough {
                continue;
            }
            if ctx.tier == crate::report::Tier::Quick && shard >= 4 {
                break;
            }
            let mut r2 = Rng::new(ctx.seed ^ (k as u64 * 7 + shard as u64 % 4));
            let clean = gen_script(&mut r2, (k + shard) % 2 == 0, 0.0);
            for pos in 0..=clean.evs.len() {
                for kind in 0..11 {
                    let mut live = Vec::new();
                    let mut fin = Vec::new();
                    for e in &clean.evs[..pos] {
                        match e {
                            Ev::Syn(i) => live.push(*i),
                            Ev::Fin(i) => {
                                live.retain(|x| x != i);
                                fin.push(*i);
                            }
                            _ => {}
                        }
                    }
                    // draw until the requested kind comes up (bounded)
                    let mut h = None;
                    for t in 0..40 {
                        let mut r3 = Rng::new(k as u64 * 1000 + pos as u64 * 50 + kind * 3 + t);
                        let e = gen_hostile(&mut r3, &live, &fin, clean.victim_server);
                        let tag = match &e {
                            Ev::Psh(..) => 0,
                            Ev::Fin(..) => 1,
                            Ev::Raw(c, ..) if *c == refcodec::SYNACK => 2,
                            Ev::Raw(c, ..) if *c > 10 => 5,
                            Ev::Raw(c, ..) if *c == refcodec::WASTE => 6,
                            Ev::Syn(..) => 7,
                            Ev::Raw(c, ..) if *c == refcodec::SYN => 8,
                            Ev::Raw(c, ..) if *c == refcodec::HEART_REQ => 9,
                            _ => 10,
                        };
                        if tag == kind || (kind == 3 && tag == 0) || (kind == 4 && tag == 1) {
                            h = Some(e);
                            break;
                        }
                    }
                    let Some(h) = h else { continue };
                    let mut sc = clean.clone();
                    sc.evs.insert(pos, h);
                    rep.add("systematic_injections", 1);
                    run_script(rep, &sc, false);
                }
            }
        }
        // (3) cooperative many-stream workload (C01's engine) with 2-16 streams
        for i in 0..n_mux / nshards {
            let mut case = mux::gen_case(&mut rng, 16, 300_000);
            if case.streams.len() < 2 {
                continue;
            }
            case.locator = (shard, i);
            run::case_begin(&format!("C02 mux case {i}"));
            let res = mux::run_case(&case);
            rep.case(Some(hash_str(&case.shape_key())));
            rep.add("cooperative_multi_stream_cases", 1);
            rep.max("max_concurrent_streams", case.streams.len() as u64);
            mux::record(rep, "isolation", &case, &res);
        }
        run::case_end();
    })
}

fn run_script(rep: &mut Report, sc: &Script, sample: bool) {
    run::case_begin(&format!("C02 script seed {}", sc.seed));
    let sc2 = sc.clone();
    let r = run::vt_block_on_deadline(Duration::from_secs(100_000), async move { run_async(sc2).await });
    rep.case(Some(hash_str(&sc.describe().to_string())));
    match r {
        None => rep.violate("isolation", "hostile_frames", "case_stuck", "script did not finish in 100000 virtual seconds", sc.describe()),
        Some((problems, hostile, bytes)) => {
            rep.add("hostile_frames_sent", hostile);
            rep.add("bytes_compared", bytes);
            rep.add(if sc.victim_server { "scripts_against_server_session" } else { "scripts_against_client_session" }, 1);
            let mut seen = std::collections::HashSet::new();
            for (cause, sym, det) in problems {
                if seen.insert(sym.clone()) {
                    rep.violate("isolation", &cause, &sym, det, sc.describe());
                }
            }
        }
    }
    if sample {
        rep.sample(sc.describe());
    }
    for p in run::take_thread_panics() {
        if run::is_harness_panic(&p) {
            rep.inconclusive(format!("harness panic: {p}"));
        } else {
            rep.violate("isolation", "hostile_frames", "panic", p, sc.describe());
        }
    }
}

pub fn meta() -> CheckMeta {
    CheckMeta {
        level: "exploration",
        rule: "script = a raw scripted peer (reference codec) feeding a real server Session (as client) or a real client Session (as server) with SYN/PSH/FIN for up to 16 live streams (ids incl. 0, 2^32-1, ids reused after FIN; every payload byte tagged by its stream instance) interleaved with hostile but well-formed frames: PSH/FIN/SYNACK for ids never opened or already finished, duplicate SYN, SYN towards a client, unknown command bytes, waste with a live id, stray keep-alives and settings; random scripts plus, for clean scripts, every hostile kind inserted at every frame boundary; 3 transport fragmentation classes. Oracle at quiescence: every stream instance not hit by its own duplicate SYN read exactly the bytes addressed to it, ended iff its own FIN was sent, and the session is still alive. Plus C01's cooperative workload with 2-16 concurrent streams (online per-byte tag check). distinct_nontrivial = distinct scripts / cases. Abandoned readers: 2-5 streams in a row (client or server role, one session or a fresh session each) are sent 8-65535 tagged bytes and a FIN; the consumer of all but the last reads 0-40 bytes in 7-byte reads and drops the stream with the rest unread; every later stream must read exactly its own bytes from offset 0, the last one to its end. The cooperative mux cases include transports that stall for 3-130 virtual seconds and recover (see C01).".into(),
        assumptions: vec!["a duplicate SYN or FIN for id a may end id a; only other ids are judged in that case".into(), "alerts are excluded here (they end the session by design, C09)".into()],
        floors: vec![("hostile_frames_sent", 2000), ("bytes_compared", 500_000), ("scripts_against_server_session", 300), ("scripts_against_client_session", 300), ("cooperative_multi_stream_cases", 50), ("streams_opened_after_an_abandoned_one", 100)],
        exhaustive: false,
    }
}
