//! Reference model of padding schemes: a structured scheme (so the expected
//! meaning is known by construction), its textual rendering fed to the real
//! `PaddingFactory`, a generator over the accepted scheme language, and a
//! nondeterministic acceptor that decides whether a sequence of observed
//! transport write lengths can be explained by SOME draw inside the ranges.

use crate::prng::Rng;
use std::collections::BTreeMap;

#[derive(Clone, Debug, PartialEq, Eq)]
pub enum Entry {
    Check,
    /// effective range after normalisation (lo <= hi, both > 0)
    Range { lo: u64, hi: u64, reversed: bool },
    /// text the scheme parser skips (zero / negative / non-numeric / no dash)
    Junk(String),
}

#[derive(Clone, Debug)]
pub struct Scheme {
    pub stop: u32,
    pub lines: BTreeMap<u32, Vec<Entry>>,
    pub spaced: bool,
}

#[derive(Clone, Debug, PartialEq, Eq)]
pub enum Item {
    Check,
    Range(u64, u64),
}

impl Scheme {
    pub fn text(&self) -> String {
        let mut out = Vec::new();
        let eq = if self.spaced { " = " } else { "=" };
        out.push(format!("stop{}{}", eq, self.stop));
        for (k, es) in &self.lines {
            let parts: Vec<String> = es
                .iter()
                .map(|e| match e {
                    Entry::Check => "c".to_string(),
                    Entry::Range { lo, hi, reversed } => {
                        if *reversed { format!("{}-{}", hi, lo) } else { format!("{}-{}", lo, hi) }
                    }
                    Entry::Junk(s) => s.clone(),
                })
                .collect();
            let sep = if self.spaced { " , " } else { "," };
            out.push(format!("{}{}{}", k, eq, parts.join(sep)));
        }
        out.join("\n")
    }
    /// effective items of line k (junk removed); None when the line is missing
    pub fn items(&self, k: u32) -> Option<Vec<Item>> {
        self.lines.get(&k).map(|es| {
            es.iter()
                .filter_map(|e| match e {
                    Entry::Check => Some(Item::Check),
                    Entry::Range { lo, hi, .. } => Some(Item::Range(*lo, *hi)),
                    Entry::Junk(_) => None,
                })
                .collect()
        })
    }
    pub fn max_size(&self) -> u64 {
        self.lines
            .values()
            .flatten()
            .filter_map(|e| if let Entry::Range { hi, .. } = e { Some(*hi) } else { None })
            .max()
            .unwrap_or(0)
    }
    /// the built-in default scheme of the protocol
    pub fn default_scheme() -> Scheme {
        let r = |lo, hi| Entry::Range { lo, hi, reversed: false };
        let mut lines = BTreeMap::new();
        lines.insert(0, vec![r(30, 30)]);
        lines.insert(1, vec![r(100, 400)]);
        lines.insert(
            2,
            vec![r(400, 500), Entry::Check, r(500, 1000), Entry::Check, r(500, 1000), Entry::Check, r(500, 1000), Entry::Check, r(500, 1000)],
        );
        lines.insert(3, vec![r(9, 9), r(500, 1000)]);
        for k in 4..8 {
            lines.insert(k, vec![r(500, 1000)]);
        }
        Scheme { stop: 8, lines, spaced: false }
    }
}

#[derive(Clone, Debug)]
pub struct GenCfg {
    /// largest size that may appear
    pub max_size: u64,
    /// weight for sizes near the 16-bit frame limit and multiples of it
    pub boundary_heavy: bool,
    pub allow_junk: bool,
    /// line 0 (authentication padding) always present with a leading range <= 65535
    pub sane_line0: bool,
}

const JUNK: &[&str] = &["0-5", "5-0", "0-0", "-3-4", "abc", "12", "7-x", "x-7", "-", "", "c c", "1--2", "99999999999999999999-5"];

fn gen_size(rng: &mut Rng, cfg: &GenCfg) -> u64 {
    let m = cfg.max_size.max(1);
    let pick = rng.below(100);
    let v = if cfg.boundary_heavy && pick < 35 && m > 65535 {
        let base = [65528u64, 65535, 65536, 65537, 65542, 65543, 65550, 131070, 131071, 131077, 196605, 70000, 200000];
        *rng.pick(&base)
    } else if pick < 55 {
        rng.range(1, 40)
    } else if pick < 80 {
        rng.range(1, 1500)
    } else if pick < 92 {
        rng.range(1, 20000)
    } else {
        rng.range(1, m)
    };
    v.clamp(1, m)
}

pub fn gen_scheme(rng: &mut Rng, cfg: &GenCfg) -> Scheme {
    let nlines = rng.usize(0, 9) as u32;
    let stop = match rng.below(10) {
        0 => 0,
        1 => 1,
        2 => nlines + rng.range(1, 4) as u32,
        _ => rng.range(0, nlines as u64 + 1) as u32,
    };
    let mut lines = BTreeMap::new();
    for k in 0..nlines.max(1) {
        if k > 0 && rng.chance(0.12) {
            continue; // missing line
        }
        let n = match rng.below(10) {
            0 => 0,
            1..=4 => 1,
            5..=7 => rng.usize(2, 4),
            _ => rng.usize(5, 12),
        };
        let mut es = Vec::new();
        for _ in 0..n {
            let e = match rng.below(100) {
                0..=21 => Entry::Check,
                22..=27 if cfg.allow_junk => Entry::Junk(rng.pick(JUNK).to_string()),
                _ => {
                    let a = gen_size(rng, cfg);
                    let b = match rng.below(4) {
                        0 => a, // range of one
                        1 => (a + rng.range(0, 8)).min(cfg.max_size.max(1)),
                        _ => gen_size(rng, cfg),
                    };
                    let (lo, hi) = (a.min(b), a.max(b));
                    Entry::Range { lo, hi, reversed: lo != hi && rng.chance(0.2) }
                }
            };
            es.push(e);
        }
        if k == 0 && cfg.sane_line0 {
            let lo = rng.range(1, 900).min(cfg.max_size.max(1));
            let hi = (lo + rng.range(0, 300)).min(65535).min(cfg.max_size.max(1)).max(lo);
            es.insert(0, Entry::Range { lo, hi, reversed: false });
        }
        lines.insert(k, es);
    }
    if !cfg.sane_line0 && rng.chance(0.2) {
        lines.remove(&0);
    }
    Scheme { stop, lines, spaced: rng.chance(0.15) }
}

/// Why a write sequence is not accepted.
#[derive(Clone, Debug)]
pub struct Reject {
    pub write_index: usize,
    pub reason: String,
}

/// Decide whether `writes` (lengths of the transport writes of ONE session
/// packet) can be produced for a packet carrying `payload` bytes of frames
/// shaped by `items`, for some draw of sizes inside the ranges.
///
/// Per item (a draw s in [lo,hi]): remaining payload R > s  -> a write of s
/// (payload only); 0 < R <= s -> one write of s when s > R+7 (payload completed
/// with padding), or of R when no room for a padding header; R == 0 -> a write
/// of s+7 (padding only). A check mark stops the packet once R == 0.
/// Whatever payload remains after the last item goes out in one write.
///
/// Returns the number of padding bytes (incl. waste headers) implied.
pub fn accept_packet(items: &[Item], payload: usize, writes: &[usize]) -> Result<usize, Reject> {
    let mut r = payload as u64;
    let mut w = 0usize;
    let mut pad = 0usize;
    for (i, it) in items.iter().enumerate() {
        match it {
            Item::Check => {
                if r == 0 {
                    break;
                }
            }
            Item::Range(lo, hi) => {
                let Some(&len) = writes.get(w) else {
                    return Err(Reject { write_index: w, reason: format!("item {i} ({lo}-{hi}) produced no write; remaining payload {r}") });
                };
                let len = len as u64;
                if r == 0 {
                    if len < 7 || len - 7 < *lo || len - 7 > *hi {
                        return Err(Reject { write_index: w, reason: format!("padding-only write of {len} not in [{lo}+7,{hi}+7]") });
                    }
                    pad += len as usize;
                } else if len < r {
                    // payload-only record of exactly s bytes, s < R
                    if len < *lo || len > *hi {
                        return Err(Reject { write_index: w, reason: format!("payload-only write of {len} (remaining {r}) not in [{lo},{hi}]") });
                    }
                    r -= len;
                } else if len == r {
                    // bare remainder: needs a draw s with R <= s <= R+7
                    let a = (*lo).max(r);
                    let b = (*hi).min(r + 7);
                    if a > b {
                        return Err(Reject { write_index: w, reason: format!("bare remainder {r} written but no size in [{lo},{hi}] lies in [{r},{}]", r + 7) });
                    }
                    r = 0;
                } else {
                    // payload completed with padding to exactly s, s > R+7
                    if len <= r + 7 || len < *lo || len > *hi {
                        return Err(Reject { write_index: w, reason: format!("payload+padding write of {len} (remaining {r}) not a size in [{lo},{hi}] above {}", r + 7) });
                    }
                    pad += (len - r) as usize;
                    r = 0;
                }
                w += 1;
            }
        }
    }
    if r > 0 {
        match writes.get(w) {
            Some(&len) if len as u64 == r => w += 1,
            other => {
                return Err(Reject { write_index: w, reason: format!("remaining payload {r} should go out in one write, saw {:?}", other) });
            }
        }
    }
    if w != writes.len() {
        return Err(Reject { write_index: w, reason: format!("{} unexpected extra write(s): {:?}", writes.len() - w, &writes[w..]) });
    }
    Ok(pad)
}

/// A packet that must not be padded at all: exactly the payload in one write.
pub fn accept_unpadded(payload: usize, writes: &[usize]) -> Result<(), Reject> {
    if payload == 0 && writes.is_empty() {
        return Ok(());
    }
    if writes.len() == 1 && writes[0] == payload {
        Ok(())
    } else {
        Err(Reject { write_index: 0, reason: format!("unpadded packet of {payload} bytes seen as writes {:?}", writes) })
    }
}

#[cfg(test)]
mod tests {
    use super::*;
    #[test]
    fn acceptor_basics() {
        let items = vec![Item::Range(100, 400)];
        assert!(accept_packet(&items, 50, &[250]).is_ok());
        assert!(accept_packet(&items, 50, &[50]).is_err()); // 50..57 not in 100..400
        assert!(accept_packet(&items, 500, &[100, 400]).is_ok());
        assert!(accept_packet(&items, 500, &[500]).is_err());
        assert!(accept_packet(&items, 0, &[107]).is_ok());
        assert!(accept_packet(&items, 0, &[100]).is_err());
        let items = vec![Item::Range(400, 500), Item::Check, Item::Range(500, 1000)];
        assert!(accept_packet(&items, 100, &[450]).is_ok());
        assert!(accept_packet(&items, 100, &[450, 600]).is_err());
        assert!(accept_packet(&items, 1000, &[450, 700]).is_ok());
        assert!(accept_packet(&items, 395, &[395]).is_ok()); // bare remainder, s in 395..402 ∩ 400..500
        assert!(accept_packet(&items, 390, &[390]).is_err());
    }
}
