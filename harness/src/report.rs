//! Verdict bookkeeping: three-valued case results, violation signatures,
//! known-finding matching, evidence and replay files.

use serde_json::{Value, json};
use std::collections::{BTreeMap, BTreeSet, HashSet};
use std::path::PathBuf;
use std::time::Instant;

pub fn verif_root() -> PathBuf {
    if let Ok(p) = std::env::var("VERIF_ROOT") {
        return PathBuf::from(p);
    }
    // the binary lives in <root>/harness/target/<profile>/mon
    if let Ok(exe) = std::env::current_exe() {
        let mut p = exe.clone();
        for _ in 0..4 {
            p.pop();
        }
        if p.join("properties.jsonl").exists() {
            return p;
        }
    }
    PathBuf::from("/verif")
}

#[derive(Clone, Debug)]
pub struct Violation {
    pub class: String,
    pub cause: String,
    pub symptom: String,
    pub detail: String,
    pub replay: Value,
}

impl Violation {
    pub fn signature(&self) -> String {
        format!("{}|{}|{}", self.class, self.cause, self.symptom)
    }
}

#[derive(Clone, Copy, Debug, PartialEq, Eq)]
pub enum Tier {
    Quick,
    Thorough,
}

impl Tier {
    pub fn name(&self) -> &'static str {
        match self {
            Tier::Quick => "quick",
            Tier::Thorough => "thorough",
        }
    }
    pub fn pick<T>(&self, q: T, t: T) -> T {
        match self {
            Tier::Quick => q,
            Tier::Thorough => t,
        }
    }
}

pub struct Report {
    pub prop: String,
    pub evaluations: u64,
    pub distinct: HashSet<u64>,
    pub counters: BTreeMap<String, u64>,
    pub sets: BTreeMap<String, BTreeSet<String>>,
    pub samples: Vec<Value>,
    pub max_samples: usize,
    pub violations: Vec<Violation>,
    pub inconclusive: Vec<String>,
    pub notes: Vec<String>,
}

impl Report {
    pub fn new(prop: &str) -> Self {
        Report {
            prop: prop.to_string(),
            evaluations: 0,
            distinct: HashSet::new(),
            counters: BTreeMap::new(),
            sets: BTreeMap::new(),
            samples: Vec::new(),
            max_samples: 6,
            violations: Vec::new(),
            inconclusive: Vec::new(),
            notes: Vec::new(),
        }
    }
    /// one case evaluated; `nontrivial_key` is Some(hash) when the case is non-trivial by the check's rule
    pub fn case(&mut self, nontrivial_key: Option<u64>) {
        self.evaluations += 1;
        if let Some(k) = nontrivial_key {
            self.distinct.insert(k);
        }
    }
    pub fn add(&mut self, counter: &str, n: u64) {
        *self.counters.entry(counter.to_string()).or_insert(0) += n;
    }
    pub fn max(&mut self, counter: &str, n: u64) {
        let e = self.counters.entry(counter.to_string()).or_insert(0);
        if n > *e {
            *e = n;
        }
    }
    pub fn get(&self, counter: &str) -> u64 {
        self.counters.get(counter).copied().unwrap_or(0)
    }
    /// remember a distinct label (reported as a count plus a few examples)
    pub fn seen(&mut self, set: &str, label: impl Into<String>) {
        self.sets.entry(set.to_string()).or_default().insert(label.into());
    }
    pub fn sample(&mut self, v: Value) {
        if self.samples.len() < self.max_samples {
            self.samples.push(v);
        }
    }
    pub fn violate(&mut self, class: &str, cause: &str, symptom: &str, detail: impl Into<String>, replay: Value) {
        self.violations.push(Violation {
            class: class.to_string(),
            cause: cause.to_string(),
            symptom: symptom.to_string(),
            detail: detail.into(),
            replay,
        });
    }
    pub fn inconclusive(&mut self, why: impl Into<String>) {
        self.inconclusive.push(why.into());
    }
    pub fn note(&mut self, s: impl Into<String>) {
        self.notes.push(s.into());
    }
    pub fn merge(&mut self, o: Report) {
        self.evaluations += o.evaluations;
        self.distinct.extend(o.distinct);
        for (k, v) in o.counters {
            if k.starts_with("max_") {
                self.max(&k, v);
            } else {
                self.add(&k, v);
            }
        }
        for (k, v) in o.sets {
            self.sets.entry(k).or_default().extend(v);
        }
        for s in o.samples {
            self.sample(s);
        }
        self.violations.extend(o.violations);
        self.inconclusive.extend(o.inconclusive);
        self.notes.extend(o.notes);
    }
}

pub struct CheckMeta {
    pub level: &'static str,
    pub rule: String,
    pub assumptions: Vec<String>,
    /// counters that must reach a floor, else the run observed too little and fails as broken machinery
    pub floors: Vec<(&'static str, u64)>,
    pub exhaustive: bool,
}

#[derive(Debug, Clone)]
struct Known {
    signature: String,
    what: String,
}

fn load_known(prop: &str) -> Vec<Known> {
    let path = verif_root().join("known_findings.json");
    let Ok(text) = std::fs::read_to_string(&path) else { return Vec::new() };
    let Ok(v) = serde_json::from_str::<Value>(&text) else {
        eprintln!("warning: {} is not valid JSON", path.display());
        return Vec::new();
    };
    let mut out = Vec::new();
    if let Some(arr) = v.get("findings").and_then(|x| x.as_array()) {
        for f in arr {
            if f.get("property").and_then(|x| x.as_str()) == Some(prop) {
                out.push(Known {
                    signature: f.get("signature").and_then(|x| x.as_str()).unwrap_or("").to_string(),
                    what: f.get("what").and_then(|x| x.as_str()).unwrap_or("").to_string(),
                });
            }
        }
    }
    out
}

/// Finish a check: match violations against known findings, write replay and
/// evidence files, print the interface lines, return the process exit code.
pub fn finish(rep: Report, meta: CheckMeta, tier: Tier, seed: u64, started: Instant) -> i32 {
    let root = verif_root();
    let known = load_known(&rep.prop);
    let mut printed_known: BTreeSet<String> = BTreeSet::new();
    let mut new_sigs: BTreeMap<String, (usize, Violation)> = BTreeMap::new();
    let mut known_hits: BTreeMap<String, usize> = BTreeMap::new();
    for v in &rep.violations {
        let sig = v.signature();
        if let Some(k) = known.iter().find(|k| k.signature == sig) {
            *known_hits.entry(sig.clone()).or_insert(0) += 1;
            if printed_known.insert(sig.clone()) {
                println!("KNOWN-FINDING: property={} {} [signature {}]", rep.prop, k.what, sig);
            }
        } else {
            let e = new_sigs.entry(sig).or_insert((0, v.clone()));
            e.0 += 1;
        }
    }
    for k in &known {
        if !printed_known.contains(&k.signature) {
            println!("note: listed known finding not observed in this run: property={} signature {}", rep.prop, k.signature);
        }
    }
    let mut exit = 0;
    let replay_dir = root.join("replays");
    let _ = std::fs::create_dir_all(&replay_dir);
    let mut n = 0;
    for (sig, (count, v)) in &new_sigs {
        n += 1;
        let fname = format!("{}-{}-{}-{}.json", rep.prop, tier.name(), seed, n);
        let path = replay_dir.join(&fname);
        let body = json!({
            "property": rep.prop, "signature": sig, "class": v.class, "cause": v.cause, "symptom": v.symptom,
            "detail": v.detail, "occurrences": count, "tier": tier.name(), "seed": seed, "case": v.replay,
        });
        let _ = std::fs::write(&path, serde_json::to_string_pretty(&body).unwrap_or_default());
        println!("VIOLATION property={} replay={}", rep.prop, path.display());
        println!("  signature: {sig}  (x{count})");
        println!("  detail: {}", v.detail);
        exit = 1;
    }
    // broken-machinery guards: inconclusive share and "observed nothing" floors
    let mut broken: Vec<String> = Vec::new();
    if rep.evaluations == 0 {
        broken.push("no case was evaluated".to_string());
    }
    if rep.evaluations > 0 && rep.inconclusive.len() as f64 > 0.05 * rep.evaluations as f64 + 2.0 {
        broken.push(format!("{} of {} cases inconclusive (>5%)", rep.inconclusive.len(), rep.evaluations));
    }
    for (c, floor) in &meta.floors {
        if rep.get(c) < *floor {
            broken.push(format!("monitor observed too little: {} = {} < floor {}", c, rep.get(c), floor));
        }
    }
    let distinct = rep.distinct.len() as u64;
    let mut coverage = serde_json::Map::new();
    coverage.insert("evaluations".into(), json!(rep.evaluations));
    coverage.insert("distinct_nontrivial".into(), json!(distinct));
    coverage.insert("rule".into(), json!(meta.rule));
    coverage.insert("samples".into(), Value::Array(rep.samples.clone()));
    coverage.insert("exhaustive".into(), json!(meta.exhaustive));
    coverage.insert("observed".into(), json!(rep.counters));
    let mut sets = serde_json::Map::new();
    for (k, s) in &rep.sets {
        sets.insert(k.clone(), json!({"distinct": s.len(), "examples": s.iter().take(12).collect::<Vec<_>>()}));
    }
    coverage.insert("distinct_sets".into(), Value::Object(sets));
    coverage.insert("inconclusive".into(), json!(rep.inconclusive.len()));
    coverage.insert("inconclusive_examples".into(), json!(rep.inconclusive.iter().take(5).collect::<Vec<_>>()));
    coverage.insert(
        "known_findings_observed".into(),
        json!(known_hits.iter().map(|(k, v)| json!({"signature": k, "occurrences": v})).collect::<Vec<_>>()),
    );
    coverage.insert(
        "new_violation_signatures".into(),
        json!(new_sigs.iter().map(|(k, v)| json!({"signature": k, "occurrences": v.0})).collect::<Vec<_>>()),
    );
    if !rep.notes.is_empty() {
        coverage.insert("notes".into(), json!(rep.notes.iter().take(20).collect::<Vec<_>>()));
    }
    if !broken.is_empty() {
        coverage.insert("machinery_problems".into(), json!(broken));
    }
    let ev = json!({
        "property_id": rep.prop,
        "tier": tier.name(),
        "seed": seed as i64,
        "level": meta.level,
        "coverage": Value::Object(coverage),
        "assumptions": meta.assumptions,
        "wall_s": (started.elapsed().as_secs_f64() * 100.0).round() / 100.0,
        "violations": new_sigs.len() as i64,
    });
    let evdir = root.join("evidence");
    let _ = std::fs::create_dir_all(&evdir);
    let evpath = evdir.join(format!("{}.json", rep.prop));
    if let Err(e) = std::fs::write(&evpath, serde_json::to_string_pretty(&ev).unwrap_or_default()) {
        eprintln!("cannot write evidence {}: {e}", evpath.display());
        return 2;
    }
    println!(
        "{} {} seed={} evaluations={} distinct_nontrivial={} inconclusive={} known={} new_violations={} wall={:.1}s",
        rep.prop,
        tier.name(),
        seed,
        rep.evaluations,
        distinct,
        rep.inconclusive.len(),
        known_hits.len(),
        new_sigs.len(),
        started.elapsed().as_secs_f64()
    );
    let mut shown = 0;
    for (k, v) in &rep.counters {
        if shown < 40 {
            println!("  observed {k} = {v}");
            shown += 1;
        }
    }
    if exit == 0 && !broken.is_empty() {
        for b in &broken {
            println!("BROKEN-MACHINERY property={} {}", rep.prop, b);
        }
        return 2;
    }
    exit
}

pub fn hash_str(s: &str) -> u64 {
    let mut h = 0xcbf2_9ce4_8422_2325u64;
    for b in s.bytes() {
        h ^= b as u64;
        h = h.wrapping_mul(0x0000_0100_0000_01B3);
    }
    h
}

pub fn hex(b: &[u8]) -> String {
    let mut s = String::with_capacity(b.len() * 2);
    for x in b {
        s.push_str(&format!("{:02x}", x));
    }
    s
}
