//! Loopback kit for the monitors that need real sockets: real Server / Client
//! / SOCKS5 / HTTP front-ends, recording TCP and UDP targets, a fake DNS
//! server fed to the real resolver, reference SOCKS5 / HTTP clients and a
//! frame-level scripted TLS peer.

use crate::refcodec::{self, RFrame};
use anytls_rs::client::{Client, SessionPoolConfig};
use anytls_rs::padding::PaddingFactory;
use anytls_rs::server::Server;
use std::net::{IpAddr, Ipv4Addr, SocketAddr};
use std::sync::{Arc, Mutex};
use std::time::Duration;
use tokio::io::{AsyncReadExt, AsyncWriteExt};
use tokio::net::{TcpListener, TcpStream, UdpSocket};
use tokio::time::Instant;
use tokio_rustls::rustls::pki_types::ServerName;

pub const PASSWORD: &str = "verif-password";

/// a loopback address that is unique per `uniq` (< 64000) inside the 127.`b`.0.0/16 block
pub fn uniq_ip(b: u8, uniq: u32) -> Ipv4Addr {
    Ipv4Addr::new(127, b, ((uniq / 250) % 256) as u8, (uniq % 250) as u8 + 1)
}

pub fn free_port() -> u16 {
    std::net::TcpListener::bind("127.0.0.1:0").and_then(|l| l.local_addr()).map(|a| a.port()).unwrap_or(0)
}

pub async fn wait_listening(addr: &str) -> bool {
    for _ in 0..200 {
        if TcpStream::connect(addr).await.is_ok() {
            return true;
        }
        tokio::time::sleep(Duration::from_millis(10)).await;
    }
    false
}

/// start a real `Server` (default TcpProxyHandler) on a fresh loopback port
pub async fn start_server(password: &str, padding: Arc<PaddingFactory>) -> Option<(String, tokio::task::JoinHandle<()>)> {
    for _ in 0..5 {
        let port = free_port();
        let addr = format!("127.0.0.1:{port}");
        let cfg = anytls_rs::util::tls::create_server_config().ok()?;
        let acceptor = Arc::new(tokio_rustls::TlsAcceptor::from(cfg));
        let server = Arc::new(Server::new(password, acceptor, padding.clone(), None));
        let a2 = addr.clone();
        let h = tokio::spawn(async move {
            let _ = server.listen(&a2).await;
        });
        if wait_listening(&addr).await {
            return Some((addr, h));
        }
        h.abort();
    }
    None
}

pub fn make_client(server_addr: &str, password: &str, padding: Arc<PaddingFactory>, pool: SessionPoolConfig) -> Arc<Client> {
    let cfg = anytls_rs::util::tls::create_client_config().expect("client tls config");
    let connector = Arc::new(tokio_rustls::TlsConnector::from(cfg));
    let name = ServerName::IpAddress(IpAddr::V4(Ipv4Addr::LOCALHOST).into());
    Arc::new(Client::with_pool_config(password, server_addr.to_string(), name, connector, padding, pool))
}

pub fn quiet_pool() -> SessionPoolConfig {
    // reaper and heartbeat effectively off
    SessionPoolConfig { check_interval: Duration::from_secs(3600), idle_timeout: Duration::from_secs(7200), min_idle_sessions: 1 }
}

pub async fn start_socks5(client: Arc<Client>) -> Option<(String, tokio::task::JoinHandle<()>)> {
    for _ in 0..5 {
        let addr = format!("127.0.0.1:{}", free_port());
        let a2 = addr.clone();
        let c = client.clone();
        let h = tokio::spawn(async move {
            let _ = anytls_rs::client::start_socks5_server(&a2, c).await;
        });
        if wait_listening(&addr).await {
            return Some((addr, h));
        }
        h.abort();
    }
    None
}

pub async fn start_http(client: Arc<Client>) -> Option<(String, tokio::task::JoinHandle<()>)> {
    for _ in 0..5 {
        let addr = format!("127.0.0.1:{}", free_port());
        let a2 = addr.clone();
        let c = client.clone();
        let h = tokio::spawn(async move {
            let _ = anytls_rs::client::start_http_proxy_server(&a2, c).await;
        });
        if wait_listening(&addr).await {
            return Some((addr, h));
        }
        h.abort();
    }
    None
}

// ---------------------------------------------------------------------------
// recording TCP target

#[derive(Debug)]
pub struct Accepted {
    pub stream: TcpStream,
    /// the address that was dialled (wildcard listeners report it as the local address)
    pub dialled: SocketAddr,
    pub peer: SocketAddr,
    pub at: Instant,
}

pub struct Target {
    pub port: u16,
    pub rx: tokio::sync::mpsc::UnboundedReceiver<Accepted>,
    pub accepts: Arc<Mutex<Vec<(SocketAddr, Instant)>>>,
    task: tokio::task::JoinHandle<()>,
}

impl Drop for Target {
    fn drop(&mut self) {
        self.task.abort();
    }
}

impl Target {
    /// wildcard IPv4 listener: reachable as 127.a.b.c:port for every a.b.c
    pub async fn bind_v4(port: u16) -> Option<Target> {
        Self::bind(&format!("0.0.0.0:{port}")).await
    }
    pub async fn bind_v6_loopback(port: u16) -> Option<Target> {
        Self::bind(&format!("[::1]:{port}")).await
    }
    pub async fn bind(addr: &str) -> Option<Target> {
        let l = TcpListener::bind(addr).await.ok()?;
        Self::from_listener(l)
    }
    /// a listener reserved earlier (see `reserve_ports`)
    pub fn from_std(l: std::net::TcpListener) -> Option<Target> {
        l.set_nonblocking(true).ok()?;
        Self::from_listener(TcpListener::from_std(l).ok()?)
    }
    fn from_listener(l: TcpListener) -> Option<Target> {
        let port = l.local_addr().ok()?.port();
        let (tx, rx) = tokio::sync::mpsc::unbounded_channel();
        let accepts = Arc::new(Mutex::new(Vec::new()));
        let acc2 = accepts.clone();
        let task = tokio::spawn(async move {
            loop {
                match l.accept().await {
                    Ok((s, peer)) => {
                        let dialled = s.local_addr().unwrap_or(peer);
                        let at = Instant::now();
                        acc2.lock().unwrap().push((dialled, at));
                        let _ = s.set_nodelay(true);
                        if tx.send(Accepted { stream: s, dialled, peer, at }).is_err() {
                            break;
                        }
                    }
                    Err(_) => tokio::time::sleep(Duration::from_millis(5)).await,
                }
            }
        });
        Some(Target { port, rx, accepts, task })
    }
    pub fn accept_count(&self) -> usize {
        self.accepts.lock().unwrap().len()
    }
    pub async fn next(&mut self, wait: Duration) -> Option<Accepted> {
        tokio::time::timeout(wait, self.rx.recv()).await.ok().flatten()
    }
}

/// Reserve fixed well-known ports (all of `addrs` or none), waiting up to `wait` for another process of
/// this harness that holds them (two runs of the same check side by side) to finish.
pub fn reserve_ports(addrs: &[&str], wait: Duration) -> Option<Vec<std::net::TcpListener>> {
    let t0 = std::time::Instant::now();
    loop {
        let got: Vec<_> = addrs.iter().filter_map(|a| std::net::TcpListener::bind(a).ok()).collect();
        if got.len() == addrs.len() {
            return Some(got);
        }
        drop(got);
        if t0.elapsed() > wait {
            return None;
        }
        std::thread::sleep(Duration::from_millis(700 + (std::process::id() % 600) as u64));
    }
}

/// echo everything until EOF, then close
pub fn spawn_echo(mut s: TcpStream) -> tokio::task::JoinHandle<u64> {
    tokio::spawn(async move {
        let mut buf = vec![0u8; 16384];
        let mut total = 0u64;
        loop {
            match s.read(&mut buf).await {
                Ok(0) | Err(_) => break,
                Ok(n) => {
                    total += n as u64;
                    if s.write_all(&buf[..n]).await.is_err() {
                        break;
                    }
                }
            }
        }
        total
    })
}

// ---------------------------------------------------------------------------
// fake DNS

pub fn name_to_v4(name: &str) -> Ipv4Addr {
    let n = name.trim_end_matches('.').to_ascii_lowercase();
    let h = crate::report::hash_str(&n);
    Ipv4Addr::new(127, (h >> 8) as u8 | 1, (h >> 16) as u8, ((h >> 24) as u8).clamp(1, 254))
}

pub struct FakeDns {
    pub addr: SocketAddr,
    pub queries: Arc<Mutex<Vec<(String, u16)>>>,
    task: tokio::task::JoinHandle<()>,
}

impl Drop for FakeDns {
    fn drop(&mut self) {
        self.task.abort();
    }
}

/// Names starting with "nx" do not exist; everything else resolves (A only) to `name_to_v4`.
pub async fn start_fake_dns() -> Option<FakeDns> {
    let sock = UdpSocket::bind("127.0.0.1:0").await.ok()?;
    let addr = sock.local_addr().ok()?;
    let queries = Arc::new(Mutex::new(Vec::new()));
    let q2 = queries.clone();
    let task = tokio::spawn(async move {
        let mut buf = [0u8; 1500];
        loop {
            let Ok((n, from)) = sock.recv_from(&mut buf).await else { continue };
            if n < 17 {
                continue;
            }
            let q = &buf[..n];
            // parse the single question
            let mut pos = 12;
            let mut labels: Vec<String> = Vec::new();
            let mut ok = true;
            while pos < n {
                let l = q[pos] as usize;
                pos += 1;
                if l == 0 {
                    break;
                }
                if l > 63 || pos + l > n {
                    ok = false;
                    break;
                }
                labels.push(String::from_utf8_lossy(&q[pos..pos + l]).to_string());
                pos += l;
            }
            if !ok || pos + 4 > n {
                continue;
            }
            let qtype = ((q[pos] as u16) << 8) | q[pos + 1] as u16;
            let qend = pos + 4;
            let name = labels.join(".");
            q2.lock().unwrap().push((name.clone(), qtype));
            let nx = name.to_ascii_lowercase().starts_with("nx");
            let mut resp = Vec::with_capacity(qend + 16);
            resp.extend_from_slice(&q[0..2]);
            resp.extend_from_slice(&[0x81, if nx { 0x83 } else { 0x80 }]);
            resp.extend_from_slice(&[0, 1]);
            let answer_a = !nx && qtype == 1;
            resp.extend_from_slice(&[0, if answer_a { 1 } else { 0 }]);
            resp.extend_from_slice(&[0, 0, 0, 0]);
            resp.extend_from_slice(&q[12..qend]);
            if answer_a {
                resp.extend_from_slice(&[0xC0, 0x0C, 0, 1, 0, 1, 0, 0, 0, 30, 0, 4]);
                resp.extend_from_slice(&name_to_v4(&name).octets());
            }
            let _ = sock.send_to(&resp, from).await;
        }
    });
    Some(FakeDns { addr, queries, task })
}

pub async fn use_fake_dns(dns: &FakeDns) -> bool {
    anytls_rs::util::set_custom_dns_servers(&[dns.addr.to_string()]).await.is_ok()
}

// ---------------------------------------------------------------------------
// reference SOCKS5 client

#[derive(Debug, Clone)]
pub enum SocksDest {
    V4(Ipv4Addr, u16),
    V6(std::net::Ipv6Addr, u16),
    Name(String, u16),
}

impl SocksDest {
    pub fn encode(&self) -> Vec<u8> {
        let mut v = Vec::new();
        match self {
            SocksDest::V4(ip, p) => {
                v.push(1);
                v.extend_from_slice(&ip.octets());
                v.extend_from_slice(&p.to_be_bytes());
            }
            SocksDest::V6(ip, p) => {
                v.push(4);
                v.extend_from_slice(&ip.octets());
                v.extend_from_slice(&p.to_be_bytes());
            }
            SocksDest::Name(n, p) => {
                v.push(3);
                v.push(n.len() as u8);
                v.extend_from_slice(n.as_bytes());
                v.extend_from_slice(&p.to_be_bytes());
            }
        }
        v
    }
    pub fn port(&self) -> u16 {
        match self {
            SocksDest::V4(_, p) | SocksDest::V6(_, p) | SocksDest::Name(_, p) => *p,
        }
    }
}

/// CONNECT through a SOCKS5 listener; returns the stream and the reply code
pub async fn socks5_connect(proxy: &str, dest: &SocksDest, wait: Duration) -> Result<(TcpStream, u8), String> {
    let mut s = TcpStream::connect(proxy).await.map_err(|e| e.to_string())?;
    let _ = s.set_nodelay(true);
    s.write_all(&[5, 1, 0]).await.map_err(|e| e.to_string())?;
    let mut m = [0u8; 2];
    tokio::time::timeout(wait, s.read_exact(&mut m)).await.map_err(|_| "method reply timeout".to_string())?.map_err(|e| e.to_string())?;
    if m != [5, 0] {
        return Err(format!("method reply {:?}", m));
    }
    let mut req = vec![5, 1, 0];
    req.extend_from_slice(&dest.encode());
    s.write_all(&req).await.map_err(|e| e.to_string())?;
    let mut rep = [0u8; 10];
    tokio::time::timeout(wait, s.read_exact(&mut rep)).await.map_err(|_| "connect reply timeout".to_string())?.map_err(|e| format!("reading reply: {e}"))?;
    Ok((s, rep[1]))
}

// ---------------------------------------------------------------------------
// frame-level scripted TLS peer (plays the server against the real Client)

pub struct TlsPeerConn {
    pub stream: tokio_rustls::server::TlsStream<TcpStream>,
    pub rbuf: Vec<u8>,
    pub preamble: Vec<u8>,
}

impl TlsPeerConn {
    pub async fn send(&mut self, cmd: u8, sid: u32, data: &[u8]) -> std::io::Result<()> {
        self.stream.write_all(&refcodec::encode(cmd, sid, data)).await?;
        self.stream.flush().await
    }
    pub async fn recv(&mut self) -> Option<RFrame> {
        loop {
            if let Some((f, n)) = refcodec::parse_one(&self.rbuf) {
                self.rbuf.drain(..n);
                return Some(f);
            }
            let mut tmp = [0u8; 16384];
            match self.stream.read(&mut tmp).await {
                Ok(0) | Err(_) => return None,
                Ok(n) => self.rbuf.extend_from_slice(&tmp[..n]),
            }
        }
    }
    pub async fn recv_non_padding(&mut self, wait: Duration) -> Option<RFrame> {
        tokio::time::timeout(wait, async {
            loop {
                let f = self.recv().await?;
                if !f.is_padding() {
                    return Some(f);
                }
            }
        })
        .await
        .ok()
        .flatten()
    }
}

pub struct TlsPeer {
    pub addr: String,
    pub conns: tokio::sync::mpsc::UnboundedReceiver<TlsPeerConn>,
    pub tcp_accepts: Arc<std::sync::atomic::AtomicUsize>,
    /// while set, accepted TCP connections are not answered (their TLS handshake does not progress): lets a
    /// script act while the client is in the middle of dialling a session
    pub hold_handshakes: Arc<std::sync::atomic::AtomicBool>,
    task: tokio::task::JoinHandle<()>,
}

impl Drop for TlsPeer {
    fn drop(&mut self) {
        self.task.abort();
    }
}

/// Accept TLS connections, consume the authentication preamble (32 + 2 + declared bytes),
/// then hand the connection to the script.
pub async fn start_tls_peer() -> Option<TlsPeer> {
    let l = TcpListener::bind("127.0.0.1:0").await.ok()?;
    let addr = l.local_addr().ok()?.to_string();
    let cfg = anytls_rs::util::tls::create_server_config().ok()?;
    let acceptor = tokio_rustls::TlsAcceptor::from(cfg);
    let (tx, rx) = tokio::sync::mpsc::unbounded_channel();
    let tcp_accepts = Arc::new(std::sync::atomic::AtomicUsize::new(0));
    let ta = tcp_accepts.clone();
    let hold_handshakes = Arc::new(std::sync::atomic::AtomicBool::new(false));
    let hold = hold_handshakes.clone();
    let task = tokio::spawn(async move {
        loop {
            let Ok((s, _)) = l.accept().await else { continue };
            ta.fetch_add(1, std::sync::atomic::Ordering::SeqCst);
            let _ = s.set_nodelay(true);
            let acceptor = acceptor.clone();
            let tx = tx.clone();
            let hold = hold.clone();
            tokio::spawn(async move {
                while hold.load(std::sync::atomic::Ordering::SeqCst) {
                    tokio::time::sleep(Duration::from_millis(10)).await;
                }
                let Ok(mut tls) = acceptor.accept(s).await else { return };
                let mut head = [0u8; 34];
                if tls.read_exact(&mut head).await.is_err() {
                    return;
                }
                let l = ((head[32] as usize) << 8) | head[33] as usize;
                let mut pad = vec![0u8; l];
                if tls.read_exact(&mut pad).await.is_err() {
                    return;
                }
                let mut preamble = head.to_vec();
                preamble.extend_from_slice(&pad);
                let _ = tx.send(TlsPeerConn { stream: tls, rbuf: Vec::new(), preamble });
            });
        }
    });
    Some(TlsPeer { addr, conns: rx, tcp_accepts, hold_handshakes, task })
}

/// raw TLS client towards a real server (for C06 e2e / C20): returns the TLS stream
pub async fn raw_tls_connect(server_addr: &str) -> Result<tokio_rustls::client::TlsStream<TcpStream>, String> {
    let cfg = anytls_rs::util::tls::create_client_config().map_err(|e| e.to_string())?;
    let connector = tokio_rustls::TlsConnector::from(cfg);
    let tcp = TcpStream::connect(server_addr).await.map_err(|e| e.to_string())?;
    let _ = tcp.set_nodelay(true);
    let name = ServerName::IpAddress(IpAddr::V4(Ipv4Addr::LOCALHOST).into());
    connector.connect(name, tcp).await.map_err(|e| e.to_string())
}

/// run `n` jobs with at most `limit` in flight
pub async fn for_each_limited<T, F, Fut>(items: Vec<T>, limit: usize, f: F)
where
    T: Send + 'static,
    F: Fn(T) -> Fut + Send + Sync + 'static,
    Fut: std::future::Future<Output = ()> + Send + 'static,
{
    let sem = Arc::new(tokio::sync::Semaphore::new(limit));
    let f = Arc::new(f);
    let mut set = tokio::task::JoinSet::new();
    for it in items {
        let permit = sem.clone().acquire_owned().await.expect("semaphore");
        let f = f.clone();
        set.spawn(async move {
            f(it).await;
            drop(permit);
        });
    }
    while set.join_next().await.is_some() {}
}

// ---------------------------------------------------------------------------
// TLS-record-recording relay: forwards bytes unchanged and logs (outer type, length, time) of every
// TLS record in both directions. What an on-path observer sees — the sizes C05 is about.

#[derive(Clone, Copy, Debug)]
pub struct TlsRec {
    pub typ: u8,
    pub len: usize,
    pub at: Instant,
}

#[derive(Default)]
pub struct ConnRec {
    pub c2s: Mutex<Vec<TlsRec>>,
    pub s2c: Mutex<Vec<TlsRec>>,
    /// bytes that did not parse as TLS records (never expected)
    pub garbage: Mutex<Vec<String>>,
}

pub struct RecRelay {
    pub addr: String,
    pub conns: Arc<Mutex<Vec<Arc<ConnRec>>>>,
    /// while set, nothing is forwarded in either direction (connections stay open): a silent path
    pub hold: Arc<std::sync::atomic::AtomicBool>,
    task: tokio::task::JoinHandle<()>,
}

impl Drop for RecRelay {
    fn drop(&mut self) {
        self.task.abort();
    }
}

#[derive(Default)]
struct RecParser {
    hdr: Vec<u8>,
    skip: usize,
}

impl RecParser {
    fn feed(&mut self, mut data: &[u8], out: &Mutex<Vec<TlsRec>>, garbage: &Mutex<Vec<String>>) {
        while !data.is_empty() {
            if self.skip > 0 {
                let n = self.skip.min(data.len());
                self.skip -= n;
                data = &data[n..];
                continue;
            }
            let need = 5 - self.hdr.len();
            let n = need.min(data.len());
            self.hdr.extend_from_slice(&data[..n]);
            data = &data[n..];
            if self.hdr.len() == 5 {
                let typ = self.hdr[0];
                let len = ((self.hdr[3] as usize) << 8) | self.hdr[4] as usize;
                if !(20..=24).contains(&typ) || self.hdr[1] != 3 || len > 16384 + 256 {
                    garbage.lock().unwrap().push(format!("{:02x?}", self.hdr));
                }
                out.lock().unwrap().push(TlsRec { typ, len, at: Instant::now() });
                self.skip = len;
                self.hdr.clear();
            }
        }
    }
}

pub async fn start_rec_relay(server_addr: String) -> Option<RecRelay> {
    let l = TcpListener::bind("127.0.0.1:0").await.ok()?;
    let addr = l.local_addr().ok()?.to_string();
    let conns: Arc<Mutex<Vec<Arc<ConnRec>>>> = Arc::new(Mutex::new(Vec::new()));
    let c2 = conns.clone();
    let hold = Arc::new(std::sync::atomic::AtomicBool::new(false));
    let hold2 = hold.clone();
    let task = tokio::spawn(async move {
        loop {
            let Ok((c, _)) = l.accept().await else { continue };
            let _ = c.set_nodelay(true);
            let (h_up, h_down) = (hold2.clone(), hold2.clone());
            let rec = Arc::new(ConnRec::default());
            c2.lock().unwrap().push(rec.clone());
            let sa = server_addr.clone();
            tokio::spawn(async move {
                let Ok(s) = TcpStream::connect(&sa).await else { return };
                let _ = s.set_nodelay(true);
                let (mut cr, mut cw) = c.into_split();
                let (mut sr, mut sw) = s.into_split();
                let r1 = rec.clone();
                let up = tokio::spawn(async move {
                    let mut p = RecParser::default();
                    let mut buf = vec![0u8; 32768];
                    loop {
                        match cr.read(&mut buf).await {
                            Ok(0) | Err(_) => break,
                            Ok(n) => {
                                while h_up.load(std::sync::atomic::Ordering::SeqCst) {
                                    tokio::time::sleep(Duration::from_millis(20)).await;
                                }
                                p.feed(&buf[..n], &r1.c2s, &r1.garbage);
                                if sw.write_all(&buf[..n]).await.is_err() {
                                    break;
                                }
                            }
                        }
                    }
                    let _ = sw.shutdown().await;
                });
                let r2 = rec.clone();
                let down = tokio::spawn(async move {
                    let mut p = RecParser::default();
                    let mut buf = vec![0u8; 32768];
                    loop {
                        match sr.read(&mut buf).await {
                            Ok(0) | Err(_) => break,
                            Ok(n) => {
                                while h_down.load(std::sync::atomic::Ordering::SeqCst) {
                                    tokio::time::sleep(Duration::from_millis(20)).await;
                                }
                                p.feed(&buf[..n], &r2.s2c, &r2.garbage);
                                if cw.write_all(&buf[..n]).await.is_err() {
                                    break;
                                }
                            }
                        }
                    }
                    let _ = cw.shutdown().await;
                });
                let _ = up.await;
                let _ = down.await;
            });
        }
    });
    Some(RecRelay { addr, conns, hold, task })
}
