//! Small deterministic PRNG (splitmix64) so every workload replays from its seed.

#[derive(Clone, Debug)]
pub struct Rng(pub u64);

pub fn mix(mut z: u64) -> u64 {
    z = z.wrapping_add(0x9E37_79B9_7F4A_7C15);
    z = (z ^ (z >> 30)).wrapping_mul(0xBF58_476D_1CE4_E5B9);
    z = (z ^ (z >> 27)).wrapping_mul(0x94D0_49BB_1331_11EB);
    z ^ (z >> 31)
}

impl Rng {
    pub fn new(seed: u64) -> Self {
        Rng(mix(seed ^ 0xA5A5_5A5A_1234_5678))
    }
    pub fn fork(&mut self, tag: u64) -> Rng {
        Rng::new(self.next() ^ mix(tag))
    }
    #[allow(clippy::should_implement_trait)]
    pub fn next(&mut self) -> u64 {
        self.0 = self.0.wrapping_add(0x9E37_79B9_7F4A_7C15);
        let mut z = self.0;
        z = (z ^ (z >> 30)).wrapping_mul(0xBF58_476D_1CE4_E5B9);
        z = (z ^ (z >> 27)).wrapping_mul(0x94D0_49BB_1331_11EB);
        z ^ (z >> 31)
    }
    /// uniform in [0, n)
    pub fn below(&mut self, n: u64) -> u64 {
        if n == 0 { 0 } else { self.next() % n }
    }
    /// uniform in [lo, hi]
    pub fn range(&mut self, lo: u64, hi: u64) -> u64 {
        if hi <= lo { lo } else { lo + self.below(hi - lo + 1) }
    }
    pub fn usize(&mut self, lo: usize, hi: usize) -> usize {
        self.range(lo as u64, hi as u64) as usize
    }
    pub fn chance(&mut self, p: f64) -> bool {
        (self.next() >> 11) as f64 / ((1u64 << 53) as f64) < p
    }
    pub fn pick<'a, T>(&mut self, xs: &'a [T]) -> &'a T {
        &xs[self.below(xs.len() as u64) as usize]
    }
    pub fn bytes(&mut self, n: usize) -> Vec<u8> {
        let mut v = Vec::with_capacity(n + 8);
        while v.len() < n {
            v.extend_from_slice(&self.next().to_le_bytes());
        }
        v.truncate(n);
        v
    }
    /// random bytes of a random length in [lo, hi]
    pub fn bytes_in(&mut self, lo: usize, hi: usize) -> Vec<u8> {
        let n = self.usize(lo, hi);
        self.bytes(n)
    }
    pub fn shuffle<T>(&mut self, xs: &mut [T]) {
        for i in (1..xs.len()).rev() {
            let j = self.below(i as u64 + 1) as usize;
            xs.swap(i, j);
        }
    }
}

/// Position-addressable payload: byte `i` of (seed, stream tag, direction).
/// Any loss, duplication, reordering or cross-stream leak shows as a content
/// mismatch at the exact offset where it happens.
#[derive(Clone, Copy, Debug)]
pub struct Pattern {
    key: u64,
}

impl Pattern {
    pub fn new(seed: u64, stream_tag: u64, dir: u64) -> Self {
        Pattern { key: mix(seed ^ mix(stream_tag.wrapping_mul(0x1F3D_5B79) ^ (dir << 61))) }
    }
    #[inline]
    pub fn byte(&self, i: u64) -> u8 {
        (self.word(i >> 3) >> ((i & 7) * 8)) as u8
    }
    #[inline]
    fn word(&self, w: u64) -> u64 {
        mix(self.key ^ w.wrapping_mul(0x2545_F491_4F6C_DD1D))
    }
    pub fn fill(&self, off: u64, out: &mut [u8]) {
        let mut i = off;
        let end = off + out.len() as u64;
        let mut k = 0usize;
        while i < end {
            let w = self.word(i >> 3);
            let mut sh = (i & 7) * 8;
            while sh < 64 && i < end {
                out[k] = (w >> sh) as u8;
                k += 1;
                i += 1;
                sh += 8;
            }
        }
    }
    pub fn make(&self, off: u64, len: usize) -> Vec<u8> {
        let mut v = vec![0u8; len];
        self.fill(off, &mut v);
        v
    }
    /// first index in `got` that differs from the pattern starting at `off`
    pub fn first_mismatch(&self, off: u64, got: &[u8]) -> Option<usize> {
        let mut i = off;
        let end = off + got.len() as u64;
        let mut k = 0usize;
        while i < end {
            let w = self.word(i >> 3);
            let mut sh = (i & 7) * 8;
            while sh < 64 && i < end {
                if got[k] != (w >> sh) as u8 {
                    return Some(k);
                }
                k += 1;
                i += 1;
                sh += 8;
            }
        }
        None
    }
}
