//! The "mux engine": real client / server `Session`s joined by monitored
//! MemPipes, plus a raw scripted peer that speaks frames through the
//! reference codec.

use crate::mempipe::{PipeCfg, PipeHandle, PipeReader, PipeWriter, pipe};
use crate::refcodec::{self, RFrame};
use anytls_rs::padding::PaddingFactory;
use anytls_rs::session::{Session, SessionHeartbeatConfig, Stream};
use std::sync::Arc;
use tokio::io::{AsyncReadExt, AsyncWriteExt};
use tokio::sync::mpsc::UnboundedReceiver;

pub fn default_padding() -> Arc<PaddingFactory> {
    Arc::new(PaddingFactory::new(anytls_rs::padding::DEFAULT_PADDING_SCHEME.as_bytes()).expect("default scheme"))
}

pub fn padding_from(text: &str) -> Result<Arc<PaddingFactory>, String> {
    PaddingFactory::new(text.as_bytes()).map(Arc::new)
}

/// a scheme that never pads (stop=0): keeps wires simple where padding is not the subject
pub fn no_padding() -> Arc<PaddingFactory> {
    Arc::new(PaddingFactory::new(b"stop=0").expect("stop=0"))
}

pub struct Pair {
    pub client: Arc<Session>,
    pub server: Arc<Session>,
    pub c2s: PipeHandle,
    pub s2c: PipeHandle,
    pub new_streams: UnboundedReceiver<Arc<Stream>>,
    pub server_tasks: Vec<tokio::task::JoinHandle<()>>,
}

pub struct PairCfg {
    pub c2s: PipeCfg,
    pub s2c: PipeCfg,
    pub client_padding: Arc<PaddingFactory>,
    pub server_padding: Arc<PaddingFactory>,
    pub heartbeat: Option<SessionHeartbeatConfig>,
}

impl PairCfg {
    pub fn plain() -> Self {
        PairCfg { c2s: PipeCfg::plain(), s2c: PipeCfg::plain(), client_padding: no_padding(), server_padding: no_padding(), heartbeat: None }
    }
}

/// Start a server session the way `server.rs::handle_connection` does (minus TLS/auth).
pub fn start_server(
    reader: PipeReader,
    writer: PipeWriter,
    padding: Arc<PaddingFactory>,
) -> (Arc<Session>, UnboundedReceiver<Arc<Stream>>, Vec<tokio::task::JoinHandle<()>>) {
    let (tx, rx) = tokio::sync::mpsc::unbounded_channel();
    let mut s = Session::new_server(reader, writer, padding);
    s.set_stream_callback(tx);
    let s = Arc::new(s);
    let a = s.clone();
    let b = s.clone();
    let t1 = tokio::spawn(async move {
        let _ = a.recv_loop().await;
    });
    let t2 = tokio::spawn(async move {
        let _ = b.process_stream_data().await;
    });
    (s, rx, vec![t1, t2])
}

/// Start a client session the way `client.rs::create_new_session` does (minus TLS/auth).
pub async fn start_client(
    reader: PipeReader,
    writer: PipeWriter,
    padding: Arc<PaddingFactory>,
    heartbeat: Option<SessionHeartbeatConfig>,
) -> anytls_rs::util::Result<Arc<Session>> {
    let s = Arc::new(Session::new_client(reader, writer, padding, heartbeat));
    s.clone().start_client().await?;
    Ok(s)
}

pub async fn make_pair(cfg: PairCfg) -> Pair {
    let (c2s_w, c2s_r, c2s) = pipe(cfg.c2s);
    let (s2c_w, s2c_r, s2c) = pipe(cfg.s2c);
    let (server, new_streams, server_tasks) = start_server(c2s_r, s2c_w, cfg.server_padding);
    let client = start_client(s2c_r, c2s_w, cfg.client_padding, cfg.heartbeat).await.expect("start_client buffers only");
    Pair { client, server, c2s, s2c, new_streams, server_tasks }
}

/// What `Client::create_proxy_stream` does on a session, up to (not including) the SYNACK wait:
/// open the stream, disable buffering, write the first data frame.
pub async fn open_like_client(
    session: &Arc<Session>,
    first: bytes::Bytes,
) -> anytls_rs::util::Result<(Arc<Stream>, tokio::sync::oneshot::Receiver<anytls_rs::util::Result<()>>)> {
    let (stream, rx) = session.open_stream().await?;
    session.disable_buffering();
    session.write_data_frame(stream.id(), first).await?;
    Ok((stream, rx))
}

// ---------------------------------------------------------------------------

/// A scripted peer that owns one end of a connection and speaks raw frames.
pub struct RawPeer {
    pub w: PipeWriter,
    pub r: PipeReader,
    pub rbuf: Vec<u8>,
}

impl RawPeer {
    pub async fn send(&mut self, cmd: u8, sid: u32, data: &[u8]) -> std::io::Result<()> {
        self.w.write_all(&refcodec::encode(cmd, sid, data)).await
    }
    pub async fn send_bytes(&mut self, b: &[u8]) -> std::io::Result<()> {
        self.w.write_all(b).await
    }
    /// read until one more frame is available (None on EOF / error)
    pub async fn recv(&mut self) -> Option<RFrame> {
        loop {
            if let Some((f, n)) = refcodec::parse_one(&self.rbuf) {
                self.rbuf.drain(..n);
                return Some(f);
            }
            let mut tmp = [0u8; 16384];
            match self.r.read(&mut tmp).await {
                Ok(0) | Err(_) => return None,
                Ok(n) => self.rbuf.extend_from_slice(&tmp[..n]),
            }
        }
    }
    /// next non-padding frame
    pub async fn recv_payload_frame(&mut self) -> Option<RFrame> {
        loop {
            let f = self.recv().await?;
            if !f.is_padding() {
                return Some(f);
            }
        }
    }
}

/// real client session <-> raw scripted server
pub struct ClientVsRaw {
    pub client: Arc<Session>,
    pub peer: RawPeer,
    pub c2s: PipeHandle,
    pub s2c: PipeHandle,
}

pub async fn client_vs_raw(c2s: PipeCfg, s2c: PipeCfg, padding: Arc<PaddingFactory>, hb: Option<SessionHeartbeatConfig>) -> ClientVsRaw {
    let (c2s_w, c2s_r, c2s_h) = pipe(c2s);
    let (s2c_w, s2c_r, s2c_h) = pipe(s2c);
    let client = start_client(s2c_r, c2s_w, padding, hb).await.expect("start_client buffers only");
    ClientVsRaw { client, peer: RawPeer { w: s2c_w, r: c2s_r, rbuf: Vec::new() }, c2s: c2s_h, s2c: s2c_h }
}

/// raw scripted client <-> real server session
pub struct RawVsServer {
    pub server: Arc<Session>,
    pub peer: RawPeer,
    pub c2s: PipeHandle,
    pub s2c: PipeHandle,
    pub new_streams: UnboundedReceiver<Arc<Stream>>,
    pub server_tasks: Vec<tokio::task::JoinHandle<()>>,
}

pub fn raw_vs_server(c2s: PipeCfg, s2c: PipeCfg, padding: Arc<PaddingFactory>) -> RawVsServer {
    let (c2s_w, c2s_r, c2s_h) = pipe(c2s);
    let (s2c_w, s2c_r, s2c_h) = pipe(s2c);
    let (server, new_streams, server_tasks) = start_server(c2s_r, s2c_w, padding);
    RawVsServer { server, peer: RawPeer { w: c2s_w, r: s2c_r, rbuf: Vec::new() }, c2s: c2s_h, s2c: s2c_h, new_streams, server_tasks }
}

pub fn settings_payload(padding_md5: &str) -> Vec<u8> {
    format!("v=2\nclient=verif\npadding-md5={padding_md5}").into_bytes()
}
