//! Runtime-monitoring harness for jxo-me/anytls-rs (see /verif/DESIGN.md).
pub mod engine;
pub mod mempipe;
pub mod netkit;
pub mod prng;
pub mod props;
pub mod refcodec;
pub mod refscheme;
pub mod report;
pub mod run;
pub mod sched;
