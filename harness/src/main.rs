use anytls_verif::report::Tier;
use anytls_verif::run::Ctx;

fn usage() -> ! {
    eprintln!("usage: mon <C01..C20> <quick|thorough> [--seed N] [--replay FILE] [--shards N]");
    std::process::exit(2);
}

fn main() {
    let args: Vec<String> = std::env::args().skip(1).collect();
    if args.is_empty() {
        usage();
    }
    if args[0] == "miri" {
        std::process::exit(anytls_verif::props::miri_main(args.get(1).map(|s| s.as_str()).unwrap_or("")));
    }
    if args[0] == "child" {
        std::process::exit(anytls_verif::props::child_main(&args[1..]));
    }
    if args.len() < 2 {
        usage();
    }
    // replay aid: VERIF_TRACE=<filter> prints the tracing output of the code under test to stderr
    if let Ok(f) = std::env::var("VERIF_TRACE") {
        let _ = tracing_subscriber::fmt().with_env_filter(tracing_subscriber::EnvFilter::new(f)).with_writer(std::io::stderr).try_init();
    }
    let prop = args[0].to_uppercase();
    let tier = match args[1].as_str() {
        "quick" => Tier::Quick,
        "thorough" => Tier::Thorough,
        _ => usage(),
    };
    let mut seed: u64 = std::env::var("VERIF_SEED").ok().and_then(|s| s.trim().parse::<i64>().ok()).map(|x| x as u64).unwrap_or(1);
    let mut shards: usize = std::thread::available_parallelism().map(|n| n.get()).unwrap_or(8).min(16);
    let mut replay: Option<String> = None;
    let mut i = 2;
    while i < args.len() {
        match args[i].as_str() {
            "--seed" => {
                seed = args.get(i + 1).and_then(|s| s.parse().ok()).unwrap_or(seed);
                i += 1;
            }
            "--shards" => {
                shards = args.get(i + 1).and_then(|s| s.parse().ok()).unwrap_or(shards);
                i += 1;
            }
            "--replay" => {
                replay = args.get(i + 1).cloned();
                i += 1;
            }
            _ => usage(),
        }
        i += 1;
    }
    anytls_verif::run::install_panic_monitor();
    let ctx = Ctx { tier, seed, shards };
    let code = anytls_verif::props::dispatch(&prop, ctx, replay.as_deref());
    std::process::exit(code);
}
