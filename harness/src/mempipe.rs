//! MemPipe — an in-memory, unidirectional, *monitored* byte pipe.
//!
//! The code under test gets the write end as its `AsyncWrite` and the peer gets
//! the read end as its `AsyncRead`. The monitor owns the pipe: it records every
//! write call / flush / shutdown / drop and all bytes, decides (seeded) how much
//! of each write is accepted and how much each read delivers, can return
//! `Pending` at legal suspension points, and can inject faults at byte offsets.

use crate::prng::Rng;
use std::collections::VecDeque;
use std::io;
use std::pin::Pin;
use std::sync::{Arc, Mutex, MutexGuard};
use std::task::{Context, Poll, Waker};
use tokio::io::{AsyncRead, AsyncWrite, ReadBuf};

#[derive(Clone, Debug)]
pub enum Frag {
    /// accept / deliver as much as possible
    All,
    /// one byte at a time
    One,
    /// at most n bytes
    Max(usize),
    /// uniform in 1..=n
    Random(usize),
    /// pick from a pool of sizes
    Pool(Vec<usize>),
}

impl Frag {
    fn choose(&self, rng: &mut Rng) -> usize {
        match self {
            Frag::All => usize::MAX,
            Frag::One => 1,
            Frag::Max(n) => (*n).max(1),
            Frag::Random(n) => rng.usize(1, (*n).max(1)),
            Frag::Pool(p) => (*rng.pick(p)).max(1),
        }
    }
    pub fn name(&self) -> String {
        match self {
            Frag::All => "all".into(),
            Frag::One => "1".into(),
            Frag::Max(n) => format!("max{n}"),
            Frag::Random(n) => format!("rnd{n}"),
            Frag::Pool(p) => format!("pool{}", p.len()),
        }
    }
}

#[derive(Clone, Debug)]
pub struct PipeCfg {
    pub capacity: usize,
    pub write_frag: Frag,
    pub read_frag: Frag,
    pub pending_prob: f64,
    pub seed: u64,
}

impl PipeCfg {
    /// unbounded, whole writes, whole reads, never spuriously pending
    pub fn plain() -> Self {
        PipeCfg { capacity: usize::MAX, write_frag: Frag::All, read_frag: Frag::All, pending_prob: 0.0, seed: 0 }
    }
    pub fn describe(&self) -> String {
        format!(
            "cap={} w={} r={} pend={:.2}",
            if self.capacity == usize::MAX { "inf".to_string() } else { self.capacity.to_string() },
            self.write_frag.name(),
            self.read_frag.name(),
            self.pending_prob
        )
    }
}

impl Frag {
    pub fn to_json(&self) -> serde_json::Value {
        match self {
            Frag::All => serde_json::json!("all"),
            Frag::One => serde_json::json!("one"),
            Frag::Max(n) => serde_json::json!({"max": n}),
            Frag::Random(n) => serde_json::json!({"random": n}),
            Frag::Pool(p) => serde_json::json!({"pool": p}),
        }
    }
    pub fn from_json(v: &serde_json::Value) -> Frag {
        if let Some(s) = v.as_str() {
            return if s == "one" { Frag::One } else { Frag::All };
        }
        if let Some(n) = v.get("max").and_then(|x| x.as_u64()) {
            return Frag::Max(n as usize);
        }
        if let Some(n) = v.get("random").and_then(|x| x.as_u64()) {
            return Frag::Random(n as usize);
        }
        if let Some(p) = v.get("pool").and_then(|x| x.as_array()) {
            return Frag::Pool(p.iter().filter_map(|x| x.as_u64()).map(|x| x as usize).collect());
        }
        Frag::All
    }
}

impl PipeCfg {
    pub fn to_json(&self) -> serde_json::Value {
        serde_json::json!({
            "capacity": if self.capacity == usize::MAX { serde_json::Value::Null } else { serde_json::json!(self.capacity) },
            "write_frag": self.write_frag.to_json(), "read_frag": self.read_frag.to_json(),
            "pending_prob": self.pending_prob, "seed": self.seed.to_string(),
        })
    }
    pub fn from_json(v: &serde_json::Value) -> PipeCfg {
        PipeCfg {
            capacity: v.get("capacity").and_then(|x| x.as_u64()).map(|x| x as usize).unwrap_or(usize::MAX),
            write_frag: Frag::from_json(v.get("write_frag").unwrap_or(&serde_json::Value::Null)),
            read_frag: Frag::from_json(v.get("read_frag").unwrap_or(&serde_json::Value::Null)),
            pending_prob: v.get("pending_prob").and_then(|x| x.as_f64()).unwrap_or(0.0),
            seed: v.get("seed").and_then(|x| x.as_str()).and_then(|x| x.parse().ok()).unwrap_or(0),
        }
    }
}

#[derive(Clone, Debug, PartialEq, Eq)]
pub enum ReadFault {
    /// clean end of stream although the writer has not closed
    Eof,
    /// read error of the given kind
    Err(io::ErrorKind),
    /// stop delivering (and therefore stop draining) forever
    BlackHole,
}

#[derive(Clone, Debug)]
pub struct WriteRec {
    pub off: u64,
    pub requested: usize,
    pub accepted: usize,
    pub at: tokio::time::Instant,
}

#[derive(Clone, Debug, Default)]
pub struct PipeLog {
    pub bytes: Vec<u8>,
    pub writes: Vec<WriteRec>,
    pub flushes: Vec<u64>,
    pub shutdown_calls: u32,
    pub shutdown_at: Option<u64>,
    pub writer_dropped: bool,
    pub reader_dropped: bool,
    pub write_errors: u32,
    pub read_faults_fired: u32,
    pub pendings: u64,
    pub reads: u64,
}

struct Inner {
    buf: VecDeque<u8>,
    cfg: PipeCfg,
    rng: Rng,
    log: PipeLog,
    w_closed: bool,
    r_closed: bool,
    read_waker: Option<Waker>,
    write_waker: Option<Waker>,
    delivered: u64,
    accepted: u64,
    read_fault: Option<(u64, ReadFault)>,
    read_fault_active: bool,
    write_fault: Option<(u64, io::ErrorKind)>,
    write_fault_active: bool,
    record_bytes: bool,
}

#[derive(Clone)]
pub struct PipeHandle(Arc<Mutex<Inner>>);
pub struct PipeWriter(Arc<Mutex<Inner>>);
pub struct PipeReader(Arc<Mutex<Inner>>);

fn lock(m: &Arc<Mutex<Inner>>) -> MutexGuard<'_, Inner> {
    m.lock().unwrap_or_else(|e| e.into_inner())
}

pub fn pipe(cfg: PipeCfg) -> (PipeWriter, PipeReader, PipeHandle) {
    let rng = Rng::new(cfg.seed ^ 0x7069_7065);
    let inner = Arc::new(Mutex::new(Inner {
        buf: VecDeque::new(),
        cfg,
        rng,
        log: PipeLog::default(),
        w_closed: false,
        r_closed: false,
        read_waker: None,
        write_waker: None,
        delivered: 0,
        accepted: 0,
        read_fault: None,
        read_fault_active: false,
        write_fault: None,
        write_fault_active: false,
        record_bytes: true,
    }));
    (PipeWriter(inner.clone()), PipeReader(inner.clone()), PipeHandle(inner))
}

impl PipeHandle {
    pub fn log(&self) -> PipeLog {
        lock(&self.0).log.clone()
    }
    pub fn with_log<T>(&self, f: impl FnOnce(&PipeLog) -> T) -> T {
        f(&lock(&self.0).log)
    }
    pub fn accepted(&self) -> u64 {
        lock(&self.0).accepted
    }
    pub fn delivered(&self) -> u64 {
        lock(&self.0).delivered
    }
    pub fn buffered(&self) -> usize {
        lock(&self.0).buf.len()
    }
    pub fn writer_closed(&self) -> bool {
        lock(&self.0).w_closed
    }
    pub fn set_record_bytes(&self, on: bool) {
        lock(&self.0).record_bytes = on;
    }
    /// the reader sees this fault once it has been handed exactly `off` bytes
    pub fn set_read_fault(&self, off: u64, f: ReadFault) {
        let mut g = lock(&self.0);
        g.read_fault = Some((off, f));
        if let Some(w) = g.read_waker.take() {
            w.wake();
        }
    }
    /// the writer sees this error once exactly `off` bytes have been accepted
    pub fn set_write_fault(&self, off: u64, kind: io::ErrorKind) {
        let mut g = lock(&self.0);
        g.write_fault = Some((off, kind));
        if let Some(w) = g.write_waker.take() {
            w.wake();
        }
    }
    /// fault "now": at the current delivered / accepted position
    pub fn read_fault_now(&self, f: ReadFault) {
        let off = lock(&self.0).delivered;
        self.set_read_fault(off, f);
    }
    pub fn write_fault_now(&self, kind: io::ErrorKind) {
        let off = lock(&self.0).accepted;
        self.set_write_fault(off, kind);
    }
    pub fn clear_read_fault(&self) {
        let mut g = lock(&self.0);
        g.read_fault = None;
        g.read_fault_active = false;
        if let Some(w) = g.read_waker.take() {
            w.wake();
        }
    }
    /// simulate the writing peer closing its end (reader gets EOF after drain)
    pub fn close_write_side(&self) {
        let mut g = lock(&self.0);
        g.w_closed = true;
        if let Some(w) = g.read_waker.take() {
            w.wake();
        }
    }
    pub fn set_cfg(&self, f: impl FnOnce(&mut PipeCfg)) {
        let mut g = lock(&self.0);
        f(&mut g.cfg);
        if let Some(w) = g.read_waker.take() {
            w.wake();
        }
        if let Some(w) = g.write_waker.take() {
            w.wake();
        }
    }
}

impl AsyncWrite for PipeWriter {
    fn poll_write(self: Pin<&mut Self>, cx: &mut Context<'_>, data: &[u8]) -> Poll<io::Result<usize>> {
        let mut g = lock(&self.0);
        if g.w_closed {
            g.log.write_errors += 1;
            return Poll::Ready(Err(io::Error::new(io::ErrorKind::BrokenPipe, "mempipe: write after shutdown")));
        }
        if g.r_closed {
            g.log.write_errors += 1;
            return Poll::Ready(Err(io::Error::new(io::ErrorKind::BrokenPipe, "mempipe: peer gone")));
        }
        if let Some((off, kind)) = g.write_fault
            && (g.write_fault_active || g.accepted >= off)
        {
            g.write_fault_active = true;
            g.log.write_errors += 1;
            return Poll::Ready(Err(io::Error::new(kind, "mempipe: injected write fault")));
        }
        if data.is_empty() {
            return Poll::Ready(Ok(0));
        }
        let p = g.cfg.pending_prob;
        if p > 0.0 && g.rng.chance(p) {
            g.log.pendings += 1;
            cx.waker().wake_by_ref();
            return Poll::Pending;
        }
        let room = g.cfg.capacity.saturating_sub(g.buf.len());
        if room == 0 {
            g.write_waker = Some(cx.waker().clone());
            return Poll::Pending;
        }
        let frag = g.cfg.write_frag.clone();
        let mut n = data.len().min(room).min(frag.choose(&mut g.rng));
        if let Some((off, _)) = g.write_fault
            && off > g.accepted
        {
            n = n.min((off - g.accepted) as usize);
        }
        let off = g.accepted;
        g.buf.extend(&data[..n]);
        if g.record_bytes {
            g.log.bytes.extend_from_slice(&data[..n]);
        }
        g.log.writes.push(WriteRec { off, requested: data.len(), accepted: n, at: tokio::time::Instant::now() });
        g.accepted += n as u64;
        if let Some(w) = g.read_waker.take() {
            w.wake();
        }
        Poll::Ready(Ok(n))
    }

    fn poll_flush(self: Pin<&mut Self>, _cx: &mut Context<'_>) -> Poll<io::Result<()>> {
        let mut g = lock(&self.0);
        if g.write_fault_active {
            let kind = g.write_fault.map(|x| x.1).unwrap_or(io::ErrorKind::BrokenPipe);
            return Poll::Ready(Err(io::Error::new(kind, "mempipe: injected write fault (flush)")));
        }
        let off = g.accepted;
        g.log.flushes.push(off);
        Poll::Ready(Ok(()))
    }

    fn poll_shutdown(self: Pin<&mut Self>, _cx: &mut Context<'_>) -> Poll<io::Result<()>> {
        let mut g = lock(&self.0);
        g.log.shutdown_calls += 1;
        if g.log.shutdown_at.is_none() {
            g.log.shutdown_at = Some(g.accepted);
        }
        g.w_closed = true;
        if let Some(w) = g.read_waker.take() {
            w.wake();
        }
        Poll::Ready(Ok(()))
    }
}

impl Drop for PipeWriter {
    fn drop(&mut self) {
        let mut g = lock(&self.0);
        g.log.writer_dropped = true;
        g.w_closed = true;
        if let Some(w) = g.read_waker.take() {
            w.wake();
        }
    }
}

impl AsyncRead for PipeReader {
    fn poll_read(self: Pin<&mut Self>, cx: &mut Context<'_>, out: &mut ReadBuf<'_>) -> Poll<io::Result<()>> {
        let mut g = lock(&self.0);
        if let Some((off, f)) = g.read_fault.clone()
            && (g.read_fault_active || g.delivered >= off)
        {
            if !g.read_fault_active {
                g.read_fault_active = true;
                g.log.read_faults_fired += 1;
            }
            return match f {
                ReadFault::Eof => Poll::Ready(Ok(())),
                ReadFault::Err(kind) => Poll::Ready(Err(io::Error::new(kind, "mempipe: injected read fault"))),
                ReadFault::BlackHole => {
                    g.read_waker = Some(cx.waker().clone());
                    Poll::Pending
                }
            };
        }
        if out.remaining() == 0 {
            return Poll::Ready(Ok(()));
        }
        let p = g.cfg.pending_prob;
        if p > 0.0 && g.rng.chance(p) {
            g.log.pendings += 1;
            cx.waker().wake_by_ref();
            return Poll::Pending;
        }
        if g.buf.is_empty() {
            if g.w_closed {
                return Poll::Ready(Ok(()));
            }
            g.read_waker = Some(cx.waker().clone());
            return Poll::Pending;
        }
        let frag = g.cfg.read_frag.clone();
        let mut n = out.remaining().min(g.buf.len()).min(frag.choose(&mut g.rng));
        if let Some((off, _)) = g.read_fault
            && off > g.delivered
        {
            n = n.min((off - g.delivered) as usize);
        }
        let (a, b) = g.buf.as_slices();
        if n <= a.len() {
            out.put_slice(&a[..n]);
        } else {
            out.put_slice(a);
            out.put_slice(&b[..n - a.len()]);
        }
        g.buf.drain(..n);
        g.delivered += n as u64;
        g.log.reads += 1;
        if let Some(w) = g.write_waker.take() {
            w.wake();
        }
        Poll::Ready(Ok(()))
    }
}

impl Drop for PipeReader {
    fn drop(&mut self) {
        let mut g = lock(&self.0);
        g.log.reader_dropped = true;
        g.r_closed = true;
        if let Some(w) = g.write_waker.take() {
            w.wake();
        }
    }
}

/// Forward bytes from `from` to `to` with a fixed one-way latency (virtual
/// under the paused clock). EOF is forwarded as a shutdown after the delay.
pub fn spawn_delay_link(mut from: PipeReader, mut to: PipeWriter, latency: std::time::Duration) -> tokio::task::JoinHandle<()> {
    use tokio::io::{AsyncReadExt, AsyncWriteExt};
    let (tx, mut rx) = tokio::sync::mpsc::unbounded_channel::<(tokio::time::Instant, Option<Vec<u8>>)>();
    tokio::spawn(async move {
        let mut buf = vec![0u8; 65536];
        loop {
            match from.read(&mut buf).await {
                Ok(0) | Err(_) => {
                    let _ = tx.send((tokio::time::Instant::now() + latency, None));
                    break;
                }
                Ok(n) => {
                    if tx.send((tokio::time::Instant::now() + latency, Some(buf[..n].to_vec()))).is_err() {
                        break;
                    }
                }
            }
        }
    });
    tokio::spawn(async move {
        while let Some((at, item)) = rx.recv().await {
            tokio::time::sleep_until(at).await;
            match item {
                Some(b) => {
                    if to.write_all(&b).await.is_err() {
                        break;
                    }
                }
                None => {
                    let _ = to.shutdown().await;
                    break;
                }
            }
        }
    })
}


/// Like `spawn_delay_link`, but the link also has a finite rate: every piece of at most `mtu` bytes takes
/// `mtu_ms` of (virtual) time to put on the link before the next one is read, then `latency` to arrive.
/// Together with a small capacity of the pipe being read this makes large writes take time.
pub fn spawn_slow_link(mut from: PipeReader, mut to: PipeWriter, latency: std::time::Duration, mtu: usize, mtu_ms: u64) -> tokio::task::JoinHandle<()> {
    use tokio::io::{AsyncReadExt, AsyncWriteExt};
    let (tx, mut rx) = tokio::sync::mpsc::unbounded_channel::<(tokio::time::Instant, Option<Vec<u8>>)>();
    tokio::spawn(async move {
        let mut buf = vec![0u8; mtu.max(1)];
        loop {
            match from.read(&mut buf).await {
                Ok(0) | Err(_) => {
                    let _ = tx.send((tokio::time::Instant::now() + latency, None));
                    break;
                }
                Ok(n) => {
                    tokio::time::sleep(std::time::Duration::from_millis(mtu_ms)).await;
                    if tx.send((tokio::time::Instant::now() + latency, Some(buf[..n].to_vec()))).is_err() {
                        break;
                    }
                }
            }
        }
    });
    tokio::spawn(async move {
        while let Some((at, item)) = rx.recv().await {
            tokio::time::sleep_until(at).await;
            match item {
                Some(b) => {
                    if to.write_all(&b).await.is_err() {
                        break;
                    }
                }
                None => {
                    let _ = to.shutdown().await;
                    break;
                }
            }
        }
    })
}
