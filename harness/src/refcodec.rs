//! Independent reference frame codec, written from the protocol description
//! (1 byte command | 4 byte big-endian stream id | 2 byte big-endian length |
//! payload). Shares no code with the crate's `FrameCodec`.

pub const HDR: usize = 7;

pub const WASTE: u8 = 0;
pub const SYN: u8 = 1;
pub const PSH: u8 = 2;
pub const FIN: u8 = 3;
pub const SETTINGS: u8 = 4;
pub const ALERT: u8 = 5;
pub const UPDATE_PADDING: u8 = 6;
pub const SYNACK: u8 = 7;
pub const HEART_REQ: u8 = 8;
pub const HEART_RESP: u8 = 9;
pub const SERVER_SETTINGS: u8 = 10;

#[derive(Clone, Debug, PartialEq, Eq)]
pub struct RFrame {
    pub cmd: u8,
    pub sid: u32,
    pub data: Vec<u8>,
    /// offset of the first header byte in the parsed buffer
    pub off: usize,
}

impl RFrame {
    pub fn new(cmd: u8, sid: u32, data: &[u8]) -> Self {
        RFrame { cmd, sid, data: data.to_vec(), off: 0 }
    }
    pub fn total(&self) -> usize {
        HDR + self.data.len()
    }
    /// unknown command bytes are inert padding
    pub fn is_padding(&self) -> bool {
        self.cmd == WASTE || self.cmd > SERVER_SETTINGS
    }
    pub fn brief(&self) -> String {
        format!("{}:{}:{}", cmd_name(self.cmd), self.sid, self.data.len())
    }
}

pub fn cmd_name(c: u8) -> &'static str {
    match c {
        0 => "WASTE",
        1 => "SYN",
        2 => "PSH",
        3 => "FIN",
        4 => "SETTINGS",
        5 => "ALERT",
        6 => "UPDPAD",
        7 => "SYNACK",
        8 => "HREQ",
        9 => "HRESP",
        10 => "SRVSET",
        _ => "UNK",
    }
}

/// Parse one frame from the front of `b`: Some((frame, consumed)) or None when incomplete.
pub fn parse_one(b: &[u8]) -> Option<(RFrame, usize)> {
    if b.len() < HDR {
        return None;
    }
    let cmd = b[0];
    let sid = ((b[1] as u32) << 24) | ((b[2] as u32) << 16) | ((b[3] as u32) << 8) | b[4] as u32;
    let len = ((b[5] as usize) << 8) | b[6] as usize;
    if b.len() < HDR + len {
        return None;
    }
    Some((RFrame { cmd, sid, data: b[HDR..HDR + len].to_vec(), off: 0 }, HDR + len))
}

/// Parse as many complete frames as possible; returns frames and bytes consumed.
pub fn parse_all(b: &[u8]) -> (Vec<RFrame>, usize) {
    let mut out = Vec::new();
    let mut pos = 0;
    while let Some((mut f, n)) = parse_one(&b[pos..]) {
        f.off = pos;
        out.push(f);
        pos += n;
    }
    (out, pos)
}

/// Reference encoding; payload must fit the 16-bit length field.
pub fn encode(cmd: u8, sid: u32, data: &[u8]) -> Vec<u8> {
    assert!(data.len() <= 0xFFFF, "refcodec: payload does not fit a frame");
    let mut v = Vec::with_capacity(HDR + data.len());
    v.push(cmd);
    v.push((sid >> 24) as u8);
    v.push((sid >> 16) as u8);
    v.push((sid >> 8) as u8);
    v.push(sid as u8);
    v.push((data.len() >> 8) as u8);
    v.push(data.len() as u8);
    v.extend_from_slice(data);
    v
}

pub fn encode_frame(f: &RFrame) -> Vec<u8> {
    encode(f.cmd, f.sid, &f.data)
}

/// parse a "k=v\nk=v" settings payload into a sorted list (reference string-map)
pub fn parse_settings(data: &[u8]) -> std::collections::BTreeMap<String, String> {
    let mut m = std::collections::BTreeMap::new();
    let text = String::from_utf8_lossy(data);
    for line in text.split('\n') {
        let line = line.strip_suffix('\r').unwrap_or(line);
        if let Some(i) = line.find('=') {
            m.insert(line[..i].trim().to_string(), line[i + 1..].trim().to_string());
        }
    }
    m
}
