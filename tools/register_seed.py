#!/usr/bin/env python3
"""tools/register_seed.py <worktree> <Snnn-slug> <round> <property> "<needs to manifest>" "<verify_seed.sh output line>"

Copies a sub-agent's delivery (<worktree>/_seed/{patch.diff,demo.rs,notes.md}) to seeded/<id>/ and writes meta.json.
`caught_by` starts empty; fill it in after tools/try_seed_scratch.sh has been run against the patch."""
import json, os, shutil, subprocess, sys

wt, sid, rnd, prop, needs, verified = sys.argv[1:7]
root = os.path.join(os.path.dirname(os.path.abspath(__file__)), "..", "seeded", sid)
os.makedirs(root, exist_ok=True)
shutil.copy(os.path.join(wt, "_seed", "patch.diff"), os.path.join(root, "patch.diff"))
shutil.copy(os.path.join(wt, "_seed", "demo.rs"), os.path.join(root, "demo.rs"))
shutil.copy(os.path.join(wt, "_seed", "notes.md"), os.path.join(root, "author_notes.md"))
stat = subprocess.run(["git", "-C", wt, "diff", "--stat", "--", "src/"], capture_output=True, text=True).stdout
touches = [l.strip() for l in stat.splitlines() if "|" in l]
head = subprocess.run(["git", "-C", wt, "rev-parse", "--short", "HEAD"], capture_output=True, text=True).stdout.strip()
meta = {
    "id": sid,
    "round": int(rnd),
    "breaks_property": prop,
    "author": f"independent sub-agent given only the property record, the list of earlier ideas to avoid, and a scratch worktree of /repo at {head}",
    "needs_to_manifest": needs,
    "touches": touches,
    "demonstration": "demo.rs — place as tests/seeded_demo.rs in the repository and run `cargo test --offline --test seeded_demo`",
    "verified_by_me": {
        "command": "tools/verify_seed.sh <worktree>",
        "result": verified,
        "reading": "the 73 pinned tests pass with the change (passed count = 73 + passing demo sub-tests, failed = demo sub-tests only); the demonstration fails with the change and passes without it",
    },
    "checks_run_against_it": "tools/try_seed_scratch.sh <patch> quick <check> (scratch worktree, /repo untouched)",
    "caught_by": [],
}
json.dump(meta, open(os.path.join(root, "meta.json"), "w"), indent=1)
print("registered", sid)
