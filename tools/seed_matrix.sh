#!/bin/bash
# tools/seed_matrix.sh [tier] : apply every seeded change in turn and run the check of the property it breaks.
# Prints one line per seed: CAUGHT (exit 1 with a VIOLATION line) or MISSED. /repo is always restored.
# Do not run while any other check is running: the patches are applied to /repo's working tree, which every check rebuilds from.
TIER=${1:-quick}
cd "$(dirname "$0")/.."
for d in seeded/S*/; do
  id=$(python3 -c "import json;print(json.load(open('$d/meta.json'))['breaks_property'])")
  if ! git -C /repo diff --quiet; then echo "/repo dirty"; exit 2; fi
  git -C /repo apply "$PWD/$d/patch.diff" 2>/dev/null || { echo "$(basename $d) $id PATCH-DOES-NOT-APPLY"; continue; }
  out=$(./check $id $TIER 2>&1); rc=$?
  git -C /repo checkout -- .
  if [ $rc -eq 1 ] && echo "$out" | grep -q "^VIOLATION property=$id"; then
    echo "$(basename $d) $id CAUGHT  $(echo "$out" | grep -m1 signature | cut -c1-110)"
  else
    echo "$(basename $d) $id MISSED rc=$rc"
  fi
done
