#!/bin/bash
# tools/seed_matrix_scratch.sh [tier] [first-seed-glob] : like seed_matrix.sh, but every seeded change is applied to a
# scratch worktree of /repo's HEAD (tools/try_seed_scratch.sh), so /repo itself is never touched and other
# checks may run meanwhile. One line per seed: CAUGHT (exit 1 with a VIOLATION line of its property) or MISSED.
TIER=${1:-quick}
GLOB=${2:-S*}
cd "$(dirname "$0")/.."
for d in seeded/$GLOB/; do
  id=$(python3 -c "import json;print(json.load(open('$d/meta.json'))['breaks_property'])")
  out=$(tools/try_seed_scratch.sh "$d/patch.diff" $TIER $id 2>&1)
  if echo "$out" | grep -q "rc=1" && echo "$out" | grep -q "signature"; then
    echo "$(basename $d) $id CAUGHT  $(echo "$out" | grep -m1 signature | cut -c1-120)"
  else
    echo "$(basename $d) $id MISSED  $(echo "$out" | grep -m1 "== " | cut -c1-60)"
  fi
done
