#!/bin/bash
# tools/try_seed.sh <patch.diff> <tier> <Cxx> [Cyy ...]  — apply a seeded change to /repo, run checks, always revert
PATCH=$1; TIER=$2; shift 2
cd "$(dirname "$0")/.."
if ! git -C /repo diff --quiet; then echo "/repo has local changes; abort"; exit 2; fi
git -C /repo apply "$PATCH" || { echo "patch does not apply"; exit 2; }
trap 'git -C /repo checkout -- . ; echo "(reverted)"' EXIT
for id in "$@"; do
  out=$(./check $id $TIER 2>&1); rc=$?
  echo "== $id $TIER rc=$rc :: $(echo "$out" | grep -E "^$id " | tail -1 | cut -c1-140)"
  echo "$out" | grep -E "signature|detail|BROKEN|BUILD-FAILED|INCONCL" | head -8 | cut -c1-400
done
