#!/bin/bash
# run every check of one tier; print a one-line summary per check
TIER=${1:-quick}
cd "$(dirname "$0")/.."
for i in $(seq -w 1 20); do
  id="C$i"
  s=$(date +%s.%N)
  out=$(./check $id $TIER 2>&1); rc=$?
  e=$(date +%s.%N)
  printf "%s rc=%d %6.1fs  %s\n" $id $rc $(echo "$e - $s" | bc) "$(echo "$out" | grep -E "^$id " | tail -1 | cut -c1-150)"
  echo "$out" | grep -E "VIOLATION|KNOWN-FINDING|BROKEN|INCONCLUSIVE|signature" | head -6
done
