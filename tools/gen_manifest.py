#!/usr/bin/env python3
"""Regenerate /verif/MANIFEST.json from the table below (keeps it valid at all times)."""
import json, subprocess, os
ROOT = os.path.dirname(os.path.dirname(os.path.abspath(__file__)))
ids = [json.loads(l)["id"] for l in open(os.path.join(ROOT, "properties.jsonl"))]

def hook_commits():
    out = subprocess.run(["git", "-C", "/repo", "log", "--format=%H %s"], capture_output=True, text=True).stdout
    return [l.split()[0] for l in out.splitlines() if l.split(" ", 1)[1].startswith("verif:")][::-1]

# id -> (level category, technique, level text, level note, design ref)
CHECKS = {
 "C01": ("exploration", "runtime monitoring: online prefix checker over position-addressable payloads on recorded in-memory transports, virtual time",
         "Thousands of generated multiplexing executions of the real client/server Session pair (1-8 streams, boundary-heavy chunk sizes incl. >64 KiB and empty, three submission and three read paths, seeded transport fragmentation / back-pressure / spurious Pending, random padding schemes, forced yields) with every delivered byte compared online against the byte written at that offset, completeness at quiescence and 'nothing more'. Held on the executions observed, not a proof.",
         "trusts tokio's paused clock/scheduler and the pattern generator; streams are not closed in this workload (C08)", "DESIGN.md §6 C01"),
 "C03": ("exploration", "runtime differential monitoring against an independent reference codec (exhaustive header grid in the thorough tier)",
         "Differential execution of FrameCodec against a 40-line reference on the header-only grid (all 256 command bytes x all 65536 lengths in the thorough tier), round trips over boundary ids/lengths, oversize attempts, concatenations cut at every position/pair, and arbitrary byte strings; frames, consumed counts and exact leftover compared after every feed.",
         "trusts the reference codec; stream ids and payload contents sampled", "DESIGN.md §6 C03"),
 "C04": ("exploration", "runtime monitoring: reference parse of the recorded wire vs the submission log over generated padding schemes",
         "Generated schemes over the whole accepted language (sizes to 200000, two larger samples, >=2^31 in memory-capped sub-processes) on the real send_authentication + client Session; the complete recorded wire must parse as whole frames and equal the submission log once padding frames are deleted; sender errors/panics/hangs are violations.",
         "single submitter; trusts the reference codec; payload per data frame <= 65535", "DESIGN.md §6 C04"),
 "C05": ("exploration", "runtime monitoring: nondeterministic reference acceptor over recorded write-call boundaries",
         "The preamble and the write-length sequence of every early session packet, recorded on a transport that accepts whole writes, are checked against a nondeterministic acceptor for the scheme line of that packet (unpadded at/after stop and on the server side) for tens of thousands of generated schemes and payload sizes placed around the scheme's own sizes.",
         "write boundaries = write_all calls because the MemPipe accepts whole writes; padding byte values not judged", "DESIGN.md §6 C05"),
 "C11": ("exploration", "runtime monitoring with systematic pre-emption enumeration at named scheduling points; merge-order checker over the recorded wire",
         "Tagged frames from 1-5 concurrent request tasks (+ keep-alives) on one fresh session; every single pre-emption position x 4 yield lengths, all pairs for small scenarios, random schedules and a multi-worker runtime; the recorded wire must be a merge of the per-task submission logs with Settings first and SYN before PSH, and the peer stream must receive the concatenated payloads.",
         "a forced yield at a hook models pre-emption by another worker; at most two forced pre-emptions enumerated systematically", "DESIGN.md §6 C11"),
}
REASON_PENDING = "check under construction (see DESIGN.md); not yet claimed"

m = {
 "version": 1,
 "setup_cmd": "cd /verif/harness && CARGO_NET_OFFLINE=true cargo build --profile mon --offline --bin mon",
 "hooks": {
  "guard": "cargo feature `verif` of anytls-rs (off by default)",
  "enable": "the harness crate depends on anytls-rs = { path = \"/repo\", features = [\"verif\"] }; ./check rebuilds it from /repo's working tree on every run",
  "baseline_off_cmd": "cd /repo && cargo nextest run --workspace --no-fail-fast --offline || cargo test --workspace --no-fail-fast --offline",
  "source_commits": hook_commits(),
  "add_only": True,
 },
 "engines": [
  {"name": "mon", "path": "harness/", "serves_properties": sorted(CHECKS), "kind_free_text": "Rust runtime-monitoring harness: monitored in-memory transports (MemPipe), virtual time, reference codec / scheme acceptor / models, schedule controller for the verif hooks, loopback kit; driver ./check"},
 ],
 "checks": [],
 "not_applicable": [],
 "notes": "All checks are runtime monitors over executions of the real code (see DESIGN.md). Known findings: known_findings.json.",
}
for i in ids:
    if i in CHECKS:
        cat, tech, text, note, ref = CHECKS[i]
        m["checks"].append({
            "property_id": i, "quick_cmd": f"./check {i} quick", "thorough_cmd": f"./check {i} thorough",
            "evidence_file": f"/verif/evidence/{i}.json", "replay_cmd_template": f"./check {i} quick --replay {{path}}",
            "engine": "mon", "technique": tech,
            "level_claimed": {"category": cat, "text": text, "design_ref": ref}, "level_note": note,
        })
    else:
        m["not_applicable"].append({"property_id": i, "reason": REASON_PENDING})
json.dump(m, open(os.path.join(ROOT, "MANIFEST.json"), "w"), indent=1)
print("checks:", [c["property_id"] for c in m["checks"]], "pending:", len(m["not_applicable"]))
