#!/usr/bin/env python3
"""Regenerate /verif/MANIFEST.json from the table below (keeps it valid at all times)."""
import json, subprocess, os
ROOT = os.path.dirname(os.path.dirname(os.path.abspath(__file__)))
ids = [json.loads(l)["id"] for l in open(os.path.join(ROOT, "properties.jsonl"))]

def hook_commits():
    out = subprocess.run(["git", "-C", "/repo", "log", "--format=%H %s"], capture_output=True, text=True).stdout
    return [l.split()[0] for l in out.splitlines() if l.split(" ", 1)[1].startswith("verif:")][::-1]

# id -> (level category, technique, level text, level note, design ref)
CHECKS = {
 "C01": ("exploration", "runtime monitoring: online prefix checker over position-addressable payloads on recorded in-memory transports, virtual time",
         "Thousands of generated multiplexing executions of the real client/server Session pair (1-8 streams, boundary-heavy chunk sizes incl. >64 KiB and empty, three submission and three read paths, seeded transport fragmentation / back-pressure / spurious Pending, random padding schemes, forced yields) with every delivered byte compared online against the byte written at that offset, completeness at quiescence and 'nothing more'. Held on the executions observed, not a proof.",
         "trusts tokio's paused clock/scheduler and the pattern generator; streams are not closed in this workload (C08)", "DESIGN.md §6 C01"),
 "C02": ("exploration", "runtime monitoring: scripted hostile peer (reference codec) + per-stream tagged payload checker, virtual time",
         "A raw scripted peer interleaves hostile but well-formed frames (ids never opened / finished / reused, duplicate SYN, stray SYNACK/FIN, unknown commands) with tagged data for up to 16 live streams of a real client or server Session, randomly and at every frame boundary of clean scripts; every stream must read exactly its own bytes and end iff its own FIN came; plus the cooperative 2-16 stream workload of C01.",
         "a duplicate SYN/FIN for id a may end id a (only other ids judged); alerts excluded (C09)", "DESIGN.md §6 C02"),
 "C03": ("exploration", "runtime differential monitoring against an independent reference codec (exhaustive header grid in the thorough tier)",
         "Differential execution of FrameCodec against a 40-line reference on the header-only grid (all 256 command bytes x all 65536 lengths in the thorough tier), round trips over boundary ids/lengths, oversize attempts, concatenations cut at every position/pair, and arbitrary byte strings; frames, consumed counts and exact leftover compared after every feed.",
         "trusts the reference codec; stream ids and payload contents sampled", "DESIGN.md §6 C03"),
 "C04": ("exploration", "runtime monitoring: reference parse of the recorded wire vs the submission log over generated padding schemes",
         "Generated schemes over the whole accepted language (sizes to 200000, two larger samples, >=2^31 in memory-capped sub-processes) on the real send_authentication + client Session; the complete recorded wire must parse as whole frames and equal the submission log once padding frames are deleted; sender errors/panics/hangs are violations.",
         "single submitter; trusts the reference codec; payload per data frame <= 65535", "DESIGN.md §6 C04"),
 "C05": ("exploration", "runtime monitoring: nondeterministic reference acceptor over recorded write-call boundaries",
         "The preamble and the write-length sequence of every early session packet, recorded on a transport that accepts whole writes, are checked against a nondeterministic acceptor for the scheme line of that packet (unpadded at/after stop and on the server side) for tens of thousands of generated schemes and payload sizes placed around the scheme's own sizes.",
         "write boundaries = write_all calls because the MemPipe accepts whole writes; padding byte values not judged", "DESIGN.md §6 C05"),
 "C06": ("exploration", "runtime monitoring of authenticate_client on a monitored transport (consumed-byte sentinel), systematic preamble mutation",
         "The real authenticate_client on a MemPipe in 5 fragmentation classes: all single-bit flips, single-byte deviations at every position, correct prefixes/suffixes, related-password hashes (must be rejected), valid preambles with every declared padding length in the thorough tier followed by a sentinel frame (must be accepted and leave exactly the sentinel), every truncation (must not be accepted, must not hang).",
         "function level on in-memory transports; SHA-256 from the sha2 crate computes expected hashes", "DESIGN.md §6 C06"),
 "C07": ("exploration", "runtime monitoring over loopback with server-side hook events (Destination/Dial/UdpTarget), fake DNS behind the real resolver",
         "Real Client -> real Server over loopback TLS (API, SOCKS5 front-end, destination header fragmented over PSH frames into the real handler on a MemPipe session): IPv4/IPv6 literals incl. special ones, names of every length class 1..255, boundary ports; the server must decode the destination unchanged and dial exactly (address of the requested host, requested port), confirmed by accept for loopback targets; UDP association targets; request/resolver histories that exercise the resolver cache (same host other ports, other hosts, TTL crossing in the thorough tier).",
         "the Dial hook fires right before TcpStream::connect; non-local connects are refused at once in the sandbox; fake DNS serves one A record per name", "DESIGN.md §6 C07"),
 "C08": ("exploration", "runtime monitoring: scripted-peer FIN workload under virtual time + loopback close/half-close matrix with byte-exact and EOF observation",
         "Session level: PSH..PSH,FIN for 1-8 streams against real client/server Sessions (reader sees all bytes then EOF iff its FIN was sent, other direction keeps working, tables hold exactly the unfinished streams). End to end through SOCKS5 and HTTP CONNECT: application and target close / half-close in both orders with 0-300000 bytes in flight: every byte arrives, then end of stream within the bound, the other direction still carries data, the second endpoint sees EOF too, and complete request cycles leave no tasks behind.",
         "EOF at the e2e level is decided with a 4 s / 10 s bound on loopback", "DESIGN.md §6 C08"),
 "C09": ("fault_enumeration", "runtime monitoring with fault injection at byte offsets / logical steps on monitored transports, virtual time, forced pre-emptions around close()",
         "Fault runs (scenario x side x cause x position [x forced pre-emption]) over 8 scenarios and 9 termination causes injected at every frame boundary, inside headers and payloads, and after every logical step; 120 virtual seconds after the cause every waiter (readers, in-flight writers, pending opens, the close call) must have completed, the session must be visibly closed, the transport shut down, later write/open must fail promptly, no session task may be alive and the tables must be empty.",
         "bounded progress: 120 virtual seconds counts as forever; tokio's paused clock advances only when every task is idle", "DESIGN.md §6 C09"),
 "C10": ("exploration", "runtime monitoring: real stack over loopback + scripted TLS peer controlling SYNACK timing + session-level first-outcome grid",
         "Accepting / refusing / unresolvable targets through create_proxy_stream, SOCKS5 (incl. an early-sending application), HTTP CONNECT and GET with 32 opens in flight on shared sessions; the real Client against a scripted TLS peer (SYNACK ok/error at chosen instants incl. 10/25/33 s and never in the thorough tier, duplicated, for unknown ids, before the destination, connection close and Alert during the wait); first-outcome-wins at session level under virtual time. Verdict, completion time window, error text, accept log and bytes at targets are compared with the scripted truth.",
         "real-time windows are generous (+4-5 s) and separate only well-spaced instants", "DESIGN.md §6 C10"),
 "C11": ("exploration", "runtime monitoring with systematic pre-emption enumeration at named scheduling points; merge-order checker over the recorded wire",
         "Tagged frames from 1-5 concurrent request tasks (+ keep-alives) on one fresh session; every single pre-emption position x 4 yield lengths, all pairs for small scenarios, random schedules and a multi-worker runtime; the recorded wire must be a merge of the per-task submission logs with Settings first and SYN before PSH, and the peer stream must receive the concatenated payloads.",
         "a forced yield at a hook models pre-emption by another worker; at most two forced pre-emptions enumerated systematically", "DESIGN.md §6 C11"),
 "C12": ("exploration", "runtime monitoring: property rules applied in lock-step to the real SessionPool under virtual time (exhaustive short sequences + random) and PoolReap events joined with live streams at client level",
         "All operation sequences of length <= 4 plus random sequences (add, get, concurrent gets, external death, clock advance, manual tick, return) over check_interval / idle_timeout / min_idle grids on a real SessionPool with real client Sessions; after every step: no closed / non-idle / duplicate session handed out, no in-use or unexpired session closed by the reaper, never fewer than min(min_idle, before) idle sessions left, surplus expired sessions gone after idle_timeout + check_interval. Client level: real Client/Server with 150/300 ms housekeeping and long-lived streams: no PoolReap for a session that carries a live stream, every live stream keeps working.",
         "'eventually' = within idle_timeout + check_interval + 1 s of virtual quiet time; client-level verdicts are logical, not timing based", "DESIGN.md §6 C12"),
 "C13": ("exploration", "runtime monitoring over loopback behind a TLS-connection-counting relay (histories of complete requests)",
         "Sequential histories of 3-200 complete SOCKS5 requests and bursty rounds of 2-16 concurrent requests through the real Client/Server behind a TCP relay that counts TLS connections: non-overlapping requests must not open new connections and the number of open connections stays within peak concurrency + min_idle.",
         "a request counts as finished once the application socket saw end of stream plus 60 ms; server and relay stay up", "DESIGN.md §6 C13"),
 "C14": ("exploration", "runtime monitoring on a configuration grid under virtual time with delayed in-memory links and recorded keep-alive frames",
         "Client Session with heartbeat (interval, timeout) from the grid {1,2,5,10,30,60,300} s squared against a real server Session over MemPipes with one-way delay (RTT 0-0.99 x timeout), with no / light / flooding stream traffic; healthy peers for 50 intervals must never be closed (keep-alive exchanges counted on the recorded pipes); peers that go dead at 5 characteristic instants must be closed, with reader and pending open released, by (delivery time of the last response read from the pipe log) + timeout + interval.",
         "'dead' = black hole in both directions; zero intervals excluded (configuration panic in tokio::time::interval)", "DESIGN.md §6 C14"),
 "C15": ("exploration", "runtime monitoring: lock-step unique datagrams through the real UDP-over-TCP path on loopback + fragmented record streams into the real handler",
         "create_udp_proxy -> real Server -> recording UDP sockets on 127.0.0.1, random 127.a.b.c and ::1 (with a decoy socket): unique datagrams of boundary and uniform sizes up to 65507 bytes in both directions must arrive once, whole, unaltered, at the right socket; and the length-prefixed record stream cut arbitrarily across PSH frames and read pieces into the real handle_udp_over_tcp must yield exactly one identical datagram per record (and one record per returned datagram).",
         "lock-step on loopback excludes socket-buffer loss; 6 s decides 'never delivered'", "DESIGN.md §6 C15"),
 "C16": ("exploration", "runtime differential monitoring of the SOCKS5 listener against a small reference model, with Dial events and target accepts",
         "Raw loopback connections to the real start_socks5_server: every greeting version byte, method lists 0..255 with/without no-auth, every command code, every address type, domain lengths 0..255 and invalid UTF-8, port boundaries, accepting/refusing targets, delivered in parts / one segment / byte at a time / split at every position; method reply, connect reply, Dial events and target accepts compared with a 30-line reference model (closing without a reply counts as refusing).",
         "one shared Client/Server pair, 32 connections in flight, so collateral damage between connections would show", "DESIGN.md §6 C16"),
 "C17": ("exploration", "runtime monitoring: grammar-generated requests with expected outcome by construction, observed at loopback origins (incl. ports 80/443)",
         "Requests generated together with their expected outcome (methods, CONNECT authority / absolute http(s) URI / origin-form + Host, names / IPv4 / bracketed IPv6, explicit or default ports, 0-60 header lines incl. heads just under 64 KiB, Host header anywhere / any letter case / absent, 0-8 KiB early body or tunnel bytes plus later bytes) sent through the real start_http_proxy_server; the origin connection carrying the request's token must arrive at exactly the named authority with the expected request line, unchanged non-Host headers in order, a Host naming the same authority, and byte-exact body / tunnel bytes.",
         "first request per connection only; heads above 64 KiB may be rejected", "DESIGN.md §6 C17"),
 "C18": ("fault_enumeration", "runtime monitoring with on-disk fault enumeration: in-memory TLS handshake (recording verifier) against the current acceptor after every step",
         "File-state fault sequences against the real CertReloader (pairs A, B, C, expired E): two-file updates with a reload between every pair of writes, each file replaced alone / garbage / empty / missing / swapped, truncation prefixes (every byte in the thorough tier), random 20-200 step sequences, a concurrent rewriter; reload() must be Ok iff the files hold a complete matching (unexpired) pair, failures change nothing (presented leaf, info, counters), successes are served by every later handshake, an old TLS connection keeps working.",
         "a file is complete when the whole PEM block is present; rcgen/rustls generate and verify the pairs", "DESIGN.md §6 C18"),
 "C19": ("exploration", "runtime monitoring: reference acceptor over recorded write boundaries across scheme pushes, one fresh sub-process per history",
         "Histories of 1-3 sessions per fresh process (built-in default used before / not used), each a real client Session against a raw scripted server pushing one of 4 generated schemes 1-4 times, re-pushing the initial one, or pushing unparsable schemes; every packet after a processed push must be accepted by the reference acceptor for the pushed scheme's line of that packet, unparsable pushes change nothing and do not end the session.",
         "pushes are processed at quiescent points (1 virtual second after the frame)", "DESIGN.md §6 C19"),
 "C20": ("exploration", "runtime monitoring under hostile input: process-wide panic hook, task-liveness and CPU-qualified watchdog, sibling-session check, virtual time",
         "Random bytes, mutated valid traffic (bit flips, truncation, duplication, reordering, length/command/id corruption), settings and scheme payload fuzz, command x id x length bursts and the single-frame grid against real client and server Sessions with open streams; the owner keeps using the session, then the peer leaves: no panic anywhere, owner calls return within 120 virtual seconds, the victim's output still parses, the session closes and no task survives, a sibling session pair in the same runtime still moves tagged data correctly; a case that burns CPU without finishing is reported as a spin.",
         "frame level on in-memory transports; alerts legitimately end a session", "DESIGN.md §6 C20"),
}
REASON_PENDING = "check under construction (see DESIGN.md); not yet claimed"

m = {
 "version": 1,
 "setup_cmd": "cd /verif/harness && CARGO_NET_OFFLINE=true cargo build --profile mon --offline --bin mon",
 "hooks": {
  "guard": "cargo feature `verif` of anytls-rs (off by default)",
  "enable": "the harness crate depends on anytls-rs = { path = \"/repo\", features = [\"verif\"] }; ./check rebuilds it from /repo's working tree on every run",
  "baseline_off_cmd": "cd /repo && cargo nextest run --workspace --no-fail-fast --offline || cargo test --workspace --no-fail-fast --offline",
  "source_commits": hook_commits(),
  "add_only": True,
 },
 "engines": [
  {"name": "mon", "path": "harness/", "serves_properties": sorted(CHECKS), "kind_free_text": "Rust runtime-monitoring harness: monitored in-memory transports (MemPipe), virtual time, reference codec / scheme acceptor / models, schedule controller for the verif hooks, loopback kit; driver ./check"},
 ],
 "checks": [],
 "not_applicable": [],
 "notes": "All checks are runtime monitors over executions of the real code (see DESIGN.md). Known findings: known_findings.json.",
}
for i in ids:
    if i in CHECKS:
        cat, tech, text, note, ref = CHECKS[i]
        m["checks"].append({
            "property_id": i, "quick_cmd": f"./check {i} quick", "thorough_cmd": f"./check {i} thorough",
            "evidence_file": f"/verif/evidence/{i}.json", "replay_cmd_template": f"./check {i} quick --replay {{path}}",
            "engine": "mon", "technique": tech,
            "level_claimed": {"category": cat, "text": text, "design_ref": ref}, "level_note": note,
        })
    else:
        m["not_applicable"].append({"property_id": i, "reason": REASON_PENDING})
json.dump(m, open(os.path.join(ROOT, "MANIFEST.json"), "w"), indent=1)
print("checks:", [c["property_id"] for c in m["checks"]], "pending:", len(m["not_applicable"]))
