#!/bin/bash
# tools/try_seed_scratch.sh <patch.diff> <tier> <check> [<check>...]
# Like try_seed.sh but never touches /repo: the patch is applied to a scratch worktree of /repo's HEAD
# under /tmp/mut/repo and a scratch copy of the harness (path dependency rewritten) is built against it.
# Safe to use while other checks run. Leaves /tmp/mut in place for the next call; remove it when done:
#   git -C /repo worktree remove --force /tmp/mut/repo; rm -rf /tmp/mut
set -u
PATCH=$(readlink -f "$1"); TIER=$2; shift 2
M=/tmp/mut
mkdir -p $M/vroot
if [ ! -d $M/repo/.git ] && [ ! -f $M/repo/.git ]; then git -C /repo worktree add --detach -f $M/repo HEAD >/dev/null 2>&1 || exit 2; fi
git -C $M/repo checkout -q --detach "$(git -C /repo rev-parse HEAD)" 2>/dev/null
git -C $M/repo checkout -- . ; git -C $M/repo clean -fdq -e target
git -C $M/repo apply "$PATCH" || { echo "PATCH-DOES-NOT-APPLY"; exit 2; }
rsync -a --delete --exclude target /verif/harness/ $M/harness/
sed -i "s|path = \"/repo\"|path = \"$M/repo\"|" $M/harness/Cargo.toml
cp /verif/properties.jsonl /verif/known_findings.json $M/vroot/
( cd $M/harness && CARGO_NET_OFFLINE=true cargo build --profile mon --offline --bin mon 2>&1 | grep -E "^error" -A8 )
[ -x $M/harness/target/mon/mon ] || { echo BUILD-FAILED; exit 2; }
ulimit -n 65536 2>/dev/null
for c in "$@"; do
  out=$(cd $M/vroot && VERIF_ROOT=$M/vroot $M/harness/target/mon/mon $c $TIER 2>&1); rc=$?
  echo "== $c $TIER rc=$rc :: $(echo "$out" | grep -E "^C[0-9]+ (quick|thorough)" | tail -1)"
  echo "$out" | grep -E "signature|BROKEN|INCONCLUSIVE" | cut -c1-220 | head -4
  echo "$out" | grep -E "^  detail" | cut -c1-400 | head -2
done
git -C $M/repo checkout -- . ; git -C $M/repo clean -fdq -e target
