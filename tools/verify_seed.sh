#!/bin/bash
# tools/verify_seed.sh <worktree> : re-verify a seeded change in its scratch worktree
# (a) with the change: builds, the 73 pinned tests pass, the demonstration fails; (b) without it: the demonstration passes
WT=$1
cd "$WT" || exit 2
demo=$(ls tests/seeded_demo*.rs 2>/dev/null | head -1)
[ -z "$demo" ] && { echo "$WT: no demo test file"; exit 2; }
name=$(basename "$demo" .rs)
out=$(cargo test --offline --no-fail-fast 2>&1)
pass=$(echo "$out" | grep -E "^test result" | awk '{p+=$4; f+=$6} END {print p" "f}')
demo_with=$(cargo test --offline --test "$name" 2>&1 | grep -E "^test result" | tail -1)
# (no git stash: the stash is shared between all worktrees of a repository)
git diff -- src/ > .verify_seed.diff
[ -s .verify_seed.diff ] || { echo "$WT: no source change applied"; exit 2; }
git apply -R .verify_seed.diff || exit 2
demo_without=$(cargo test --offline --test "$name" 2>&1 | grep -E "^test result" | tail -1)
git apply .verify_seed.diff && rm -f .verify_seed.diff
cmp -s <(git diff -- src/) _seed/patch.diff || echo "$WT: NOTE working-tree change differs from _seed/patch.diff"
echo "$WT :: all tests (incl. demo) passed/failed: $pass :: demo WITH change: $demo_with :: demo WITHOUT change: $demo_without"
